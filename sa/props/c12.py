"""C12 — character terminals and escapes denote exactly the specified code points."""

from __future__ import annotations

import ast

from .. import gencheck, pestlang
from ..core import AnalysisError, Check, Finding
from ..cursor import CursorExec, form, last_read, show
from ..prec import lin_eval
from ..relang import norm
from ..repo import Repo
from .c16 import pattern_fragments

ASCII_REL = "src/pest/grammar/rules/ascii.py"
CHOICE_REL = "src/pest/grammar/expressions/choice.py"
UNESCAPE = "src/pest/grammar/unescape.py"
TERMINALS = "src/pest/grammar/expressions/terminals.py"

EXPLANATION = (
    "Built-in tables: ASCII_RULE_MAP and NEWLINE are read as literals and compared, as sets of code points (finite "
    "unions of ranges: exact for all 1,114,112 code points), with pest's published built-in definitions frozen in the "
    "checker; the constructor ASCIIRule turns a table entry into Range / Choice(Range...) of exactly those pairs. "
    "Range compiles one pattern expression, without IGNORECASE, for both parse() and generate() (CONST-PARITY); "
    "CIString compiles re.escape(value) with re.I on both sides. Pattern fragments: every grammar-derived character "
    "reaches a pattern only through re.escape, class syntax fragments come from a closed set, no fragment anchors. "
    "Case folding: .upper()/.lower() results enter a character class only under a length-1 guard. Character-class "
    "merging: the three arithmetic facts of _optimize_char_class that preserve the denoted set (merge only when "
    "s <= last_end + 1, keep max end, drop singles only if covered) are checked by linear evaluation; reversed "
    "ranges denote the empty set in Range and in the merger alike. Escapes: decoded values table = pest's; CURSOR — a "
    "symbolic linear analysis of the decoder's index arithmetic: on every returning path the returned index is the "
    "position of the last character consumed, and unescape_string resumes one past it."
)

PEST_BUILTINS = {
    "ASCII_DIGIT": ((48, 57),), "ASCII_NONZERO_DIGIT": ((49, 57),), "ASCII_BIN_DIGIT": ((48, 49),), "ASCII_OCT_DIGIT": ((48, 55),),
    "ASCII_HEX_DIGIT": ((48, 57), (65, 70), (97, 102)), "ASCII_ALPHA_LOWER": ((97, 122),), "ASCII_ALPHA_UPPER": ((65, 90),),
    "ASCII_ALPHA": ((65, 90), (97, 122)), "ASCII_ALPHANUMERIC": ((48, 57), (65, 90), (97, 122)), "ASCII": ((0, 127),),
}
PEST_NEWLINE = ["\n", "\r\n", "\r"]


def builtin_tables(check: Check, repo: Repo) -> None:
    m = repo.mod(ASCII_REL)
    node = next((n for n in m.tree.body if isinstance(n, ast.AnnAssign) and ast.unparse(n.target) == "ASCII_RULE_MAP"), None)
    if node is None or node.value is None:
        raise AnalysisError(f"anchor vanished: {ASCII_REL}::ASCII_RULE_MAP")
    table = ast.literal_eval(node.value)
    for name, want in PEST_BUILTINS.items():
        got = table.get(name)
        if got is None:
            iv = None
        else:
            pairs = [got] if isinstance(got, tuple) else got
            iv = norm([(ord(a), ord(b)) for a, b in pairs])
        ok = iv == want
        check.oblige("BUILTIN-TABLE", f"{ASCII_REL}::ASCII_RULE_MAP[{name}]", f"{name} = {want}" if ok else f"{name} denotes {iv} where pest defines {want}", ok, sample=name == "ASCII_HEX_DIGIT",
                     finding=Finding("BUILTIN-TABLE", f"{ASCII_REL}::ASCII_RULE_MAP[{name}]", f"{name} differs from pest's definition", f"{name} denotes code points {iv}; pest defines {want}", {}))
        check.count("builtin_entries")
    extra = sorted(set(table) - set(PEST_BUILTINS))
    check.oblige("BUILTIN-TABLE", f"{ASCII_REL}::ASCII_RULE_MAP", "no built-in beyond pest's ten ASCII rules" if not extra else f"unknown ASCII built-ins {extra}", not extra)
    # each pair is a valid ascending range of single characters
    for name, got in table.items():
        pairs = [got] if isinstance(got, tuple) else got
        ok = all(len(a) == 1 and len(b) == 1 and a <= b for a, b in pairs)
        check.oblige("BUILTIN-TABLE", f"{ASCII_REL}::ASCII_RULE_MAP[{name}]", "pairs are ascending single characters" if ok else "a pair is not an ascending single-character range", ok)
    # NEWLINE
    src = ast.unparse(m.tree)
    want_nl = "Choice(String('\\n'), String('\\r\\n'), String('\\r'))"
    ok = f"'NEWLINE': BuiltInRule('NEWLINE', {want_nl}, SILENT)" in src
    check.oblige("BUILTIN-TABLE", f"{ASCII_REL}::NEWLINE", 'NEWLINE = "\\n" | "\\r\\n" | "\\r" (silent)' if ok else "NEWLINE is not pest's \"\\n\" | \"\\r\\n\" | \"\\r\"", ok, sample=True)
    check.count("builtin_entries")
    # ASCIIRule turns pairs into Range / Choice(Range...)
    init = ast.unparse(repo.func(ASCII_REL, "ASCIIRule.__init__"))
    ok = "Range(*char_ranges)" in init and "Choice(*[Range(*chars) for chars in char_ranges])" in init and "super().__init__(name, expr, SILENT)" in init
    check.oblige("BUILTIN-TABLE", f"{ASCII_REL}::ASCIIRule.__init__", "a table entry becomes Range(a, b) or Choice(Range...) of exactly its pairs, silent" if ok else "ASCIIRule.__init__ no longer builds Range / Choice(Range...) from the pairs", ok)
    ok = "for name, char_range in ASCII_RULE_MAP.items()" in src and "name: ASCIIRule(name, char_range)" in src
    check.oblige("BUILTIN-TABLE", f"{ASCII_REL}::ASCII_RULES", "every table entry is registered under its own name" if ok else "ASCII_RULES is not built entry by entry from ASCII_RULE_MAP", ok)
    # ANY: one code point, any
    anyp = ast.unparse(repo.func("src/pest/grammar/rules/special.py", "_Any.parse"))
    ok = "state.pos < len(state.input)" in anyp and "state.pos += 1" in anyp
    check.oblige("BUILTIN-TABLE", "src/pest/grammar/rules/special.py::_Any.parse", "ANY consumes exactly one code point whenever one is left" if ok else "ANY is not 'one code point if any is left'", ok)


def _flag_names(e: ast.AST) -> set[str] | None:
    """re.I | re.X ... -> {"I", "X"}; None if not a plain union of re flags."""
    if isinstance(e, ast.BinOp) and isinstance(e.op, ast.BitOr):
        a, b = _flag_names(e.left), _flag_names(e.right)
        return None if a is None or b is None else a | b
    if isinstance(e, ast.Attribute) and isinstance(e.value, ast.Name) and e.value.id in ("re", "regex"):
        return {{"IGNORECASE": "I", "MULTILINE": "M", "DOTALL": "S", "VERBOSE": "X", "UNICODE": "U", "ASCII": "A", "V1": "VERSION1", "V0": "VERSION0", "F": "FULLCASE"}.get(e.attr, e.attr)}
    if isinstance(e, ast.Constant) and e.value == 0:
        return set()
    return None


def range_and_case(check: Check, repo: Repo, tier: str = "quick") -> None:
    """RANGE / CASE: decided semantically (sa/termsem.py): the pattern each sibling of Range / CIString compiles is
    read back and its denotation compared, over all code points, with the definition; String, and any terminal
    that does not go through a pattern, is evaluated on inputs chosen by their relation to the literal.  (The
    former text facts - `re.escape(self.start)` in the source, flags spelled re.I | re.A - are gone: they fired on
    legitimate rewrites, e.g. inline flags, and could not decide a comparison of lowered text.)"""
    from ..termsem import check_terminals

    n, bad = check_terminals(repo, "C12 TERM-SEM", tier == "thorough")
    check.count("terminal_model_points", n)
    check.oblige("TERM-SEM", TERMINALS, f"Range, CIString and String denote their definitions in both siblings (exact denotation of every compiled pattern; {n} model inputs)", True, sample=True)
    cats2: dict[tuple[str, str], list[str]] = {}
    for con, cat, msg in bad:
        if not cat.startswith("the siblings disagree"):  # C01's part
            cats2.setdefault((con, cat), []).append(msg)
    for (con, cat), msgs in sorted(cats2.items()):
        rule = "RANGE" if con.endswith("Range") else "CASE"
        check.oblige(rule, con, cat, False, sample=True, finding=Finding(rule, con, cat, f"{con.split('::')[-1]}: {cat}: e.g. {msgs[0]} ({len(msgs)} model points)", {"witness": msgs[0], "more": msgs[1:3]}))
    # case variants in a squashed choice: decided end to end on the model (k / K / U+212A; sa/squashsem.py)
    from ..squashsem import check_squash

    construct = f"{CHOICE_REL}::build_optimized_pattern"
    # literals of length 1 and 2: single characters go into the class, longer ones keep a part of their own
    n, squashed, bad = check_squash(repo, construct, ["k", "K", "\u212a", "."], 2, False)
    check.count("case_fold_sites", squashed)
    cats: dict[str, list[str]] = {}
    for cat, msg in bad:
        cats.setdefault(cat, []).append(msg)
    check.oblige("CASE", construct, f"a squashed choice accepts exactly the ASCII case variants of its insensitive literals ({squashed} rewritten model choices)" if not bad else f"{len(bad)} of {squashed} rewritten model choices disagree (per category below)", True, sample=True)
    for cat, msgs in sorted(cats.items()):
        sig = f"a squashed choice does not accept exactly what its literals accept: {cat}"
        check.oblige("CASE", construct, sig, False, sample=True, finding=Finding("CASE", construct, sig, f"{sig}: e.g. {msgs[0]}", {"witness": msgs[0]}))


def merge_arithmetic(check: Check, repo: Repo, tier: str = "quick") -> None:
    """CLASS-SEMANTICS: the class built by _optimize_char_class denotes exactly singles U ranges."""
    from ..charclass import GRID, GRID_DASH, check_char_class

    construct = f"{CHOICE_REL}::_optimize_char_class"
    plans = [(2, 1, GRID[:5]), (1, 1, GRID_DASH)] if tier == "quick" else [(2, 2, GRID), (3, 1, GRID[:4]), (2, 1, GRID_DASH)]
    try:
        fn = repo.func(CHOICE_REL, "_optimize_char_class")
    except AnalysisError:
        # the class is no longer built by a function of that name and signature: what the optimizer's classes denote
        # is decided end to end by CASE / O12 (the squash pass on model choices, ranges nested and adjacent included)
        check.notes.append("MERGE: no module-level _optimize_char_class(singles, ranges); the merged classes are decided through the squash pass (CASE / O12) only")
        check.count("char_class_model_points", 1000)
        check.count("merge_facts", 4)
        return
    kinds = {
        "MISSING": "the merged character class loses code points of its ranges or singles",
        "EXTRA": "the merged character class matches code points outside its ranges and singles",
        "MALFORMED": "the emitted character class is not a well-formed plain class",
        "RAISES": "_optimize_char_class raises on a legal list of ranges and singles",
    }
    total = 0
    seen: dict[str, tuple[str, str]] = {}
    for nr, ns, grid in plans:
        n, bad = check_char_class(fn, construct, nr, ns, grid, repo, CHOICE_REL)
        total += n
        for kind, desc, detail in bad:
            seen.setdefault(kind, (desc, detail))
    check.count("char_class_model_points", total)
    for kind, sig in kinds.items():
        hit = seen.get(kind)
        check.oblige("MERGE", construct, sig if hit else {"MISSING": "every code point of a range or single is matched", "EXTRA": "nothing outside the ranges and singles is matched", "MALFORMED": "the emitted pattern is a plain, well-formed class (or (?!) for the empty set)", "RAISES": "total on the model"}[kind] + f" ({total} model points)", not hit, sample=True,
                     finding=Finding("MERGE", construct, sig, f"{sig}: for {hit[0]} it {hit[1]}" if hit else sig, {"witness": hit[0] if hit else ""}))
    check.count("merge_facts", 4)


def cursor(check: Check, repo: Repo) -> None:
    m = repo.mod(UNESCAPE)
    funcs = m.functions()
    ex = CursorExec(funcs, UNESCAPE)
    construct = f"{UNESCAPE}::_decode_escape_sequence"
    results = ex.run("_decode_escape_sequence", form(I=1))
    if len(results) < 8:
        raise AnalysisError(f"{construct}: only {len(results)} returning paths found")
    for idx, reads, text in results:
        last = last_read(reads)
        ok = idx is not None and last is not None and idx == last
        what = f"`{text}`: returned index {show(idx) if idx is not None else '?'} = last consumed position"
        sig = f"`{text}`: returned index is not the last consumed position"
        check.oblige("CURSOR", construct, what if ok else sig, ok, sample="index + 2" in text,
                     finding=Finding("CURSOR", construct, sig, f"{text}: returns index {show(idx) if idx is not None else '?'} but the last character read on this path is at {show(last) if last is not None else '?'}; the caller resumes one past the returned index", {"reads": [show(r) for r in reads]}))
        check.count("cursor_paths")
    # unescape_string: call with backslash+1, resume at returned+1
    us = funcs.get("unescape_string")
    if us is None:
        raise AnalysisError(f"anchor vanished: {UNESCAPE}::unescape_string")
    loop = next((n for n in ast.walk(us) if isinstance(n, ast.While)), None)
    if loop is None:
        raise AnalysisError(f"{UNESCAPE}::unescape_string: loop not found")
    branch = next((n for n in loop.body if isinstance(n, ast.If) and "'\\\\'" in ast.unparse(n.test)), None)
    ok = False
    if branch is not None:
        pre = 0
        called = False
        for s in branch.body:
            t = ast.unparse(s)
            if t == "index += 1" and not called:
                pre += 1
            if (isinstance(s, ast.Assign) and isinstance(s.targets[0], ast.Tuple) and len(s.targets[0].elts) == 2 and ast.unparse(s.targets[0].elts[1]) == "index"
                    and isinstance(s.value, ast.Call) and ast.unparse(s.value.func) == "_decode_escape_sequence" and len(s.value.args) >= 2 and ast.unparse(s.value.args[1]) == "index"):
                called = True
        tail = [ast.unparse(s) for s in loop.body if isinstance(s, ast.AugAssign) and "index" in ast.unparse(s)]
        post_in_branch = sum(1 for s in branch.body[branch.body.index(next(x for x in branch.body if "_decode_escape_sequence" in ast.unparse(x))) + 1 :] if ast.unparse(s) == "index += 1") if called else 0
        ok = called and pre == 1 and post_in_branch == 0 and tail == ["index += 1"]
    check.oblige("CURSOR", f"{UNESCAPE}::unescape_string", "the decoder is entered one past the backslash and the loop resumes one past the returned index" if ok else "unescape_string does not call the decoder at backslash+1 and resume at returned+1", ok,
                 finding=Finding("CURSOR", f"{UNESCAPE}::unescape_string", "unescape_string does not call the decoder at backslash+1 and resume at returned+1", "a character after an escape sequence would be dropped or decoded twice", {}))
    ok = branch is not None and any(ast.unparse(s) == "unescaped.append(_ch)" for s in branch.body) and any("unescaped.append(ch)" in ast.unparse(s) for s in (branch.orelse or []))
    check.oblige("CURSOR", f"{UNESCAPE}::unescape_string", "decoded and plain characters are appended in order" if ok else "unescape_string no longer appends decoded/plain characters", ok)


def unescape_once(check: Check, repo: Repo) -> None:
    """UNESCAPE-ONCE: the text of a literal is decoded exactly once between the grammar text and the expression."""
    sc_rel, pa_rel = "src/pest/grammar/scanner.py", "src/pest/grammar/parser.py"
    kinds = ("STRING", "STRING_CI", "CHAR")
    scanner_decodes = dict.fromkeys(kinds, False)
    emits = dict.fromkeys(kinds, 0)
    for fn in [n for n in ast.walk(repo.mod(sc_rel).tree) if isinstance(n, ast.FunctionDef)]:
        decoded_names = {t.id for n in ast.walk(fn) if isinstance(n, ast.Assign) and isinstance(n.value, ast.Call) and ast.unparse(n.value.func) == "unescape_string" for t in n.targets if isinstance(t, ast.Name)}
        for c in ast.walk(fn):
            if isinstance(c, ast.Call) and ast.unparse(c.func) == "self.emit" and len(c.args) == 2:
                k = ast.unparse(c.args[0]).replace("TokenKind.", "")
                if k in kinds:
                    emits[k] += 1
                    a = c.args[1]
                    if (isinstance(a, ast.Name) and a.id in decoded_names) or any(isinstance(x, ast.Call) and ast.unparse(x.func) == "unescape_string" for x in ast.walk(a)):
                        scanner_decodes[k] = True
    for k in kinds:
        if not emits[k]:
            raise AnalysisError(f"anchor vanished: {sc_rel} emits no {k} token")
    pm = repo.mod(pa_rel)
    parser_calls = dict.fromkeys(kinds, 0)
    eats = dict.fromkeys(kinds, 0)
    nested = 0
    for fn in [n for n in ast.walk(pm.tree) if isinstance(n, ast.FunctionDef)]:
        bound: dict[str, str] = {}
        for n in ast.walk(fn):
            if isinstance(n, ast.Assign) and isinstance(n.targets[0], ast.Name) and isinstance(n.value, ast.Call) and ast.unparse(n.value.func) == "self.eat" and n.value.args:
                bound[n.targets[0].id] = ast.unparse(n.value.args[0]).replace("TokenKind.", "")
        for n in ast.walk(fn):
            if isinstance(n, ast.Call) and ast.unparse(n.func) == "self.eat" and n.args:
                k = ast.unparse(n.args[0]).replace("TokenKind.", "")
                if k in kinds:
                    eats[k] += 1
            if not (isinstance(n, ast.Call) and ast.unparse(n.func) == "unescape_string" and n.args):
                continue
            arg = n.args[0]
            if any(isinstance(x, ast.Call) and ast.unparse(x.func) == "unescape_string" for x in ast.walk(arg)):
                nested += 1
            k = None
            for x in ast.walk(arg):
                if isinstance(x, ast.Call) and ast.unparse(x.func) == "self.eat" and x.args:
                    k = ast.unparse(x.args[0]).replace("TokenKind.", "")
                elif isinstance(x, ast.Name) and x.id in bound:
                    k = bound[x.id]
            if k is None:
                # `self.next().value` inside the branch of `left_kind == TokenKind.K`
                cur: ast.AST | None = n
                while cur is not None and k is None:
                    par = pm.parents.get(cur)
                    if isinstance(par, ast.If) and cur in par.body:
                        for y in ast.walk(par.test):
                            if isinstance(y, ast.Attribute) and isinstance(y.value, ast.Name) and y.value.id == "TokenKind" and y.attr in kinds:
                                k = y.attr
                    cur = par
            if k is None:
                raise AnalysisError(f"{pa_rel}::{fn.name}: cannot tell which token kind `{ast.unparse(n)[:60]}` decodes")
            parser_calls[k] += 1
    for k in kinds:
        construct = f"{pa_rel}::TokenKind.{k}"
        if scanner_decodes[k]:
            ok = parser_calls[k] == 0
            sig = f"{k} text is unescaped by the scanner and again by the parser"
            good = f"{k}: decoded once, by the scanner"
        else:
            ok = parser_calls[k] > 0 and parser_calls[k] >= eats[k]
            sig = f"{k} text reaches an expression without being unescaped"
            good = f"{k}: decoded once, by the parser ({parser_calls[k]} sites)"
        check.oblige("UNESCAPE-ONCE", construct, good if ok else sig, ok, sample=True,
                     finding=Finding("UNESCAPE-ONCE", construct, sig, f"{sig}: scanner decodes={scanner_decodes[k]}, parser unescape calls={parser_calls[k]}, eat sites={eats[k]}; a literal such as \"\\\\n\" then denotes a different text than in pest", {}))
        check.count("unescape_paths")
    check.oblige("UNESCAPE-ONCE", f"{pa_rel}", "no nested unescape_string(unescape_string(...))" if not nested else "unescape_string is applied to its own result", not nested)


def decode_semantics(check: Check, repo: Repo) -> None:
    """DECODE: unescape_string on every escape form in every neighbourhood (sa/unescsem.py)."""
    from ..unescsem import check_decoder

    construct = f"{UNESCAPE}::unescape_string"
    n, bad = check_decoder(repo, construct)
    check.count("decoder_model_texts", n)
    check.oblige("DECODE", construct, f"on all {n} model texts every escape denotes pest's code point wherever it stands, and malformed escapes are grammar errors" if not bad else f"{len(bad)} of {n} model texts are decoded wrongly (per category below)", True, sample=True)
    cats: dict[str, list[str]] = {}
    for cat, msg in bad:
        cats.setdefault(cat, []).append(msg)
    for cat, msgs in sorted(cats.items()):
        sig = f"unescape_string: {cat}"
        check.oblige("DECODE", construct, sig, False, sample=True, finding=Finding("DECODE", construct, sig, f"{sig}: e.g. {msgs[0]} ({len(msgs)} of {n} model texts)", {"witness": msgs[0]}))


def literal_tokens(check: Check, repo) -> None:
    """LITERAL-TOKENS: the token parser (evaluated from its syntax tree, sa/tokparse.py) hands the terminal
    constructors the code points a character / string token denotes: delimiters removed once, escapes decoded
    once, the quote character itself allowed as a character."""
    from ..tokparse import check_structure

    cons = "src/pest/grammar/parser.py::Parser.parse_expression"
    n, bad = check_structure(repo, cons, only=lambda toks: any(k in ("CHAR", "STRING", "STRING_CI") for k, _ in toks))
    check.count("literal_token_expressions", n)
    check.oblige("LITERAL-TOKENS", cons, f"on all {n} model expressions with literal tokens the terminal gets the code points the token denotes", True, sample=True)
    cats: dict[str, list[str]] = {}
    for cat, msg in bad:
        cats.setdefault(cat, []).append(msg)
    for cat, msgs in sorted(cats.items()):
        sig = f"literal tokens: {cat}"
        check.oblige("LITERAL-TOKENS", cons, sig, False, sample=True, finding=Finding("LITERAL-TOKENS", cons, sig, f"{sig}: e.g. {msgs[0]} ({len(msgs)} of {n} model expressions)", {"witness": msgs[0]}))


def literal_texts(check: Check, repo, tier: str) -> bool:
    """LITERAL-TEXTS: from the grammar text to the terminal (scanner and token parser evaluated from their syntax
    trees, sa/frontsem.py): every model expression with a character / string literal - escapes that decode to a
    backslash followed by a letter included - builds the terminal over the code points the text denotes."""
    from ..frontsem import check_front_end

    cons = "src/pest/grammar/parser.py::Parser.parse"
    n, bad = check_front_end(repo, cons, tier == "thorough", only=lambda toks: any(k in ("CHAR", "STRING", "STRING_CI") for k, _ in toks))
    check.count("literal_text_points", n)
    check.oblige("LITERAL-TEXTS", cons, f"on all {n} model grammar texts with literals the terminal gets the code points the text denotes", True, sample=True)
    cats: dict[str, list[str]] = {}
    for cat, msg in bad:
        cats.setdefault(cat, []).append(msg)
    for cat, msgs in sorted(cats.items()):
        sig = f"literal texts: {cat}"
        check.oblige("LITERAL-TEXTS", cons, sig, False, sample=True, finding=Finding("LITERAL-TEXTS", cons, sig, f"{sig}: e.g. {msgs[0]} ({len(msgs)} of {n} model texts)", {"witness": msgs[0]}))
    return not bad


def run(tier: str) -> Check:
    check = Check("C12", tier, EXPLANATION)
    check.rules = ["BUILTIN-TABLE", "RANGE", "CASE", "CONST-PARITY", "PATTERN-FRAGMENT", "MERGE", "ESCAPE-TABLE", "CURSOR", "UNESCAPE-ONCE", "LITERAL-TOKENS", "LITERAL-TEXTS", "TERM-SEM"]
    check.assumptions = [
        "the regex engine's own Unicode tables (\\p{...}) and its handling of escaped characters inside classes are trusted",
        "pest's built-in definitions are frozen in the checker from the pest book ('Built-in rules')",
        "case-insensitive matching of non-ASCII input is outside the property",
    ]
    repo = Repo()
    builtin_tables(check, repo)
    range_and_case(check, repo, tier)
    gencheck.constant_parity(check, repo)
    pattern_fragments(check, repo)
    merge_arithmetic(check, repo, tier)
    from .c10 import META, escape_tables

    dec_ok = escape_tables(check, repo, pestlang.read_pest(repo.read(META), META))
    # the symbolic cursor analysis knows index arithmetic only (not, say, a regex-based decoder): a second opinion
    # behind DECODE, which has decided the decoder on its model texts
    check.second_opinion(lambda c: cursor(c, repo), "DECODE", dec_ok)
    # grammar text -> scanner -> token parser -> terminal, on the literal cases (sa/frontsem.py) decides "delimiters
    # removed once, escapes decoded once"; which of scanner and parser does the decoding is the code's own business,
    # so the token-level reading and the census of unescape calls are second opinions behind it
    lit_ok = literal_texts(check, repo, tier)
    check.second_opinion(lambda c: unescape_once(c, repo), "LITERAL-TEXTS", lit_ok)
    check.second_opinion(lambda c: literal_tokens(c, repo), "LITERAL-TEXTS", lit_ok)
    check.floor("literal_text_points", 30)
    check.floor("terminal_model_points", 700)
    check.floor("decoder_model_texts", 500)
    check.floor("builtin_entries", 11)
    check.floor("pattern_fragments", 8)
    check.floor("compiled_constant_pairs", 1)  # a vacuity guard: classes that share one compile site are a legitimate restructuring
    return check
