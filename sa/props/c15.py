"""C15 — parsers are isolated, reusable and re-entrant."""

from __future__ import annotations

from .. import shared
from ..core import Check, Finding
from ..repo import Repo
from .opsprop import fill

EXPLANATION = (
    "'The result depends only on grammar, optimizer setting, start rule, input and start position' holds iff no "
    "other mutable input is reachable. Decided over the whole library: every mutation site (attribute store, "
    "subscript store, del, augmented assignment, mutating method call) is enumerated and its receiver classified "
    "by mypy type; writes to per-call objects (ParserState, Stack, SnapshottingInt, Builder, Scanner, token parser, "
    "locals) are harmless; any write to a module- or class-level object, or to a long-lived Parser / Rule / "
    "Expression / Optimizer object outside its own constructor, is a violation unless it matches a named "
    "single-field exemption whose premise is machine-checked on every run (idempotent lazy cache under an "
    "`is None` guard; debug log never read; receiver freshly allocated at every call site; built-in rule objects "
    "excluded before the optimizer's in-place store). Plus allocation-site facts: a fresh ParserState and pair "
    "list per parse() call, all per-parse fields initialised per instance, no class-level field on ParserState, "
    "no mutable default argument, no Parser field written by parse()/generate(); and the generated module keeps "
    "all mutable state in locals of parse() (MODULE-ENTRY, closures hold constants and a RuleFrame)."
)


def run(tier: str) -> Check:
    check = Check("C15", tier, EXPLANATION)
    check.rules = ["SHARED-WRITE", "ALLOC", "CLASS-MUTABLE", "CACHE-ALIAS", "DELEGATE", "MODULE-ENTRY"]
    check.assumptions = [
        "thread schedules are covered only through 'no shared mutable write exists'; atomicity of the benign cache writes is assumed (idempotent)",
        "objects reachable only from locals of a call are per-call (allocation-site abstraction, flow- and context-insensitive)",
    ]
    repo, _ = fill(check, tier)
    shared.analyse(check, repo)
    shared.allocation_sites(check, repo)
    shared.class_level_mutables(check, repo)
    from .. import cachealias

    cachealias.run(check, repo)  # who may reach what a memoised function keeps
    # the optimizer as a whole, evaluated on model grammars: nothing that was handed in is rewritten (sa/optsem.py)
    from ..optsem import check_pipeline

    n, bad = check_pipeline(repo, "src/pest/grammar/optimizer.py::Optimizer.optimize")
    check.count("pipeline_model_grammars", n)
    inplace = sorted({c for c, _ in bad if "in place" in c})
    witness = next((m for c, m in bad if "in place" in c), "")
    check.oblige("SHARED-WRITE", "src/pest/grammar/optimizer.py::Optimizer.optimize", f"on all {n} model grammars neither the caller's Rule objects nor the built-ins are rewritten" if not inplace else inplace[0], not inplace,
                 finding=Finding("SHARED-WRITE", "src/pest/grammar/optimizer.py::Optimizer.optimize", inplace[0] if inplace else "", f"{inplace[0] if inplace else ''}: {witness}", {}))
    # generated module: per-call state
    from .. import modcheck, ops

    mods = modcheck.module_skeletons(repo, ops.modifier_masks(repo))
    for label, sk, ents in mods[:2]:
        modcheck.check_module(check, label, sk, ents, repo)
    check.floor("mutation_sites", 150)
    check.floor("long_lived_write_candidates", 2)  # a vacuity guard, not a census
    check.floor("module_level_mutables", 8)
    return check
