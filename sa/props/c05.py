"""C05 — stack operations and their undoing."""

from __future__ import annotations

import ast

from ..core import Check, Finding
from .opsprop import fill

EXPLANATION = (
    "Both siblings of the seven stack operations are path-enumerated for entry stacks of 0, 1 and 2 (thorough: 3) "
    "symbolic entries; ParserState/Stack helper methods are inlined from the repository's source. Per path: the "
    "entries matched, their order (top to bottom for *_ALL, bottom to top for PEEK[a..b]), the stack after "
    "success, the advance by exactly the matched entries, no raise on any entry stack, no implicit trivia; "
    "PUSH(e) pushes input[start:pos] with start saved at entry, only on success. 'Undone on backtracking' follows "
    "from R1/R2 on every backtracking operator (no attempt from, and no success exit in, a state that still holds "
    "a failed attempt's effects) together with component coverage of ParserState.checkpoint/ok/restore: each of "
    "pos, user_stack, rule_stack, atomic_depth is snapshotted, dropped and restored."
)

STATE_REL = "src/pest/state.py"


def component_coverage(check: Check, repo) -> None:
    """checkpoint/ok/restore must each touch every backtrackable component."""
    want = {"user_stack", "rule_stack", "atomic_depth", "pos"}
    ops = {
        "checkpoint": {"user_stack": "snapshot", "rule_stack": "snapshot", "atomic_depth": "snapshot", "pos": "save"},
        "ok": {"user_stack": "drop_snapshot", "rule_stack": "drop_snapshot", "atomic_depth": "drop", "pos": "discard"},
        "restore": {"user_stack": "restore", "rule_stack": "restore", "atomic_depth": "restore", "pos": "reinstate"},
    }
    for meth, table in ops.items():
        fn = repo.func(STATE_REL, f"ParserState.{meth}")
        construct = f"{STATE_REL}::ParserState.{meth}"
        got: dict[str, str] = {}
        for n in ast.walk(fn):
            if isinstance(n, ast.Call) and isinstance(n.func, ast.Attribute):
                recv = n.func.value
                if isinstance(recv, ast.Attribute) and isinstance(recv.value, ast.Name) and recv.value.id == "self":
                    if recv.attr in want:
                        got[recv.attr] = n.func.attr
                    if recv.attr == "_pos_history":
                        if n.func.attr == "append" and n.args and ast.unparse(n.args[0]) == "self.pos":
                            got["pos"] = "save"
                        elif n.func.attr == "pop":
                            got.setdefault("pos", "discard")
            if isinstance(n, ast.Assign) and ast.unparse(n.targets[0]) == "self.pos" and ast.unparse(n.value) == "self._pos_history.pop()":
                got["pos"] = "reinstate"
        for comp, op in table.items():
            ok = got.get(comp) == op
            what = f"{meth}() applies '{op}' to {comp}" if ok else f"{meth}() does not apply '{op}' to {comp} (found {got.get(comp)!r})"
            sig = what if ok else f"{meth}() does not apply '{op}' to {comp}"
            check.oblige("COVER", construct, sig, ok, finding=Finding("COVER", construct, sig, what, {"found": got}))
        check.count("coverage_components", len(table))


def run(tier: str) -> Check:
    check = Check("C05", tier, EXPLANATION)
    check.rules = ["TERM", "RAISE", "R1", "R2", "COVER", "K2"]
    check.assumptions = [
        "Stack.snapshot/restore/drop_snapshot return the snapshot's contents (C09: the delta encoding is outside static reach)",
        "a failed terminal may leave position/stack dirty: every caller propagates the failure or restores (R2)",
    ]
    repo, _ = fill(check, tier, floors={"parse_paths": 100, "skeleton_paths": 100})
    component_coverage(check, repo)
    check.floor("coverage_components", 12)
    return check
