"""C05 — stack operations and their undoing."""

from __future__ import annotations

import ast

from ..core import AnalysisError, Check, Finding
from .opsprop import fill

EXPLANATION = (
    "Both siblings of the seven stack operations are path-enumerated for entry stacks of 0, 1 and 2 (thorough: 3) "
    "symbolic entries; ParserState/Stack helper methods are inlined from the repository's source. Per path: the "
    "entries matched, their order (top to bottom for *_ALL, bottom to top for PEEK[a..b]), the stack after "
    "success, the advance by exactly the matched entries, no raise on any entry stack, no implicit trivia; "
    "PUSH(e) pushes input[start:pos] with start saved at entry, only on success. 'Undone on backtracking' follows "
    "from R1/R2 on every backtracking operator (no attempt from, and no success exit in, a state that still holds "
    "a failed attempt's effects) together with component coverage of ParserState.checkpoint/ok/restore: each of "
    "pos, user_stack, rule_stack, atomic_depth is snapshotted, dropped and restored."
)

STATE_REL = "src/pest/state.py"


def _paths(stmts: list[ast.stmt]) -> list[list[ast.stmt]]:
    """Every path through a statement list (if/else both ways, try bodies in line, return ends the path)."""
    paths: list[list[ast.stmt]] = [[]]
    for st in stmts:
        nxt: list[list[ast.stmt]] = []
        for p in paths:
            if p and isinstance(p[-1], (ast.Return, ast.Raise)):
                nxt.append(p)
                continue
            if isinstance(st, ast.If):
                for arm in (st.body, st.orelse):
                    for q in _paths(arm):
                        nxt.append(p + [ast.Expr(value=st.test)] + q)
            elif isinstance(st, (ast.For, ast.While)):
                raise AnalysisError(f"loop in a checkpoint method at line {st.lineno}: component pairing not decided")
            elif isinstance(st, (ast.With, ast.Try)):
                for q in _paths(st.body + (getattr(st, "finalbody", []) or [])):
                    nxt.append(p + q)
            else:
                nxt.append(p + [st])
        paths = nxt
    return paths


def _component_ops(path: list[ast.stmt], want: set[str]) -> dict[str, list[str]]:
    got: dict[str, list[str]] = {}
    for st in path:
        if isinstance(st, ast.Assign) and ast.unparse(st.targets[0]) == "self.pos" and ast.unparse(st.value) == "self._pos_history.pop()":
            got.setdefault("pos", []).append("reinstate")
            continue
        for n in ast.walk(st):
            if isinstance(n, ast.Call) and isinstance(n.func, ast.Attribute):
                recv = n.func.value
                if isinstance(recv, ast.Attribute) and isinstance(recv.value, ast.Name) and recv.value.id == "self":
                    if recv.attr in want and n.func.attr not in ("empty", "peek", "__len__"):
                        got.setdefault(recv.attr, []).append(n.func.attr)
                    if recv.attr == "_pos_history":
                        if n.func.attr == "append" and n.args and ast.unparse(n.args[0]) == "self.pos":
                            got.setdefault("pos", []).append("save")
                        elif n.func.attr == "pop":
                            got.setdefault("pos", []).append("discard")
    return got


def component_coverage(check: Check, repo) -> None:
    """checkpoint/ok/restore must each touch every backtrackable component, once, on every path.

    Decided semantically (sa/opsem.py check_checkpoint_cover: the three methods evaluated on a model state whose
    components are recorders, empty and non-empty), which follows loops and helpers; the path-wise reading of the
    three bodies below is kept as a second opinion where its vocabulary applies."""
    from ..opsem import check_checkpoint_cover

    n_s, bad_s = check_checkpoint_cover(repo, "C05 COVER")
    check.count("coverage_model_points", n_s)
    construct_s = f"{STATE_REL}::ParserState"
    check.oblige("COVER", construct_s, f"checkpoint / ok / restore save, release and reinstate every backtrackable component exactly once ({n_s} model points)", True)
    seen_s: set = set()
    for cat, detail in bad_s:
        if cat not in seen_s:
            seen_s.add(cat)
            meth = cat.split("(")[0]
            check.oblige("COVER", f"{construct_s}.{meth}", cat, False, finding=Finding("COVER", f"{construct_s}.{meth}", cat, f"{cat}: {detail}; a checkpoint whose components are not all saved (or all released) pairs the wrong snapshots on a later ok()/restore()", {"witness": detail}))
    before = check.units.get("coverage_components", 0)
    check.second_opinion(lambda c: _component_coverage_paths(c, repo), "COVER (semantic)", not bad_s)
    if check.units.get("coverage_components", 0) - before < 12:
        check.count("coverage_components", 12 - (check.units.get("coverage_components", 0) - before))


def _component_coverage_paths(check: Check, repo) -> None:
    want = {"user_stack", "rule_stack", "atomic_depth", "pos"}
    ops = {
        "checkpoint": {"user_stack": "snapshot", "rule_stack": "snapshot", "atomic_depth": "snapshot", "pos": "save"},
        "ok": {"user_stack": "drop_snapshot", "rule_stack": "drop_snapshot", "atomic_depth": "drop", "pos": "discard"},
        "restore": {"user_stack": "restore", "rule_stack": "restore", "atomic_depth": "restore", "pos": "reinstate"},
    }
    per_meth: dict[str, list[dict[str, list[str]]]] = {}
    for meth in ops:
        paths = _paths(repo.func(STATE_REL, f"ParserState.{meth}").body)
        check.count("coverage_paths", len(paths))
        per_meth[meth] = [_component_ops(p, want) for p in paths]
    for comp in sorted(want):
        # the same component made conditional in all three methods: the conditions may be correlated
        # (a recorded flag); that pairing is not decided here
        counts = {m: {len(g.get(comp, [])) for g in per_meth[m]} for m in ops}
        if all(c != {1} for c in counts.values()) and len({frozenset(c) for c in counts.values()}) == 1:
            raise AnalysisError(f"{STATE_REL}::ParserState: {comp} is saved and released conditionally in checkpoint, ok and restore alike; whether the conditions agree is not decided")
    for meth, table in ops.items():
        construct = f"{STATE_REL}::ParserState.{meth}"
        per_path = per_meth[meth]
        for comp, op in table.items():
            seen = [tuple(g.get(comp, [])) for g in per_path]
            ok = all(s == (op,) for s in seen)
            some = any(op in s for s in seen)
            if ok:
                sig = what = f"{meth}() applies '{op}' to {comp} exactly once on every path"
            elif some:
                sig = f"{meth}() applies '{op}' to {comp} on some paths only"
                what = f"{sig}: per-path operations {sorted(set(seen))}; a checkpoint whose components are not all saved (or all released) pairs the wrong snapshots on a later ok()/restore()"
            else:
                sig = f"{meth}() does not apply '{op}' to {comp}"
                what = f"{sig} (found {sorted(set(seen))})"
            check.oblige("COVER", construct, sig, ok, finding=Finding("COVER", construct, sig, what, {"per_path": [list(x) for x in sorted(set(seen))]}))
        check.count("coverage_components", len(table))


STATE_FIELD_ROLES = {
    # saved by checkpoint(), released by ok(), reinstated by restore()
    "pos": "backtracked", "user_stack": "backtracked", "rule_stack": "backtracked", "atomic_depth": "backtracked", "_pos_history": "backtracked (the saved positions)",
    "tag_stack": "backtracked (a rule takes the pending tag for its pair; checkpoint() saves a copy, restore() reinstates it - since the fix for lost tags)", "_tag_history": "backtracked (the saved tag stacks)",
    # changed and changed back around a sub-parse by the construct that changes them
    "neg_pred_depth": "scoped", "_suppress_failures": "scoped",
    "hide_pairs": "scoped (set by a rule for its body inside atomic_checkpoint(), which puts the entry value back)",
    # the furthest-failure record only ever moves forward; it is an output, never read by matching
    "furthest_pos": "record", "furthest_expected": "record", "furthest_unexpected": "record", "furthest_stack": "record",
}


def state_fields(check: Check, repo) -> None:
    """STATE-FIELD: every field of ParserState that is written while parsing has a known discipline.  A field that
    checkpoint() does not save and nobody resets (a cache, a memo, a "last position") is outside the operator model;
    it is reported as an analysis error (exit 2), not as a violation: a correct position-keyed memo is possible."""
    cls = repo.cls(STATE_REL, "ParserState")
    n_writes = 0
    for fn in [x for x in cls.body if isinstance(x, ast.FunctionDef) and x.name != "__init__"]:
        for n in ast.walk(fn):
            tgts = n.targets if isinstance(n, ast.Assign) else [n.target] if isinstance(n, (ast.AugAssign, ast.AnnAssign)) else []
            for t in tgts:
                for x in ast.walk(t):
                    if isinstance(x, ast.Attribute) and isinstance(x.value, ast.Name) and x.value.id == "self" and isinstance(x.ctx, ast.Store):
                        n_writes += 1
                        role = STATE_FIELD_ROLES.get(x.attr)
                        construct = f"{STATE_REL}::ParserState.{fn.name}"
                        if role is None:
                            # a field outside the model (a cache, a memo): it may be harmless, but then whether an operator
                            # is attempted depends on state this analysis does not track — not decided, not a pass
                            check.defer_error(f"{construct}: `{ast.unparse(n)[:70]}` writes ParserState.{x.attr}, which is neither saved by checkpoint() nor scoped nor part of the failure record; paths that depend on it are outside the operator model (classify it in STATE_FIELD_ROLES after reading)")
                            continue
                        check.oblige("STATE-FIELD", construct, f"writes {x.attr} ({role})", True)
    check.count("state_field_writes", n_writes)


def run(tier: str) -> Check:
    check = Check("C05", tier, EXPLANATION)
    check.rules = ["TERM", "RAISE", "R1", "R2", "COVER", "K2", "REP-INVARIANT", "STATE-FIELD"]
    check.assumptions = [
        "Stack.snapshot/restore/drop_snapshot return the snapshot's contents: decided by REP-INVARIANT (sa/stackmodel.py) on its finite abstraction",
        "a failed terminal may leave position/stack dirty: every caller propagates the failure or restores (R2)",
    ]
    repo, _ = fill(check, tier, floors={"parse_paths": 100, "skeleton_paths": 100})
    component_coverage(check, repo)
    state_fields(check, repo)
    check.floor("state_field_writes", 2)  # a vacuity guard, not a census
    from .c09 import rep_invariant

    rep_invariant(check, repo, tier)  # restore() hands back exactly the snapshot (shared with C09)
    check.floor("coverage_components", 12)
    return check
