"""C08 — meaning-preserving grammar rewrites."""

from __future__ import annotations

from ..core import Check
from .opsprop import fill

EXPLANATION = (
    "The six rewrites (redundant parentheses, re-association, extraction into a silent rule, e -> (e|e), "
    "((e ~ NEVER)|e), ((!e ~ NEVER)|e)) are invisible exactly when abandoned attempts and lookaheads leave no "
    "trace and grouping / silent-rule frames are transparent. Decided per abstract path of both siblings: R1/R2 "
    "(every failed alternative, optional, iteration and both predicate outcomes are rewound to a checkpoint taken "
    "before the attempt), K2 (no pair of an abandoned attempt reaches a result; predicates contribute none), "
    "ordered attempt sequence of Choice, Group = transparent child inside an optional tag context, silent Rule = "
    "frame push/pop + splice, tag discipline (R7, TAGS), and shape-insensitivity (no isinstance test on a child's "
    "class influences pairs or state) which is what makes adding parentheses / extracting a rule safe."
)


def run(tier: str) -> Check:
    check = Check("C08", tier, EXPLANATION)
    check.rules = ["R1", "R2", "K2", "SPEC-attempt", "SPEC-result", "SPEC-live", "SHAPE", "R7", "TAGS", "RULE-PAIR", "MASK-AXES", "REWRITE"]
    check.assumptions = [
        "the behaviour on the bundled grammars is claimed through the operator induction, not analysed per grammar",
        "whether an optimizer pass applies to the rewritten shape is C02's subject",
    ]
    repo, _ = fill(check, tier, floors={"parse_paths": 100, "rule_paths": 200})
    from ..masks import apply as mask_axes

    mask_axes(check, repo, "MASK-AXES", 5)  # a floor against vacuity, not a census: consolidating duplicated tests is a legitimate edit
    # the property itself on model rule tables: every rewrite of the marked site, interpreted and generated
    from .. import ops
    from ..core import Finding
    from ..rewritesem import check_rewrites

    con = "src/pest/state.py::ParserState.checkpoint/ok/restore + src/pest/grammar/rule.py::Rule.parse/generate"
    n, bad = check_rewrites(repo, "C08 REWRITE", ops.modifier_masks(repo), tier == "thorough")
    check.count("rewrite_model_points", n)
    check.oblige("REWRITE", con, f"on {n} (model table, rewrite) points the rewritten grammar gives the result of the original, interpreted and generated", True, sample=True)
    cats: dict[str, list[str]] = {}
    for cat, msg in bad:
        cats.setdefault(cat, []).append(msg)
    for cat, msgs in sorted(cats.items()):
        check.oblige("REWRITE", con, cat, False, sample=True, finding=Finding("REWRITE", con, cat, f"{cat}: e.g. {msgs[0]} ({len(msgs)} of {n} points)", {"witness": msgs[0], "more": msgs[1:3]}))
    check.floor("rewrite_model_points", 400)
    return check
