"""C04 — implicit WHITESPACE/COMMENT and atomicity modifiers."""

from __future__ import annotations

from ..core import Check, Finding
from .opsprop import fill

EXPLANATION = (
    "Trivia placement and atomicity are decided on every abstract path of both siblings (interpreter parse() and "
    "generated-code skeleton) of Sequence and the repetition operators: the retained trace must have implicit "
    "trivia exactly where the operator specification table has it (between sequence elements, between iterations "
    "of e*, given back before a failing iteration; bounded repetitions are their unrolled sequences — for "
    "operators that delegate to an expression built in __init__, that expression is normalised symbolically and "
    "compared with the unrolled form). ParserState.parse_trivia and every generate_parse_trivia variant are "
    "analysed as operators (each WHITESPACE/COMMENT attempt bracketed, no consumption when atomic_depth > 0, "
    "maximal munch, failures suppressed). Rule.parse and the Rule skeletons are checked for all 8 modifier masks x "
    "{WHITESPACE, COMMENT, other}: atomic depth +1 / zero / untouched around the body and restored on every exit; "
    "no isinstance test on the class of a child may influence pairs or state; stack terminals contain no trivia."
)


def run(tier: str) -> Check:
    check = Check("C04", tier, EXPLANATION)
    check.rules = ["SPEC-live(T)", "K2(trivia)", "TRIVIA", "RULE-ATOM", "ATOM", "SHAPE", "TERM(no trivia)", "UNROLLED", "R1", "R2", "NAME-COLLISION", "STATE-FIELD", "GEN-DIFF"]
    check.assumptions = [
        "trivia rules do not use the user stack",
        "which pairs pest hides under @ in every nesting needs the dynamic atomicity of the callee: only the shape-insensitivity necessary condition is decided",
        "consumption by the trivia rules themselves is covered by the operator induction, not separately",
    ]
    repo, _ = fill(check, tier, floors={"trivia_paths": 10, "rule_paths": 200, "trivia_skeleton_variants": 5, "skeleton_paths": 100})
    from ..triviasem import check_trivia

    construct = "src/pest/state.py::ParserState.parse_trivia"
    n, bad = check_trivia(repo, construct)
    check.count("trivia_model_scenarios", n)
    check.oblige("TRIVIA", construct, f"on all {n} scripted scenarios the rules are consulted on every call, in pest's order, suppressed, rewound and without junk pairs" if not bad else f"{len(bad)} findings on {n} scenarios (per category below)", True, sample=True)
    cats: dict[str, list[str]] = {}
    for cat, msg in bad:
        cats.setdefault(cat, []).append(msg)
    for cat, msgs in sorted(cats.items()):
        sig = f"parse_trivia: {cat}"
        check.oblige("TRIVIA", construct, sig, False, sample=True, finding=Finding("TRIVIA", construct, sig, f"{sig}: e.g. {msgs[0]} ({len(msgs)} of {n} scenarios)", {"witness": msgs[0]}))
    check.floor("trivia_model_scenarios", 100)
    # the generated sibling: generate_parse_trivia() / generate_rule() are decided by the path analysis above on five
    # rule-table configurations; the model tables of GEN-DIFF that define trivia rules (a table without any @ / $ rule
    # included) run the emitted closures against Rule.parse and decide where trivia is matched and what it leaves
    from .. import ops
    from ..gensem import check_gen

    gcon = "src/pest/grammar/codegen/generate.py::generate_parse_trivia/generate_rule"
    n_g, bad_g = check_gen(repo, "C04 GEN-DIFF", ops.modifier_masks(repo), tier == "thorough", select=lambda desc, spec: "WHITESPACE" in spec or "COMMENT" in spec)
    check.count("gen_diff_trivia_tables", n_g)
    check.oblige("GEN-DIFF", gcon, f"Rule.parse and the generated closures agree on {n_g} model rule tables with trivia rules", True, sample=True)
    cats_g: dict[str, list[str]] = {}
    for cat, msg in bad_g:
        cats_g.setdefault(cat, []).append(msg)
    for cat, msgs in sorted(cats_g.items()):
        check.oblige("GEN-DIFF", gcon, cat, False, sample=True, finding=Finding("GEN-DIFF", gcon, cat, f"{cat}: e.g. {msgs[0]} ({len(msgs)} of {n_g} model tables with trivia rules)", {"witness": msgs[0], "more": msgs[1:3]}))
    check.floor("gen_diff_trivia_tables", 100)
    from .c05 import state_fields

    state_fields(check, repo)  # whether trivia is matched at a position must not depend on abandoned attempts
    from .. import gencheck

    gencheck.skip_namespace(check, repo)
    return check
