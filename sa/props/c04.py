"""C04 — implicit WHITESPACE/COMMENT and atomicity modifiers."""

from __future__ import annotations

from ..core import Check, Finding
from .opsprop import fill

EXPLANATION = (
    "Trivia placement and atomicity are decided on every abstract path of both siblings (interpreter parse() and "
    "generated-code skeleton) of Sequence and the repetition operators: the retained trace must have implicit "
    "trivia exactly where the operator specification table has it (between sequence elements, between iterations "
    "of e*, given back before a failing iteration; bounded repetitions are their unrolled sequences — for "
    "operators that delegate to an expression built in __init__, that expression is normalised symbolically and "
    "compared with the unrolled form). ParserState.parse_trivia and every generate_parse_trivia variant are "
    "analysed as operators (each WHITESPACE/COMMENT attempt bracketed, no consumption when atomic_depth > 0, "
    "maximal munch, failures suppressed). Rule.parse and the Rule skeletons are checked for all 8 modifier masks x "
    "{WHITESPACE, COMMENT, other}: atomic depth +1 / zero / untouched around the body and restored on every exit; "
    "no isinstance test on the class of a child may influence pairs or state; stack terminals contain no trivia."
)


def run(tier: str) -> Check:
    check = Check("C04", tier, EXPLANATION)
    check.rules = ["SPEC-live(T)", "K2(trivia)", "TRIVIA", "RULE-ATOM", "ATOM", "SHAPE", "TERM(no trivia)", "UNROLLED", "R1", "R2", "NAME-COLLISION", "STATE-FIELD"]
    check.assumptions = [
        "trivia rules do not use the user stack",
        "which pairs pest hides under @ in every nesting needs the dynamic atomicity of the callee: only the shape-insensitivity necessary condition is decided",
        "consumption by the trivia rules themselves is covered by the operator induction, not separately",
    ]
    repo, _ = fill(check, tier, floors={"trivia_paths": 30, "rule_paths": 200, "trivia_skeleton_variants": 5, "skeleton_paths": 100})
    from ..triviasem import check_trivia

    construct = "src/pest/state.py::ParserState.parse_trivia"
    n, bad = check_trivia(repo, construct)
    check.count("trivia_model_scenarios", n)
    check.oblige("TRIVIA", construct, f"on all {n} scripted scenarios the rules are consulted on every call, in pest's order, suppressed, rewound and without junk pairs" if not bad else f"{len(bad)} findings on {n} scenarios (per category below)", True, sample=True)
    cats: dict[str, list[str]] = {}
    for cat, msg in bad:
        cats.setdefault(cat, []).append(msg)
    for cat, msgs in sorted(cats.items()):
        sig = f"parse_trivia: {cat}"
        check.oblige("TRIVIA", construct, sig, False, sample=True, finding=Finding("TRIVIA", construct, sig, f"{sig}: e.g. {msgs[0]} ({len(msgs)} of {n} scenarios)", {"witness": msgs[0]}))
    check.floor("trivia_model_scenarios", 100)
    from .c05 import state_fields

    state_fields(check, repo)  # whether trivia is matched at a position must not depend on abandoned attempts
    from .. import gencheck

    gencheck.skip_namespace(check, repo)
    return check
