"""C16 — parsing from start_pos equals parsing the suffix, shifted."""

from __future__ import annotations

import ast
import re

from ..core import AnalysisError, Check, Finding
from ..repo import qualname_of
from ..typed import Types
from .opsprop import fill

EXPLANATION = (
    "Shift invariance holds, modulo the semantics of str/regex primitives, iff every input access is "
    "position-relative, every position write is relative or restores a saved position, no pattern can look behind "
    "or anchor to the start of the string, the position is seeded from start_pos, failures record absolute offsets, "
    "and nothing but SOI compares the position with an absolute offset. Decided by: (1) the path-sensitive engine — "
    "on every abstract path of every operator and template each advance must be justified by a successful match of "
    "exactly that literal / a regex match / a bounds check at the same position, each assignment to state.pos must "
    "be a saved position, a match end, a find result or len(input) (POS), and position/constant comparisons are "
    "collected (ABSPOS); (2) a whole-program enumeration of every read of the input string in the matching code "
    "and in every template line against the closed list of allowed forms; (3) a scan of every string fragment that "
    "can flow into re.compile in the matching code for anchors and look-behind; (4) seeding facts; (5) a "
    "type-driven search for `x or default` on int | None positions that some caller actually supplies."
)

MATCH_FILES_PREFIX = ("src/pest/grammar/expressions/", "src/pest/grammar/rules/", "src/pest/grammar/expression.py", "src/pest/grammar/rule.py", "src/pest/state.py")
FORBIDDEN = [
    (r"(?<!\\)(?:\\\\)*\\[AZbBG]", "anchor escape (\\A \\Z \\b \\B \\G)"),
    (r"\(\?<[=!]", "look-behind"),
    (r"(?<![\\\[])\$", "end anchor $"),
]


def input_accesses(check: Check, repo) -> None:
    for rel in repo.py_files:
        if not rel.startswith(MATCH_FILES_PREFIX):
            continue
        m = repo.mod(rel)
        aliases: dict[str, set[str]] = {}
        for n in ast.walk(m.tree):
            if isinstance(n, ast.Assign) and isinstance(n.value, ast.Attribute) and n.value.attr == "input" and isinstance(n.targets[0], ast.Name):
                aliases.setdefault(qualname_of(m, n), set()).add(n.targets[0].id)
        for n in ast.walk(m.tree):
            is_inp = isinstance(n, ast.Attribute) and n.attr == "input" and isinstance(n.value, ast.Name) and n.value.id in ("state", "self") and isinstance(n.ctx, ast.Load)
            q = qualname_of(m, n) if isinstance(n, (ast.Attribute, ast.Name)) else ""
            is_alias = isinstance(n, ast.Name) and isinstance(n.ctx, ast.Load) and n.id in aliases.get(q, set())
            if not (is_inp or is_alias):
                continue
            if is_inp and n.value.id == "self" and not q.startswith("ParserState"):
                continue
            parent = m.parents.get(n)
            form = classify_access(n, parent, m)
            check.count("input_accesses")
            ok = form is not None
            construct = f"{rel}::{q}"
            txt = ast.unparse(parent)[:70] if parent is not None else ast.unparse(n)
            check.oblige("INPUT-ACCESS", construct, f"input read as {form}" if ok else f"input read in a form outside the position-relative list: {txt}", ok,
                         finding=Finding("INPUT-ACCESS", construct, f"input read in a form outside the position-relative list: {txt}", f"{q}: `{txt}` reads the input other than through startswith(x, pos) / pattern.match(input, pos) / find(x, pos) / input[a:b] / len(input) / Pair(input, ...)", {}))


def classify_access(n: ast.AST, parent: ast.AST | None, m) -> str | None:  # noqa: PLR0911
    if parent is None:
        return None
    if isinstance(parent, ast.Attribute) and parent.value is n:
        call = m.parents.get(parent)
        if isinstance(call, ast.Call) and call.func is parent:
            if parent.attr == "startswith" and len(call.args) == 2:
                return "startswith(x, pos)"
            if parent.attr == "find" and len(call.args) >= 2:
                return "find(x, pos)"
        return None
    if isinstance(parent, ast.Call):
        f = ast.unparse(parent.func)
        if f == "len" and parent.args and parent.args[0] is n:
            return "len(input)"
        if f.endswith(".match") and len(parent.args) == 2 and parent.args[0] is n:
            return "pattern.match(input, pos)"
        if f == "Pair":
            return "Pair(input, ...)"
        if f in ("error_context",):
            return "error rendering"
        return None
    if isinstance(parent, ast.keyword):
        call = m.parents.get(parent)
        if isinstance(call, ast.Call) and ast.unparse(call.func) == "Pair":
            return "Pair(input_=input, ...)"
        return None
    if isinstance(parent, ast.Subscript) and parent.value is n and isinstance(parent.slice, ast.Slice) and parent.slice.lower is not None:
        return "input[a:b]" if parent.slice.upper is not None else "input[pos:]"
    if isinstance(parent, ast.Assign) and parent.value is n and isinstance(parent.targets[0], ast.Name):
        return "alias"
    return None


def _template_access_forms(tree: ast.AST) -> list[tuple[str, str | None]]:
    """(source text, form or None) for every use of the input string in emitted code - read on the syntax tree, so
    that an equivalent spelling (an end bound on find, an alias, a different temporary) is the same form."""
    parents: dict[ast.AST, ast.AST] = {}
    for p_ in ast.walk(tree):
        for c in ast.iter_child_nodes(p_):
            parents[c] = p_
    aliases = {n.targets[0].id for n in ast.walk(tree) if isinstance(n, ast.Assign) and len(n.targets) == 1 and isinstance(n.targets[0], ast.Name) and ast.unparse(n.value) == "state.input"}

    def is_input(e: ast.AST) -> bool:
        return ast.unparse(e) == "state.input" or (isinstance(e, ast.Name) and e.id in aliases and isinstance(e.ctx, ast.Load))

    out: list[tuple[str, str | None]] = []
    for n in ast.walk(tree):
        if not is_input(n):
            continue
        par = parents.get(n)
        if isinstance(n, ast.Attribute) and isinstance(par, ast.Attribute):
            pass
        form: str | None = None
        if isinstance(par, ast.Attribute) and par.value is n:
            call = parents.get(par)
            if isinstance(call, ast.Call) and call.func is par:
                if par.attr == "startswith" and len(call.args) == 2:
                    form = "startswith(x, pos)"
                elif par.attr in ("find", "rfind") and len(call.args) >= 2:
                    form = "find(x, pos[, end])"
            out.append((ast.unparse(call if isinstance(call, ast.Call) else par), form))
            continue
        if isinstance(par, ast.Call) and n in par.args:
            f = ast.unparse(par.func)
            if f == "len":
                form = "len(input)"
            elif f.endswith((".match", ".fullmatch", ".search")) and len(par.args) >= 2 and par.args[0] is n:
                form = "pattern.match(input, pos)"
            elif f == "Pair":
                form = "Pair(input, ...)"
            out.append((ast.unparse(par), form))
            continue
        if isinstance(par, ast.Subscript) and par.value is n:
            if isinstance(par.slice, ast.Slice) and par.slice.lower is not None:
                form = "input[a:b]"
            out.append((ast.unparse(par), form))
            continue
        if isinstance(par, ast.Assign) and par.value is n:
            out.append((ast.unparse(par), "alias"))
            continue
        if isinstance(par, ast.keyword):
            out.append((ast.unparse(parents.get(par, par)), "Pair(input_=input, ...)" if ast.unparse(getattr(parents.get(par), "func", par)) == "Pair" else None))
            continue
        out.append((ast.unparse(par) if par is not None else ast.unparse(n), None))
    return out


def template_accesses(check: Check, rep) -> None:
    import textwrap

    seen = set()
    for _label, sk in rep.skeleton_sources:
        if "state.input" not in sk.source:
            continue
        try:
            tree = ast.parse(textwrap.dedent(sk.source))
        except SyntaxError:
            continue  # C01 SYNTAX
        for text, form in _template_access_forms(tree):
            key = (sk.construct, text)
            if key in seen:
                continue
            seen.add(key)
            check.count("template_input_lines")
            ok = form is not None
            check.oblige("INPUT-ACCESS", sk.construct, f"emitted code reads the input position-relatively ({form})" if ok else f"emitted code reads the input outside the position-relative forms: {text[:70]}", ok,
                         finding=Finding("INPUT-ACCESS", sk.construct, f"emitted code reads the input outside the position-relative forms: {text[:70]}", f"{sk.construct.split('::')[-1]} emits `{text}`", {}))


def pattern_fragments(check: Check, repo) -> None:
    """String constants that can reach re.compile in the matching code."""
    targets = [
        ("src/pest/grammar/expressions/terminals.py", None), ("src/pest/grammar/expressions/choice.py", None),
        ("src/pest/grammar/expression.py", "RegexExpression"), ("src/pest/grammar/rules/unicode.py", "_make_registry"),
    ]
    for rel, only in targets:
        m = repo.mod(rel)
        for n in ast.walk(m.tree):
            if not (isinstance(n, ast.Constant) and isinstance(n.value, str)):
                continue
            q = qualname_of(m, n)
            if only and not q.startswith(only):
                continue
            # only constants inside functions that build or compile patterns
            if not any(k in q for k in ("_pattern", "build_optimized_pattern", "_optimize_char_class", "__init__", "generate", "_make_registry", "pattern")):
                continue
            par = m.parents.get(n)
            if isinstance(par, ast.Expr):
                continue  # docstring
            in_pattern_ctx = False
            p = n
            for _ in range(6):
                p = m.parents.get(p)
                if p is None:
                    break
                if isinstance(p, ast.Call) and ast.unparse(p.func) in ("re.compile", "UnicodePropertyRule", "parts.append", "parts_out.append", "insensitive_parts.append", "gen.constant"):
                    in_pattern_ctx = True
                if isinstance(p, ast.Return) and any(k in q for k in ("_pattern", "build_optimized_pattern", "_optimize_char_class")):
                    in_pattern_ctx = True
                if isinstance(p, ast.Assign) and ast.unparse(p.targets[0]) in ("pattern",):
                    in_pattern_ctx = True
            if not in_pattern_ctx:
                continue
            check.count("pattern_fragments")
            bad = [why for rx, why in FORBIDDEN if re.search(rx, n.value)]
            if re.search(r"(?<![\\\[])\^", n.value) and not n.value.startswith("[^"):
                bad.append("start anchor ^")
            construct = f"{rel}::{q}"
            check.oblige("PATTERN-FRAGMENT", construct, f"fragment {n.value!r} cannot look behind or anchor" if not bad else f"pattern fragment {n.value!r} contains {bad}", not bad,
                         finding=Finding("PATTERN-FRAGMENT", construct, f"pattern fragment {n.value!r} contains {bad}", f"{q}: a pattern built from {n.value!r} can consult characters before the match position or the absolute string boundaries", {}))
    # the only non-constant parts are re.escape(...) of grammar values or registry constants
    for rel, fn in (("src/pest/grammar/expressions/choice.py", "build_optimized_pattern"), ("src/pest/grammar/expressions/choice.py", "_optimize_char_class")):
        f = repo.func(rel, fn)
        for n in ast.walk(f):
            if isinstance(n, ast.Call) and isinstance(n.func, ast.Attribute) and n.func.attr in ("append", "extend") and ast.unparse(n.func.value) in ("multi_sensitive", "insensitive_parts", "parts_out"):
                ok = _safe_part(n.args[0], frozenset()) or _escaped_on_the_way_out(f, ast.unparse(n.func.value))
                check.count("pattern_dynamic_parts")
                check.oblige("PATTERN-FRAGMENT", f"{rel}::{fn}", "grammar-derived text reaches the pattern only through re.escape" if ok else f"grammar-derived text reaches the pattern unescaped: {ast.unparse(n)[:60]}", ok)


def _letter_guards(test: ast.expr) -> frozenset:
    """Names the test establishes to be ASCII letters (x.isascii() and x.isalpha() as conjuncts)."""
    conj = test.values if isinstance(test, ast.BoolOp) and isinstance(test.op, ast.And) else [test]
    calls: dict[str, set] = {}
    for c in conj:
        if isinstance(c, ast.Call) and isinstance(c.func, ast.Attribute) and isinstance(c.func.value, ast.Name) and not c.args:
            calls.setdefault(c.func.value.id, set()).add(c.func.attr)
    return frozenset(n for n, m in calls.items() if {"isascii", "isalpha"} <= m)


def _safe_part(e: ast.expr, letters: frozenset) -> bool:
    """A piece of pattern text is harmless if it is a constant, re.escape(...) of anything, or - under a guard that
    makes the value an ASCII letter - the value itself or its case mapping (letters need no escaping, inside or
    outside a class)."""
    if isinstance(e, ast.Constant) and isinstance(e.value, str):
        return True
    if isinstance(e, ast.Call) and ast.unparse(e.func) in ("re.escape", "regex.escape"):
        return True
    if isinstance(e, ast.Name) and e.id in letters:
        return True
    if isinstance(e, ast.Call) and isinstance(e.func, ast.Attribute) and e.func.attr in ("lower", "upper") and isinstance(e.func.value, ast.Name) and e.func.value.id in letters and not e.args:
        return True
    if isinstance(e, ast.JoinedStr):
        return all(_safe_part(v.value, letters) for v in e.values if isinstance(v, ast.FormattedValue))
    if isinstance(e, ast.IfExp):
        return _safe_part(e.body, letters | _letter_guards(e.test)) and _safe_part(e.orelse, letters)
    if isinstance(e, ast.Call) and isinstance(e.func, ast.Attribute) and e.func.attr == "join" and isinstance(e.func.value, ast.Constant) and len(e.args) == 1 and isinstance(e.args[0], (ast.GeneratorExp, ast.ListComp)):
        return _safe_part(e.args[0].elt, letters)
    return False


def _escaped_on_the_way_out(fn: ast.FunctionDef, lst: str) -> bool:
    """Raw text collected in a list is harmless if the list reaches the pattern only element by element through
    re.escape (``parts.extend(re.escape(v) for v in lst)``): every read of the list other than growing, ordering
    or testing it is the iterable of a comprehension whose element is a safe part of the loop variable."""
    parents: dict = {}
    for p in ast.walk(fn):
        for c in ast.iter_child_nodes(p):
            parents[c] = p
    reads = 0
    for n in ast.walk(fn):
        if not (isinstance(n, ast.Name) and n.id == lst and isinstance(n.ctx, ast.Load)):
            continue
        par = parents.get(n)
        if isinstance(par, ast.Attribute) and par.attr in ("append", "extend", "sort", "reverse", "clear"):
            continue
        if isinstance(par, (ast.If, ast.While)) and par.test is n or isinstance(par, ast.UnaryOp) and isinstance(par.op, ast.Not):
            continue
        if isinstance(par, ast.comprehension) and par.iter is n and isinstance(par.target, ast.Name):
            comp = parents.get(par)
            elt = getattr(comp, "elt", None)
            if elt is not None and isinstance(elt, ast.Call) and ast.unparse(elt.func) in ("re.escape", "regex.escape") and len(elt.args) == 1 and isinstance(elt.args[0], ast.Name) and elt.args[0].id == par.target.id:
                reads += 1
                continue
        return False
    return reads > 0


def seeding(check: Check, repo) -> None:
    """The offset handed to the entry point is the one the cursor starts from — decided on
    the binding of every ParserState(...) call to the constructor's parameters (roles, not
    text: a reordered signature with every caller updated passes, a caller left behind fails)."""
    from ..binding import field_sources, role_of
    from .. import modcheck, ops

    init = repo.func("src/pest/state.py", "ParserState.__init__")
    fs = field_sources(init)
    ok = "pos" in fs and "input" in fs
    check.oblige("SEED", "src/pest/state.py::ParserState.__init__", "pos and input are seeded from constructor parameters" if ok else "ParserState.__init__ does not seed pos / input from its parameters", ok)
    if not ok:
        return
    default = None
    a = init.args
    pos_params = a.posonlyargs + a.args
    for p, d in list(zip(pos_params[len(pos_params) - len(a.defaults):], a.defaults)) + [(p, d) for p, d in zip(a.kwonlyargs, a.kw_defaults) if d is not None]:
        if p.arg == fs["pos"]:
            default = ast.unparse(d)
    ok = default in (None, "0")
    check.oblige("SEED", "src/pest/state.py::ParserState.__init__", "the start offset defaults to 0" if ok else f"the start offset defaults to {default}", ok)

    def entry(construct: str, fn: ast.FunctionDef) -> None:
        calls = [n for n in ast.walk(fn) if isinstance(n, ast.Call) and ast.unparse(n.func) == "ParserState"]
        params = [x.arg for x in fn.args.args + fn.args.kwonlyargs]
        if not calls or "start_pos" not in params or "text" not in params:
            raise AnalysisError(f"anchor vanished: {construct} has no ParserState(...) call or no (text, start_pos) parameters")
        for c in calls:
            got_pos = role_of(c, init, "pos", construct)
            got_inp = role_of(c, init, "input", construct)
            ok = got_pos == "start_pos" and got_inp == "text"
            what = "the entry point's (text, start_pos) seed the state's input and cursor" if ok else f"`{ast.unparse(c)}` seeds the cursor from {got_pos or 'the default'} and the input from {got_inp or 'the default'}, not from (start_pos, text)"
            check.oblige("SEED", construct, what if ok else "the entry point's start_pos / text do not seed the state's cursor / input", ok,
                         finding=None if ok else Finding("SEED", construct, "the entry point's start_pos / text do not seed the state's cursor / input", f"{construct.split('::')[-1]}: {what}"))
            check.count("seed_facts")

    entry("src/pest/parser.py::Parser.parse", repo.func("src/pest/parser.py", "Parser.parse"))
    masks = ops.modifier_masks(repo)
    n = 0
    for label, sk, _ in modcheck.module_skeletons(repo, masks):
        try:
            tree = ast.parse(sk.source)
        except SyntaxError:
            continue  # C01 SYNTAX
        for fn in tree.body:
            if isinstance(fn, ast.FunctionDef) and fn.name == "parse":
                entry("src/pest/grammar/codegen/generate.py::generate_parse_entry_point", fn)
                n += 1
    if not n:
        raise AnalysisError("anchor vanished: no generated module skeleton has a parse() entry point")
    # fail() records the absolute offset of the cursor: decided on the model histories of C13's FAIL rule (the state's
    # position varied; the recorded position must be the greatest a recorded failure had), whatever fail() looks like
    from ..failsem import check_fail

    n_f, bad_f = check_fail(repo, "C16 SEED")
    pos_bad = [b for b in bad_f if "position" in b[0] or "raises" in b[0]]
    check.count("fail_model_histories", n_f)
    ok = not pos_bad
    what = f"fail() records the absolute offset of the cursor on all {n_f} model histories" if ok else "fail() does not record the cursor's absolute offset"
    check.oblige("SEED", "src/pest/state.py::ParserState.fail", what, ok, finding=None if ok else Finding("SEED", "src/pest/state.py::ParserState.fail", what, f"{what}: {pos_bad[0][0]}: {pos_bad[0][1]}", {"witness": pos_bad[0][1]}))
    check.count("seed_facts", 2)


def or_default(check: Check, repo, rep) -> None:
    from ..truthy import apply, apply_find_sentinel

    scope = lambda rel: rel.startswith(MATCH_FILES_PREFIX) or rel in ("src/pest/parser.py", "src/pest/state.py", "src/pest/stack.py", "src/pest/pairs.py")  # noqa: E731
    apply(check, repo, rep, "OR-DEFAULT", scope)
    # a hit at absolute offset 0 is an ordinary search result (only -1 means "not found")
    apply_find_sentinel(check, repo, rep, "FIND-SENTINEL", scope)
    check.floor("search_result_functions", 1)


POSITION_FIELDS = ("pos", "furthest_pos")


def absolute_constants(check: Check, repo) -> None:
    """ABS-CONST: no position field is assigned a literal offset (only the -1 'nothing recorded' sentinel)."""
    n_sites = 0
    for rel in repo.py_files:
        if "/codegen/" in rel and not rel.endswith("generate.py"):
            continue
        m = repo.mod(rel)
        for n in ast.walk(m.tree):
            if not isinstance(n, (ast.Assign, ast.AnnAssign)):
                continue
            tgts = n.targets if isinstance(n, ast.Assign) else [n.target]
            val = n.value
            if val is None:
                continue
            for t in tgts:
                if not (isinstance(t, ast.Attribute) and t.attr in POSITION_FIELDS):
                    continue
                recv = ast.unparse(t.value)
                if recv == "self" and not (rel.endswith("state.py")):
                    # `self.pos` of the grammar scanner / token parser / Stream: positions in other texts
                    continue
                n_sites += 1
                is_const = isinstance(val, ast.Constant) and isinstance(val.value, int) and not isinstance(val.value, bool)
                neg = isinstance(val, ast.UnaryOp) and isinstance(val.op, ast.USub) and isinstance(val.operand, ast.Constant)
                ok = not is_const or neg
                q = qualname_of(m, n)
                construct = f"{rel}::{q}"
                sig = f"{t.attr} is assigned a literal offset"
                check.oblige("ABS-CONST", construct, f"`{ast.unparse(n)[:60]}`: not a literal offset" if ok else sig, ok,
                             finding=Finding("ABS-CONST", construct, sig, f"{q}: `{ast.unparse(n)}` is an absolute offset; parsing text at start_pos=k would report it where parsing text[k:] at 0 reports k less", {}))
    check.count("position_field_writes", n_sites)


def run(tier: str) -> Check:
    check = Check("C16", tier, EXPLANATION)
    check.rules = ["FIND-SENTINEL", "POS", "ABSPOS", "INPUT-ACCESS", "PATTERN-FRAGMENT", "SEED", "OR-DEFAULT", "ABS-CONST"]
    check.assumptions = [
        "str.startswith(x, pos), str.find(x, pos) and pattern.match(s, pos) do not consult characters before pos (match() with a pos argument treats ^ as matching at the real start only, hence the anchor scan)",
        "grammars using SOI are outside the property",
    ]
    repo, rep = fill(check, tier, floors={"parse_paths": 120, "skeleton_paths": 120})
    input_accesses(check, repo)
    template_accesses(check, rep)
    pattern_fragments(check, repo)
    seeding(check, repo)
    or_default(check, repo, rep)
    absolute_constants(check, repo)
    check.floor("position_field_writes", 5)
    check.floor("input_accesses", 12)
    check.floor("template_input_lines", 10)
    check.floor("pattern_fragments", 8)
    return check
