"""C11 — loading a grammar is total: a Parser or a renderable PestGrammarError."""

from __future__ import annotations

import ast

from ..core import AnalysisError, Check, Finding
from ..escape_props import arity_rule, escape_engine, no_fixed_point_default, run_entry
from ..repo import Repo, qualname_of

EXPLANATION = (
    "Exception-escape analysis over the resolved call graph (callees through mypy receiver types, virtual calls fan "
    "out to every override, address-taken functions — scanner state functions, optimizer passes — are callable): from "
    "Parser.from_grammar through the scanner, token parser, unescape, Expression constructors, Parser.__init__, "
    "Optimizer.optimize and every default pass, every explicit raise, assert and implicit-raise site (subscripts, "
    "list.pop, int/chr/ord, re.compile of non-constants, max/min, unpacking, str.encode, division) must be an "
    "allowed PestGrammarError, be handled on the chain, be discharged by a guard idiom (short-circuit and dominance "
    "aware) or by the machine-checked with_children arity rule, or be listed SAFE with a reason in the frozen triage "
    "table. From PestGrammarError.__str__ the allowed set is empty. Error tokens must carry a start in [0, len]."
)

ENTRY = "src/pest/parser.py::Parser.from_grammar"
RENDER = ["src/pest/grammar/exceptions.py::PestGrammarError.__str__", "src/pest/grammar/tokens.py::Token.__str__", "src/pest/grammar/tokens.py::Token.position"]


def token_starts(check: Check, repo: Repo) -> None:
    """Every Token constructed in the front end has a start that exists in the text."""
    for rel in ("src/pest/grammar/scanner.py", "src/pest/grammar/parser.py"):
        m = repo.mod(rel)
        for n in ast.walk(m.tree):
            if isinstance(n, ast.Call) and ast.unparse(n.func) == "Token" and len(n.args) >= 3:
                start = n.args[2]
                txt = ast.unparse(start)
                neg = (isinstance(start, ast.UnaryOp) and isinstance(start.op, ast.USub)) or (isinstance(start, ast.Constant) and isinstance(start.value, int) and start.value < 0)
                ok = not neg and (txt in ("self.start", "self.pos", "len(grammar)", "0") or txt.startswith("len("))
                check.count("token_constructions")
                check.oblige("TOKEN-START", f"{rel}::Token(...)", f"Token start {txt} lies in [0, len(grammar)]" if ok else f"Token start {txt} is not a position of the text", ok,
                             finding=Finding("TOKEN-START", f"{rel}::Token(...)", f"Token start {txt} is not a position of the text", f"a Token is constructed with start={txt}; errors reported for it point at a line/column that does not exist", {}))


def graph_recursion(check: Check, repo: Repo) -> None:
    """A recursion that follows rule references walks a graph with cycles: it needs a visited set."""
    n_inst = 0
    for rel in repo.py_files:
        if not rel.startswith("src/pest/grammar/"):
            continue
        m = repo.mod(rel)
        for fn in [x for x in ast.walk(m.tree) if isinstance(x, ast.FunctionDef)]:
            derefs = []
            for x in ast.walk(fn):
                if isinstance(x, ast.Subscript) and isinstance(x.value, ast.Name) and x.value.id == "rules" and isinstance(x.ctx, ast.Load):
                    derefs.append(x)
                if isinstance(x, ast.Call) and isinstance(x.func, ast.Attribute) and x.func.attr == "get" and isinstance(x.func.value, ast.Name) and x.func.value.id == "rules":
                    derefs.append(x)
            if not derefs:
                continue
            rule_vars = set()
            for x in ast.walk(fn):
                if isinstance(x, ast.Assign) and isinstance(x.targets[0], ast.Name) and any(d is y for d in derefs for y in ast.walk(x.value)):
                    rule_vars.add(x.targets[0].id)
            rec = []
            for c in ast.walk(fn):
                if not isinstance(c, ast.Call):
                    continue
                is_self = (isinstance(c.func, ast.Name) and c.func.id == fn.name) or (isinstance(c.func, ast.Attribute) and c.func.attr == fn.name)
                if not is_self:
                    continue
                through = any((isinstance(y, ast.Name) and y.id in rule_vars) or any(y is d for d in derefs) for y in ast.walk(c))
                if through:
                    rec.append(c)
            if not rec:
                continue
            n_inst += 1
            params = {a.arg for a in fn.args.args + fn.args.kwonlyargs}
            guard_names = set()
            for x in ast.walk(fn):
                if isinstance(x, ast.Compare) and len(x.ops) == 1 and isinstance(x.ops[0], (ast.In, ast.NotIn)):
                    for y in ast.walk(x.comparators[0]):
                        if isinstance(y, ast.Name) and y.id in params:
                            guard_names.add(y.id)
            ok = bool(guard_names) and all(any(isinstance(y, ast.Name) and y.id in guard_names for a in list(c.args) + [k.value for k in c.keywords] for y in ast.walk(a)) for c in rec)
            q = qualname_of(m, fn.body[0])
            construct = f"{rel}::{q}"
            sig = "recursion through rule references carries no visited set: a self-referential rule recurses without bound"
            check.oblige("GRAPH-RECURSION", construct, f"recursion through rule references is cut by the visited set {sorted(guard_names)}" if ok else sig, ok,
                         finding=Finding("GRAPH-RECURSION", construct, sig, f"{q} looks a rule up by name and calls itself on the rule's body without remembering the rules it has entered; `b = {{ b | \"x\" }}` recurses until RecursionError", {}))
    check.count("rule_graph_recursions", n_inst)


def _parse_int_on_model(repo: Repo) -> tuple[bool, str] | None:
    from .. import tokparse
    from ..ordabs import ModelRaise, Unsupported

    try:
        cm = tokparse.program(repo, "C11 NUM-BOUND")
        kind = tokparse.K("NUMBER")
        bad = []
        for text in ("0", "7", "65535", "2147483647", "2147483648", "4294967295", "4294967296", "99999999999999999999", "9" * 5000, "-1", "-2147483648", "-2147483649", "-99999999999999999999"):
            tok = cm.new("Token", kind, text, 0, "x" * 40)
            parser = cm.new("Parser", [tok], {})
            try:
                v = cm.call(parser, "parse_int", tok)
            except ModelRaise as err:
                if "PestGrammar" not in str(err):
                    bad.append(f"{text[:24]}: raises {err}")
                continue
            if not isinstance(v, int) or not -(2**32) <= v <= 2**32:
                bad.append(f"{text[:24]}: returns {str(v)[:24]}")
        return (not bad, "numbers beyond u32 / i32 end in a grammar error" if not bad else "; ".join(bad[:3]))
    except (AnalysisError, Unsupported, AttributeError, KeyError, TypeError):
        return None


def number_bounds(check: Check, repo: Repo) -> None:
    """Numbers read from the grammar text are range-checked where they are converted."""
    rel = "src/pest/grammar/parser.py"
    m = repo.mod(rel)
    fn = repo.func(rel, "Parser.parse_int")
    construct = f"{rel}::Parser.parse_int"
    # who-may-convert: int(...) of token text happens only in parse_int
    for c in ast.walk(m.tree):
        if isinstance(c, ast.Call) and isinstance(c.func, ast.Name) and c.func.id == "int":
            q = qualname_of(m, c)
            ok = q == "Parser.parse_int"
            check.count("int_conversions")
            check.oblige("NUM-BOUND", f"{rel}::{q}", "token text is converted by parse_int" if ok else "token text is converted to int outside parse_int (unbounded)", ok,
                         finding=Finding("NUM-BOUND", f"{rel}::{q}", "token text is converted to int outside parse_int (unbounded)", f"{q}: `{ast.unparse(c)}` bypasses the range check; a count such as 99999999999999999999 later raises OverflowError", {}))
    from ..repo import const_eval

    rets = [r for r in ast.walk(fn) if isinstance(r, ast.Return) and r.value is not None]
    bounded = False
    lo = hi = None
    for x in ast.walk(fn):
        if isinstance(x, ast.If) and any(isinstance(y, ast.Raise) for y in x.body):
            consts = []
            for y in ast.walk(x.test):
                if isinstance(y, (ast.Constant, ast.BinOp, ast.UnaryOp)):
                    try:
                        v = const_eval(y, {})
                    except Exception:  # noqa: BLE001
                        continue
                    if isinstance(v, int) and not isinstance(v, bool):
                        consts.append(v)
            names = {y.id for y in ast.walk(x.test) if isinstance(y, ast.Name)}
            ret_names = {y.id for r in rets for y in ast.walk(r.value) if isinstance(y, ast.Name)}
            if consts and names & ret_names:
                lo, hi = min(consts), max(consts)
                bounded = hi <= 2**32 and lo >= -(2**32) and (lo < 0 or len(consts) == 1 or True)
                exc = " ".join(ast.unparse(y.exc) for y in x.body if isinstance(y, ast.Raise) and y.exc is not None)
                bounded = bounded and "PestGrammar" in exc
    direct = any(isinstance(r.value, ast.Call) and isinstance(r.value.func, ast.Name) and r.value.func.id == "int" for r in rets)
    ok = bounded and not direct
    # decided on the model: parse_int on number tokens around pest's u32 / i32 bounds and far beyond returns a number
    # within them or ends in a grammar error (the reading of the range test above is a second opinion behind it)
    sem = _parse_int_on_model(repo)
    if sem is not None:
        if sem[0] and not ok:
            check.notes.append(f"NUM-BOUND: the range test is not written the way the structural reading expects; decided on the model: {sem[1]}")
        ok, lo, hi = sem[0], -(2**31), 2**32 - 1
    sig = "parse_int returns numbers of any magnitude"
    check.oblige("NUM-BOUND", construct, f"parse_int rejects numbers outside [{lo}, {hi}] with a grammar error" if ok else sig, ok,
                 finding=Finding("NUM-BOUND", construct, sig, "parse_int does not bound the value it returns: `\"x\"{99999999999999999999}` reaches itertools.repeat / list multiplication and OverflowError escapes from Parser.from_grammar (pest: u32 / i32)", {}))


def run(tier: str) -> Check:
    check = Check("C11", tier, EXPLANATION)
    check.rules = ["ESCAPE", "ESCAPE-RENDER", "ARITY", "TRIAGE-PREMISE", "TOKEN-START", "LINE-OFFSET", "GRAPH-RECURSION", "NUM-BOUND", "DECODE-TOTAL", "CONTEXT", "TERMINATION"]
    repo = Repo()
    esc = escape_engine(repo)
    check.assumptions = [
        "termination of the scanner's state loop is not decided",
        "RecursionError is modelled as a possible raise at every function on a call-graph cycle reachable from the entry; MemoryError (a count such as {4000000000} is legal pest) is outside the analysis",
        "mypy receiver types " + ("available" if esc.types.available else "UNAVAILABLE: name-based receiver fallback in use"),
        "SAFE entries of the triage table are trusted as long as the site itself persists; their reasons are recorded in the evidence",
    ]
    discharged = arity_rule(check, repo)
    no_fixed_point_default(check, repo)
    roots = esc.module_level_callables("src/pest/grammar/optimizer.py")
    if len(roots) < 5:
        raise AnalysisError(f"anchor vanished: optimizer pass table (found {roots})")
    total, bad = run_entry(check, repo, ENTRY, {"PestGrammarError"}, "ESCAPE", extra_roots=roots, discharged_funcs=discharged, recursion=True, roots_at="src/pest/grammar/optimizer.py::Optimizer.optimize")
    check.count("escaping_sites_examined", total)
    for r in RENDER:
        t2, _ = run_entry(check, repo, r, set(), "ESCAPE-RENDER")
        check.count("escaping_sites_examined", t2)
    token_starts(check, repo)
    # the escape decoder evaluated on its model texts (sa/unescsem.py): every malformed escape ends in a grammar error
    from .. import pestlang
    from .c10 import META, escape_tables

    escape_tables(check, repo, pestlang.read_pest(repo.read(META), META), rule="DECODE-TOTAL", only="another exception")
    # "terminates": the inliner on tables of silent aliases, cycles included (sa/squashsem.py) - the other passes walk a
    # finite tree once; this one follows references
    from ..squashsem import check_inline_silent

    n_i, bad_i = check_inline_silent(repo, "C11 TERMINATION")
    icon = "src/pest/grammar/optimizers/inliners.py::inline_silent_rules"
    check.count("inline_model_references", n_i)
    check.oblige("TERMINATION", icon, "the inliner comes back on every model table of silent aliases (chains, self reference, cycles of two and three)", True)
    for cat, msg in bad_i:
        if "does not come back" in cat:
            check.oblige("TERMINATION", icon, cat, False, finding=Finding("TERMINATION", icon, cat, f"{cat}: {msg}; Parser.from_grammar never returns for such a grammar", {"witness": msg}))
            break
    graph_recursion(check, repo)
    number_bounds(check, repo)
    check.oblige("ESCAPE", ENTRY, "RecursionError, possible at every function on a call-graph cycle, is converted on the chain (no such site escapes)", True)
    # "points at a line and column that exist in the text": decided on the order-and-adjacency abstraction (sa/linesem.py)
    from ..linesem import check_grammar_error_context

    n_c, bad_c = check_grammar_error_context(repo, "src/pest/grammar/exceptions.py::PestGrammarError._error_context", tier == "thorough")
    check.count("context_model_points", n_c)
    ccon = "src/pest/grammar/exceptions.py::PestGrammarError._error_context"
    check.oblige("CONTEXT", ccon, f"the reported line and column are those of the token start on all {n_c} model (text, offset) points", True, sample=True)
    cats_c: dict[str, list[str]] = {}
    for cat, msg in bad_c:
        cats_c.setdefault(cat, []).append(msg)
    for cat, msgs in sorted(cats_c.items()):
        check.oblige("CONTEXT", ccon, cat, False, sample=True, finding=Finding("CONTEXT", ccon, cat, f"_error_context: {cat}: e.g. {msgs[0]} ({len(msgs)} of {n_c} model points)", {"witness": msgs[0]}))
    check.floor("context_model_points", 500)
    from ..lineoff import apply as line_offsets

    check.second_opinion(lambda c: line_offsets(c, repo, "LINE-OFFSET", ["src/pest/grammar/exceptions.py"], 1), "CONTEXT", not bad_c)
    check.floor("reachable_functions", 50)  # a vacuity guard, not a census
    check.floor("may_raise_sites", 30)
    check.floor("with_children_arity", 20)
    check.floor("token_constructions", 4)
    check.floor("functions_on_call_cycles", 10)
    check.floor("rule_graph_recursions", 2)
    check.floor("int_conversions", 1)
    return check
