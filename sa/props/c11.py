"""C11 — loading a grammar is total: a Parser or a renderable PestGrammarError."""

from __future__ import annotations

import ast

from ..core import AnalysisError, Check, Finding
from ..escape_props import arity_rule, escape_engine, no_fixed_point_default, run_entry
from ..repo import Repo

EXPLANATION = (
    "Exception-escape analysis over the resolved call graph (callees through mypy receiver types, virtual calls fan "
    "out to every override, address-taken functions — scanner state functions, optimizer passes — are callable): from "
    "Parser.from_grammar through the scanner, token parser, unescape, Expression constructors, Parser.__init__, "
    "Optimizer.optimize and every default pass, every explicit raise, assert and implicit-raise site (subscripts, "
    "list.pop, int/chr/ord, re.compile of non-constants, max/min, unpacking, str.encode, division) must be an "
    "allowed PestGrammarError, be handled on the chain, be discharged by a guard idiom (short-circuit and dominance "
    "aware) or by the machine-checked with_children arity rule, or be listed SAFE with a reason in the frozen triage "
    "table. From PestGrammarError.__str__ the allowed set is empty. Error tokens must carry a start in [0, len]."
)

ENTRY = "src/pest/parser.py::Parser.from_grammar"
RENDER = ["src/pest/grammar/exceptions.py::PestGrammarError.__str__", "src/pest/grammar/tokens.py::Token.__str__", "src/pest/grammar/tokens.py::Token.position"]


def token_starts(check: Check, repo: Repo) -> None:
    """Every Token constructed in the front end has a start that exists in the text."""
    for rel in ("src/pest/grammar/scanner.py", "src/pest/grammar/parser.py"):
        m = repo.mod(rel)
        for n in ast.walk(m.tree):
            if isinstance(n, ast.Call) and ast.unparse(n.func) == "Token" and len(n.args) >= 3:
                start = n.args[2]
                txt = ast.unparse(start)
                neg = (isinstance(start, ast.UnaryOp) and isinstance(start.op, ast.USub)) or (isinstance(start, ast.Constant) and isinstance(start.value, int) and start.value < 0)
                ok = not neg and (txt in ("self.start", "self.pos", "len(grammar)", "0") or txt.startswith("len("))
                check.count("token_constructions")
                check.oblige("TOKEN-START", f"{rel}::Token(...)", f"Token start {txt} lies in [0, len(grammar)]" if ok else f"Token start {txt} is not a position of the text", ok,
                             finding=Finding("TOKEN-START", f"{rel}::Token(...)", f"Token start {txt} is not a position of the text", f"a Token is constructed with start={txt}; errors reported for it point at a line/column that does not exist", {}))


def run(tier: str) -> Check:
    check = Check("C11", tier, EXPLANATION)
    check.rules = ["ESCAPE", "ESCAPE-RENDER", "ARITY", "TRIAGE-PREMISE", "TOKEN-START"]
    repo = Repo()
    esc = escape_engine(repo)
    check.assumptions = [
        "termination of the scanner's state loop is not decided",
        "MemoryError / RecursionError are outside the analysis (property bounds nesting)",
        "mypy receiver types " + ("available" if esc.types.available else "UNAVAILABLE: name-based receiver fallback in use"),
        "SAFE entries of the triage table are trusted as long as the site itself persists; their reasons are recorded in the evidence",
    ]
    discharged = arity_rule(check, repo)
    no_fixed_point_default(check, repo)
    roots = esc.module_level_callables("src/pest/grammar/optimizer.py")
    if len(roots) < 5:
        raise AnalysisError(f"anchor vanished: optimizer pass table (found {roots})")
    total, bad = run_entry(check, repo, ENTRY, {"PestGrammarError"}, "ESCAPE", extra_roots=roots, discharged_funcs=discharged)
    check.count("escaping_sites_examined", total)
    for r in RENDER:
        t2, _ = run_entry(check, repo, r, set(), "ESCAPE-RENDER")
        check.count("escaping_sites_examined", t2)
    token_starts(check, repo)
    check.floor("reachable_functions", 100)
    check.floor("may_raise_sites", 30)
    check.floor("with_children_arity", 20)
    check.floor("token_constructions", 4)
    return check
