"""C13 — parse failures carry a valid position and a message that always renders."""

from __future__ import annotations

import ast

from ..core import AnalysisError, Check, Finding
from ..repo import qualname_of
from ..escape_props import run_entry
from .opsprop import fill

STATE_REL = "src/pest/state.py"
EXC_REL = "src/pest/exceptions.py"

EXPLANATION = (
    "Position: furthest_pos is only written in ParserState.__init__ (-1) and ParserState.fail, where it is taken "
    "from the pos parameter that defaults to self.pos; no call site in the library or in any template passes an "
    "explicit pos (enumerated); with the position-write discipline of C16 (every write to state.pos is a justified "
    "advance or a saved position) this gives start_pos <= p <= len(input) or the sentinel. Names: the keys of "
    "furthest_expected/unexpected flow only from rule_stack[-1].name or an explicit rule_name that is an "
    "Identifier.value / Rule.name / None. Labels are never None on any abstract path (FAILLABEL). Rendering: "
    "exception-escape analysis from PestParsingError.__init__, __str__, detailed_message, expected, "
    "expected_labels, join_with_limit and error_context with an empty allowed set. Rule-frame, neg_pred_depth and "
    "failure-suppression bookkeeping is restored on every exit of every operator (FRAMES, NEG, SUPPRESS)."
)

RENDER = [
    f"{EXC_REL}::PestParsingError.__init__", f"{EXC_REL}::PestParsingError.__str__", f"{EXC_REL}::PestParsingError.detailed_message",
    f"{EXC_REL}::PestParsingError.expected", f"{EXC_REL}::PestParsingError.expected_labels", f"{EXC_REL}::join_with_limit", f"{EXC_REL}::error_context",
]


_FAMILY: dict[int, set[str]] = {}


def _fail_family(repo) -> set[str]:
    """ParserState.__init__, fail, and the methods of ParserState that are referenced only from inside that family
    (helpers fail() was split into): whoever writes the record there writes it on behalf of fail()."""
    if id(repo) in _FAMILY:
        return _FAMILY[id(repo)]
    from ..repo import qualname_of

    cls = repo.cls(STATE_REL, "ParserState")
    methods = {s.name for s in cls.body if isinstance(s, ast.FunctionDef)}
    refs: dict[str, set[str]] = {m_: set() for m_ in methods}
    for rel in repo.py_files:
        m = repo.mod(rel)
        for n in ast.walk(m.tree):
            if isinstance(n, ast.Attribute) and n.attr in methods:
                q = qualname_of(m, n)
                inside = rel == STATE_REL and q.startswith("ParserState.") and isinstance(n.value, ast.Name) and n.value.id == "self"
                refs[n.attr].add(q if inside else f"<outside {rel}::{q}>")
    fam = {"ParserState.__init__", "ParserState.fail"}
    changed = True
    while changed:
        changed = False
        for m_ in methods:
            q = f"ParserState.{m_}"
            if q not in fam and m_.startswith("_") and refs[m_] and refs[m_] <= fam:
                fam.add(q)
                changed = True
    _FAMILY[id(repo)] = fam
    return fam


def provenance(check: Check, repo) -> None:
    # who writes the furthest-failure record
    fields = ("furthest_pos", "furthest_expected", "furthest_unexpected", "furthest_stack")
    for rel in repo.py_files:
        m = repo.mod(rel)
        for n in ast.walk(m.tree):
            tgts = n.targets if isinstance(n, ast.Assign) else [n.target] if isinstance(n, (ast.AugAssign, ast.AnnAssign)) else []
            for t in tgts:
                if isinstance(t, ast.Attribute) and t.attr in fields:
                    from ..repo import qualname_of

                    q = qualname_of(m, n)
                    ok = rel == STATE_REL and q in _fail_family(repo)
                    check.count("furthest_writes")
                    check.oblige("FURTHEST", f"{rel}::{q}", f"{t.attr} written in {q}" if ok else f"{t.attr} is written outside ParserState.__init__/fail", ok,
                                 finding=Finding("FURTHEST", f"{rel}::{q}", f"{t.attr} is written outside ParserState.__init__/fail", f"{q} assigns {ast.unparse(t)}: the furthest-failure record no longer comes from fail() alone", {}))
    # (that fail() records the defaulted position is decided on model histories by the FAIL rule, sa/failsem.py)
    # the sentinel: a fresh state reports -1 (read on the model through the state's own attribute or property)
    from ..failsem import RELS as _FAIL_RELS
    from ..objmodel import ClassModel, model_attr, new_parser_state
    from ..ordabs import ModelRaise, Obj

    cm = ClassModel(repo, _FAIL_RELS, "C13 FURTHEST", {"Generic": None}, max_steps=20000)
    try:
        first = model_attr(cm, new_parser_state(cm, "xx", 0, Obj("Parser", rules={}), "C13 FURTHEST"), "furthest_pos")
    except ModelRaise as err:
        first = f"raises {err}"
    check.oblige("FURTHEST", f"{STATE_REL}::ParserState.__init__", "sentinel -1 before any failure" if first == -1 else f"a fresh state's furthest position is {first}, not the sentinel -1", first == -1)
    # call sites of fail(): no explicit pos, rule_name provenance
    n_sites = 0
    for rel in repo.py_files:
        m = repo.mod(rel)
        for n in ast.walk(m.tree):
            if isinstance(n, ast.Call) and isinstance(n.func, ast.Attribute) and n.func.attr == "fail" and ast.unparse(n.func.value) in ("state", "self"):
                if rel == STATE_REL and ast.unparse(n.func.value) == "self":
                    continue
                n_sites += 1
                kws = {k.arg: k.value for k in n.keywords}
                ok = "pos" not in kws and len(n.args) <= 1
                check.oblige("FAIL-SITE", f"{rel}::{ast.unparse(n)[:40]}", "fail() called without an explicit pos" if ok else "fail() called with an explicit pos", ok)
            if isinstance(n, ast.Constant) and isinstance(n.value, str) and "state.fail(" in n.value:
                n_sites += 1
                ok = "pos=" not in n.value
                check.oblige("FAIL-SITE", f"{rel}::template", "template calls fail() without an explicit pos" if ok else "a template passes an explicit pos to fail()", ok)
    check.count("fail_call_sites", n_sites)


def fail_names(check: Check, repo, tier: str) -> bool:
    """FAIL-NAMES: which rule a failure is recorded under, on the program model (sa/gensem.py): a rule with a
    predicate over every kind of operand, interpreted and generated; every name in the furthest-failure record is a
    rule of the table and both siblings record the same."""
    from .. import ops
    from ..gensem import check_gen

    con = "src/pest/grammar/expressions/prefix.py::NegativePredicate.parse/generate"
    n, bad = check_gen(repo, "C13 FAIL-NAMES", ops.modifier_masks(repo), tier == "thorough", select=lambda desc, spec: desc.startswith("predicate"))
    check.count("fail_name_scenarios", n)
    mine = [(cat, d) for cat, d in bad if "records a failure under a name" in cat or "record a different furthest failure" in cat or "raise" in cat]
    check.oblige("FAIL-NAMES", con, f"on {n} model tables with predicates every failure is recorded under a rule of the grammar, the same in both siblings", True, sample=True)
    seen: set = set()
    for cat, d in mine:
        if cat not in seen:
            seen.add(cat)
            check.oblige("FAIL-NAMES", con, cat, False, sample=True, finding=Finding("FAIL-NAMES", con, cat, f"{cat}: e.g. {d}; the message then lists a name the grammar does not define, or differs between the modes", {"witness": d}))
    return not mine


def rule_name_sources(check: Check, repo) -> None:
    """Second opinion behind FAIL-NAMES: where explicit rule_name values come from, read from the call sites."""
    for rel in repo.py_files:
        m = repo.mod(rel)
        for n in ast.walk(m.tree):
            if isinstance(n, ast.Call) and isinstance(n.func, ast.Attribute) and n.func.attr == "fail" and ast.unparse(n.func.value) in ("state", "self"):
                if rel == STATE_REL and ast.unparse(n.func.value) == "self":
                    continue
                kws = {k.arg: k.value for k in n.keywords}
                if "rule_name" in kws:
                    v = kws["rule_name"]
                    okn = isinstance(v, ast.Name) or (isinstance(v, ast.Constant) and v.value in (None, ""))
                    check.oblige("FAIL-SITE", f"{rel}::{ast.unparse(n)[:40]}", "rule_name is a rule-name variable or None" if okn else "rule_name is not a rule name", okn)
    # rule_name variables in NegativePredicate come from Identifier.value / Rule.name / None
    np = repo.func("src/pest/grammar/expressions/prefix.py", "NegativePredicate.parse")
    vals = {ast.unparse(a.value) for a in ast.walk(np) if isinstance(a, ast.Assign) and ast.unparse(a.targets[0]) == "failed_rule_name"}
    if not vals:
        # the name no longer reaches fail() through an assignment this rule can read (a helper, a match): undecided,
        # not wrong
        check.defer_error("src/pest/grammar/expressions/prefix.py::NegativePredicate.parse: where the explicit rule_name of a failed predicate comes from could not be read (FAIL-SITE)")
    else:
        ok = vals <= {"self.expression.value", "self.expression.name", "None"}
        check.oblige("FAIL-SITE", "src/pest/grammar/expressions/prefix.py::NegativePredicate.parse", "explicit rule_name is Identifier.value / Rule.name / None" if ok else f"explicit rule_name has other sources {sorted(vals)}", bool(ok))


def rule_name_pairing(check: Check, repo) -> None:
    """A call site may pass the empty string for "no particular rule" (the templates do: they have no None to write
    with !r into a keyword that the interpreter side sets to None); fail() must then treat every falsy rule_name as
    absent, or '' is listed as an expected/unexpected rule."""
    empties = []
    for rel in repo.py_files:
        m = repo.mod(rel)
        for n in ast.walk(m.tree):
            if isinstance(n, ast.Assign) and isinstance(n.value, ast.Constant) and n.value.value == "" and "rule_name" in ast.unparse(n.targets[0]):
                empties.append(f"{rel}::{qualname_of(m, n)}")
            if isinstance(n, ast.Call) and isinstance(n.func, ast.Attribute) and n.func.attr == "fail":
                for k in n.keywords:
                    if k.arg == "rule_name" and isinstance(k.value, ast.Constant) and k.value.value == "":
                        empties.append(f"{rel}::{qualname_of(m, n)}")
    fail = repo.func(STATE_REL, "ParserState.fail")
    truthy = none_only = False
    for n in ast.walk(fail):
        if isinstance(n, ast.BoolOp) and isinstance(n.op, ast.Or) and isinstance(n.values[0], ast.Name) and n.values[0].id == "rule_name":
            truthy = True
        if isinstance(n, ast.If) and ast.unparse(n.test) in ("not rule_name",):
            truthy = True
        if isinstance(n, ast.Compare) and ast.unparse(n) in ("rule_name is None", "rule_name is not None"):
            none_only = True
    check.count("empty_rule_name_sources", len(empties))
    ok = not empties or (truthy and not none_only)
    sig = "fail() keeps an empty rule_name although call sites pass '' for 'no particular rule'"
    check.oblige("FAIL-SITE", f"{STATE_REL}::ParserState.fail", (f"falsy rule_name defaults to the current rule ({len(empties)} site(s) pass '')" if empties else "no call site passes an empty rule_name") if ok else sig, ok,
                 finding=Finding("FAIL-SITE", f"{STATE_REL}::ParserState.fail", sig, f"{sig}: {sorted(set(empties))[:3]}; the message then lists '' among the expected or unexpected rules", {"sites": sorted(set(empties))}))


def run(tier: str) -> Check:
    check = Check("C13", tier, EXPLANATION)
    check.rules = ["CONTEXT", "RENDER", "CACHE-ALIAS", "FURTHEST", "FAIL", "FAIL-NAMES", "FAIL-SITE", "FAILLABEL", "FAILPOS", "FRAMES", "NEG", "SUPPRESS", "FAIL-PARITY", "ESCAPE-RENDER", "LINE-OFFSET", "CASE"]
    check.assumptions = [
        "that the line/column/source line shown are those of p: only the partition premise (LINE-OFFSET) of error_context is decided, not its arithmetic",
        "start_pos <= p relies on C16's position-write discipline and on callers passing 0 <= start_pos <= len(text)",
    ]
    repo, _ = fill(check, tier, floors={"parse_paths": 120, "skeleton_paths": 120})
    provenance(check, repo)
    from .. import cachealias

    cachealias.run(check, repo, [EXC_REL, STATE_REL])  # the rendering path keeps no list that an earlier rendering can have changed
    names_ok = fail_names(check, repo, tier)
    check.second_opinion(lambda c: rule_name_sources(c, repo), "FAIL-NAMES", names_ok)
    check.second_opinion(lambda c: rule_name_pairing(c, repo), "FAIL-NAMES", names_ok)
    check.floor("fail_name_scenarios", 30)
    from ..failsem import check_fail

    construct = f"{STATE_REL}::ParserState.fail"
    n, bad = check_fail(repo, construct, tier == "thorough")
    check.count("fail_model_histories", n)
    check.oblige("FAIL", construct, f"on all {n} model histories the record is the one a reference keeps" if not bad else f"{len(bad)} of {n} model histories leave a wrong record (per category below)", True, sample=True)
    cats: dict[str, list[str]] = {}
    for cat, msg in bad:
        cats.setdefault(cat, []).append(msg)
    for cat, msgs in sorted(cats.items()):
        sig = f"fail(): {cat}"
        check.oblige("FAIL", construct, sig, False, sample=True, finding=Finding("FAIL", construct, sig, f"{sig}: e.g. {msgs[0]} ({len(msgs)} of {n} model histories)", {"witness": msgs[0]}))
    check.floor("fail_model_histories", 300)
    for r in RENDER:
        t, _ = run_entry(check, repo, r, set(), "ESCAPE-RENDER")
        check.count("escaping_sites_examined", t)
    # premise of p <= len(input): a `^"..."` literal advances by exactly what it matched (sa/termsem.py, both siblings)
    from ..termsem import check_terminals

    n_t, bad_t = check_terminals(repo, "C13 CASE", False)
    check.count("terminal_model_points", n_t)
    ci_bad = [(con, cat, msg) for con, cat, msg in bad_t if con.endswith("CIString") and "wrong position" in cat]
    check.oblige("CASE", "src/pest/grammar/expressions/terminals.py::CIString", "a case-insensitive literal advances by the length of what it matched", True)
    seen_c: set = set()
    for con, cat, msg in ci_bad:
        if cat not in seen_c:
            seen_c.add(cat)
            check.oblige("CASE", con, cat, False, finding=Finding("CASE", con, cat, f"CIString: {cat}: e.g. {msg}", {"witness": msg}))
    # "its message and str() render without raising for every input": the whole rendering path on model states
    from ..rendersem import check_render

    n_r, bad_r = check_render(repo, "C13 RENDER")
    check.count("render_model_points", n_r)
    rcon = "src/pest/exceptions.py::PestParsingError"
    check.oblige("RENDER", rcon, f"a parse failure renders without raising and shows the recorded line:column on all {n_r} model states", True, sample=True)
    cats_r: dict[str, list[str]] = {}
    for cat, msg in bad_r:
        cats_r.setdefault(cat, []).append(msg)
    for cat, msgs in sorted(cats_r.items()):
        check.oblige("RENDER", rcon, cat, False, sample=True, finding=Finding("RENDER", rcon, cat, f"PestParsingError: {cat}: e.g. {msgs[0]} ({len(msgs)} of {n_r} model states)", {"witness": msgs[0]}))
    check.floor("render_model_points", 60)
    # "the line:column and the source line shown are those of p": decided on the order-and-adjacency abstraction (sa/linesem.py)
    from ..linesem import check_error_context

    n_c, bad_c = check_error_context(repo, "src/pest/exceptions.py::error_context", tier == "thorough")
    check.count("context_model_points", n_c)
    ccon = "src/pest/exceptions.py::error_context"
    check.oblige("CONTEXT", ccon, f"line:column and source line are those of the position on all {n_c} model (text, offset) points", True, sample=True)
    cats_c: dict[str, list[str]] = {}
    for cat, msg in bad_c:
        cats_c.setdefault(cat, []).append(msg)
    for cat, msgs in sorted(cats_c.items()):
        check.oblige("CONTEXT", ccon, cat, False, sample=True, finding=Finding("CONTEXT", ccon, cat, f"error_context: {cat}: e.g. {msgs[0]} ({len(msgs)} of {n_c} model points)", {"witness": msgs[0]}))
    check.floor("context_model_points", 500)
    # LINE-OFFSET reads how the line table is built (splitlines without keepends, "+ 1" per break); CONTEXT, which has
    # LF and CRLF texts and every offset, decides what the table is used for: a second opinion
    from ..lineoff import apply as line_offsets

    check.second_opinion(lambda c: line_offsets(c, repo, "LINE-OFFSET", ["src/pest/exceptions.py"], 1), "CONTEXT", not bad_c)
    check.floor("fail_call_sites", 8)  # a vacuity guard, not a census
    if check.units.get("furthest_writes", 0) == 0:
        # the record is no longer kept in attributes called furthest_*: who writes it is not read from names; what
        # fail() records is decided by FAIL / FAIL-NAMES on the model, through the state's own attributes / properties
        check.notes.append("FURTHEST: no attribute named furthest_* is assigned anywhere; the provenance reading does not apply to this representation (FAIL decides)")
    return check
