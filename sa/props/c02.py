"""C02 — optimizer passes never change what a grammar parses (structural necessary conditions)."""

from __future__ import annotations

import ast

from .. import shared, terms
from ..core import AnalysisError, Check, Finding
from ..repo import Repo, qualname_of
from ..typed import Types
from .opsprop import fill

OPT = "src/pest/grammar/optimizer.py"
UNROLL = "src/pest/grammar/optimizers/unroller.py"
SKIP = "src/pest/grammar/optimizers/skippers.py"
SQUASH = "src/pest/grammar/optimizers/squash_choice.py"
INLINE = "src/pest/grammar/optimizers/inliners.py"
CHOICE = "src/pest/grammar/expressions/choice.py"
PASS_FILES = (UNROLL, SKIP, SQUASH, INLINE)

EXPLANATION = (
    "Structural necessary conditions of meaning preservation, decided from the source of the passes: O1 every call "
    "of a pass helper that can return None has its result tested or propagated before the accumulated rewrite is "
    "used; O2 an ordered Choice is compiled to one regex only under is_order_independent(), whose ranking of "
    "alternatives must agree with the order in which build_optimized_pattern emits them; O3 a pass that replaces "
    "implicit-trivia points (Sequence / Repeat) by a terminal (SkipUntil) is registered atomic_only and "
    "Optimizer.optimize honours that flag with a test on the rule's modifier and on the presence of WHITESPACE / "
    "COMMENT; O4 no pass mutates a node reachable from its expr argument (mutation sites in optimizers/*.py have "
    "fresh receivers only); O5 the in-place store rules[name].expression skips the shared built-ins; O6 the "
    "post-optimizer terminals SkipUntil / OptimizedChoice / RegexExpression meet the operator obligations on both "
    "siblings; O7 every arm of unroll() normalises symbolically to the unrolled form of the specification table; "
    "O8 inline_builtin keeps EOI, inline_silent_rules inlines only silent, untagged, defined references; O9 the "
    "fused SKIP rule is built only from a silent trivia rule when exactly one of WHITESPACE / COMMENT exists."
)


def returns_optional(fn: ast.FunctionDef) -> bool:
    return fn.returns is not None and "None" in ast.unparse(fn.returns) and ast.unparse(fn.returns) != "None"


def o1_unchecked(check: Check, repo: Repo) -> None:
    optional_fns: dict[str, str] = {}
    for rel in PASS_FILES + (OPT,):
        for name, fn in repo.mod(rel).functions().items():
            if returns_optional(fn):
                optional_fns[name] = rel
    if not {"squash", "_skip"} <= set(optional_fns):
        raise AnalysisError(f"anchor vanished: optional-returning helpers (found {sorted(optional_fns)})")
    for rel in PASS_FILES + (OPT,):
        m = repo.mod(rel)
        for n in ast.walk(m.tree):
            if isinstance(n, ast.Call) and isinstance(n.func, ast.Name) and n.func.id in optional_fns:
                par = m.parents.get(n)
                q = qualname_of(m, n)
                ok = True
                how = "tested or propagated"
                if isinstance(par, ast.Expr):
                    ok = False
                    how = "discarded"
                elif isinstance(par, ast.Assign):
                    var = ast.unparse(par.targets[0])
                    fn = par
                    while fn is not None and not isinstance(fn, ast.FunctionDef):
                        fn = m.parents.get(fn)
                    tested = False
                    for x in ast.walk(fn) if fn else []:
                        if isinstance(x, (ast.If, ast.IfExp, ast.BoolOp, ast.While)):
                            t = x.test if isinstance(x, (ast.If, ast.IfExp, ast.While)) else x
                            if any(isinstance(y, ast.Name) and y.id == var for y in ast.walk(t)):
                                tested = True
                    ok = tested
                    how = "assigned and tested" if ok else "assigned but never tested"
                check.count("optional_helper_call_sites")
                sig = f"result of {n.func.id}() is {how}"
                check.oblige("O1", f"{rel}::{q}", sig, ok, sample=True,
                             finding=Finding("O1", f"{rel}::{q}", f"result of {n.func.id}() is not tested", f"{q}: `{ast.unparse(par)[:70] if par is not None else ''}` — {n.func.id}() returns None when the rewrite does not apply; ignoring it continues with a partially built expression", {}))


def o2_order(check: Check, repo: Repo, tier: str = "quick") -> None:
    sc = repo.func(SQUASH, "squash_choice")
    src = ast.unparse(sc)
    ok = "is_order_independent(" in src
    guarded = False
    for n in ast.walk(sc):
        if isinstance(n, ast.If) and "is_order_independent(" in ast.unparse(n.test):
            guarded = any(isinstance(s, ast.Return) and ast.unparse(s.value) != "expr" for s in n.body)
    check.oblige("O2", f"{SQUASH}::squash_choice", "the regex form is returned only under is_order_independent()" if ok and guarded else "squash_choice returns the regex form without an order-independence test", ok and guarded, sample=True,
                 finding=Finding("O2", f"{SQUASH}::squash_choice", "squash_choice returns the regex form without an order-independence test", "build_optimized_pattern regroups alternatives by kind; pest's choice is ordered: (\"a\" | \"ab\") ~ \"b\" fails on \"ab\" once optimized", {}))
    sk = ast.unparse(repo.func(OPT, "Optimizer._optimize_skip_rule"))
    ok = "is_order_independent(expr.choices)" in sk
    check.oblige("O2", f"{OPT}::Optimizer._optimize_skip_rule", "the WHITESPACE fusion is gated by is_order_independent()" if ok else "the WHITESPACE fusion into SKIP is not gated by an order-independence test", ok)
    # sibling agreement: emission order of build_optimized_pattern == rank order of is_order_independent
    bop = repo.func(CHOICE, "build_optimized_pattern")
    emit = []
    for n in ast.walk(bop):
        if isinstance(n, ast.Call) and isinstance(n.func, ast.Attribute) and ast.unparse(n.func.value) == "parts" and n.func.attr in ("extend", "append"):
            emit.append((n.lineno, ast.unparse(n.args[0])))
    emit_order = [t for _, t in sorted(emit)]
    want_emit = ["multi_sensitive", "insensitive_parts", "unicode_props", "_optimize_char_class(char_class_parts, ranges)"]
    ok = emit_order == want_emit
    check.oblige("O2", f"{CHOICE}::build_optimized_pattern", "emission order: sensitive multi, insensitive multi, unicode classes, character class" if ok else f"build_optimized_pattern emits {emit_order}", ok)
    # the guard itself (is_order_independent) is decided end to end by O12 (sa/squashsem.py): an unsound approval shows
    # as a pattern that matches something else than the ordered choice


def o3_trivia(check: Check, repo: Repo) -> None:
    m = repo.mod(OPT)
    passes = next((n for n in m.tree.body if isinstance(n, ast.Assign) and ast.unparse(n.targets[0]) == "DEFAULT_OPTIMIZER_PASSES"), None)
    if passes is None:
        raise AnalysisError(f"anchor vanished: {OPT}::DEFAULT_OPTIMIZER_PASSES")
    steps = [c for c in ast.walk(passes.value) if isinstance(c, ast.Call) and ast.unparse(c.func) == "OptimizerStep"]
    # passes whose result replaces trivia points by a terminal
    trivia_sensitive = set()
    for rel in PASS_FILES:
        for name, fn in repo.mod(rel).functions().items():
            if any(isinstance(n, ast.Call) and ast.unparse(n.func) in ("SkipUntil", "OptimizedChoiceRepeat") for n in ast.walk(fn)):
                trivia_sensitive.add(name)
    # close over helpers: a pass calling a trivia-sensitive helper is trivia-sensitive
    changed = True
    while changed:
        changed = False
        for rel in PASS_FILES:
            for name, fn in repo.mod(rel).functions().items():
                if name not in trivia_sensitive and any(isinstance(n, ast.Call) and isinstance(n.func, ast.Name) and n.func.id in trivia_sensitive for n in ast.walk(fn)):
                    trivia_sensitive.add(name)
                    changed = True
    for st in steps:
        fname = ast.unparse(st.args[1]) if len(st.args) > 1 else ""
        atomic_only = any(k.arg == "atomic_only" and isinstance(k.value, ast.Constant) and k.value.value is True for k in st.keywords)
        check.count("default_steps")
        if fname in trivia_sensitive:
            check.oblige("O3", f"{OPT}::DEFAULT_OPTIMIZER_PASSES[{fname}]", f"{fname} replaces Sequence/Repeat by a terminal and is registered atomic_only" if atomic_only else f"{fname} replaces implicit-trivia points by a terminal but is not registered atomic_only", atomic_only, sample=True,
                         finding=Finding("O3", f"{OPT}::DEFAULT_OPTIMIZER_PASSES[{fname}]", f"{fname} is not registered atomic_only", f"{fname} builds a SkipUntil in place of a loop that matches implicit trivia between iterations; in a non-atomic rule of a grammar with WHITESPACE/COMMENT the optimized parser consumes different input", {}))
        else:
            check.oblige("O3", f"{OPT}::DEFAULT_OPTIMIZER_PASSES[{fname}]", f"{fname} does not replace trivia points by a terminal", True)
    opt = repo.func(OPT, "Optimizer.optimize")
    src = ast.unparse(opt)
    guard = None
    for n in ast.walk(opt):
        if isinstance(n, ast.If) and "step.atomic_only" in ast.unparse(n.test):
            guard = n
    ok = guard is not None and isinstance(guard.body[-1], ast.Continue)
    t = ast.unparse(guard.test) if guard is not None else ""
    ok = ok and "has_trivia" in t and "rule.modifier & (ATOMIC | COMPOUND)" in t and "not rule.modifier" in t
    check.oblige("O3", f"{OPT}::Optimizer.optimize", "atomic_only steps skip non-atomic rules when the grammar has trivia rules" if ok else "Optimizer.optimize does not honour atomic_only", ok, sample=True,
                 finding=Finding("O3", f"{OPT}::Optimizer.optimize", "Optimizer.optimize does not honour atomic_only", "a step marked atomic_only is applied to non-atomic rules although WHITESPACE/COMMENT are defined", {}))
    ok = "has_trivia = 'WHITESPACE' in rules or 'COMMENT' in rules" in src
    check.oblige("O3", f"{OPT}::Optimizer.optimize", "has_trivia covers both WHITESPACE and COMMENT" if ok else "has_trivia does not test both WHITESPACE and COMMENT", ok)
    # the guard sits inside the per-rule loop, before the pass is run
    ok = guard is not None and src.find("step.atomic_only") < src.find("self._run_once(")
    check.oblige("O3", f"{OPT}::Optimizer.optimize", "the atomic_only test precedes the application of the pass" if ok else "the atomic_only test does not precede the pass", ok)


def o4_purity(check: Check, repo: Repo) -> None:
    types = Types(repo)
    n = 0
    for rel, qual, kind, target, recv, node in shared.mutation_sites(repo, types):
        if rel not in PASS_FILES:
            continue
        n += 1
        root = recv
        while isinstance(root, (ast.Attribute, ast.Subscript)):
            root = root.value
        name = root.id if isinstance(root, ast.Name) else "?"
        fresh = name in ("subs", "new_expr")
        what = f"{kind} {target}: receiver {name} is a scratch object of this rewrite"
        sig = f"{kind} {target} mutates an object reachable from the pass's arguments"
        check.oblige("O4", f"{rel}::{qual}", what if fresh else sig, fresh, finding=Finding("O4", f"{rel}::{qual}", sig, f"{qual}: `{target}` — expression nodes are shared (built-ins, Sequence(e, Repeat(e))): a pass must build new nodes", {}))
    check.count("pass_mutation_sites", n)
    # subs / new_expr are fresh at every entry call site
    sk = ast.unparse(repo.func(SKIP, "skip"))
    ok = sk.count("_skip(inner.expression, rules, [])") + sk.count("_skip(inner, rules, [])") >= 2
    check.oblige("O4", f"{SKIP}::skip", "each rewrite starts from a fresh subs list" if ok else "skip() does not start _skip with a fresh list", ok)


def o5_inplace(check: Check, repo: Repo) -> None:
    """optimize() neither rewrites the process-wide built-in rule objects nor the Rule objects it was given."""
    fn = repo.func(OPT, "Optimizer.optimize")
    m = repo.mod(OPT)
    stores = [n for n in ast.walk(fn) if isinstance(n, ast.Assign) and isinstance(n.targets[0], ast.Attribute) and n.targets[0].attr == "expression"]
    if not stores:
        raise AnalysisError(f"anchor vanished: no store of a rewritten expression in {OPT}::Optimizer.optimize")
    for store in stores:
        target = ast.unparse(store.targets[0])
        kind = "own-rules" if target == "rules[name].expression" else "local-copy"
        ok, why = shared.check_premise(repo, OPT, "Optimizer.optimize", target, kind, store, m)
        sig = "optimize() rewrites a Rule object that other parsers may share"
        check.oblige("O5", f"{OPT}::Optimizer.optimize", f"`{target} = ...`: {why}" if ok else sig, ok,
                     finding=Finding("O5", f"{OPT}::Optimizer.optimize", sig, f"`{ast.unparse(store)}`: {why}", {}))
    # (that built-ins are skipped is no longer a premise: a rewritten built-in would be stored as a copy in the
    # parser's own table like any other rule)


def o7_unroll(check: Check, repo: Repo) -> None:
    fn = repo.func(UNROLL, "unroll")
    match = next((n for n in ast.walk(fn) if isinstance(n, ast.Match)), None)
    if match is None:
        raise AnalysisError(f"anchor vanished: match statement of {UNROLL}::unroll")
    seen = set()
    for case in match.cases:
        pat = case.pattern
        if not isinstance(pat, ast.MatchClass):
            continue
        cls = ast.unparse(pat.cls)
        if cls not in terms.UNROLLED:
            raise AnalysisError(f"{UNROLL}::unroll: arm for {cls} has no unrolled form in the specification table")
        binds = {k: (p.name if isinstance(p, ast.MatchAs) else None) for k, p in zip(pat.kwd_attrs, pat.kwd_patterns, strict=True)}
        expr_names = {binds.get("expression")} - {None}
        counts = {}
        for attr, canon in (("number", "number"), ("min", "min"), ("max", "max")):
            if binds.get(attr):
                counts[binds[attr]] = canon
        nz = terms.Normaliser(f"{UNROLL}::unroll[{cls}]", expr_names, counts)  # type: ignore[arg-type]
        rets = [s for s in ast.walk(ast.Module(body=case.body, type_ignores=[])) if isinstance(s, ast.Return)]
        for r in rets:
            got = nz.term(r.value)
            want = terms.UNROLLED[cls]
            ok = got == want
            sig = f"{cls} is unrolled to something other than its specified form"
            check.oblige("O7", f"{UNROLL}::unroll[{cls}]", f"{cls} -> {terms.term_str(want)}" if ok else sig, ok, sample=True,
                         finding=Finding("O7", f"{UNROLL}::unroll[{cls}]", sig, f"unroll({cls}) builds {terms.term_str(got)} where {terms.term_str(want)} is specified", {"built": terms.term_str(got), "specified": terms.term_str(want)}))
            check.count("unroll_arms")
        seen.add(cls)
    missing = set(terms.UNROLLED) - seen
    check.oblige("O7", f"{UNROLL}::unroll", "every bounded repetition has an unroll arm" if not missing else f"no unroll arm for {sorted(missing)}", not missing)
    default = [c for c in match.cases if isinstance(c.pattern, ast.MatchAs) and c.pattern.pattern is None]
    ok = bool(default) and ast.unparse(default[0].body[-1]) == "return expr"
    check.oblige("O7", f"{UNROLL}::unroll", "anything else is returned unchanged" if ok else "the default arm does not return its argument", ok)


def o8_inliners(check: Check, repo: Repo) -> None:
    """inline_builtin decided on model built-ins (sa/squashsem.py); inline_silent_rules is O14."""
    from ..squashsem import check_inline_builtin

    construct = f"{INLINE}::inline_builtin"
    n, bad = check_inline_builtin(repo, construct)
    check.count("inline_model_references", n)
    check.oblige("O8", construct, f"on all {n} model nodes only silent built-ins are replaced by their body" if not bad else f"{len(bad)} of {n} model nodes are handled unsoundly", True)
    cats: dict[str, list[str]] = {}
    for cat, msg in bad:
        cats.setdefault(cat, []).append(msg)
    for cat, msgs in sorted(cats.items()):
        sig = f"inline_builtin {cat}"
        check.oblige("O8", construct, sig, False, finding=Finding("O8", construct, sig, f"{sig}: e.g. {msgs[0]}", {"witness": msgs[0]}))
    # premise: the library's own built-ins are silent, except EOI
    builtin_silent = ast.unparse(repo.func("src/pest/grammar/rules/ascii.py", "ASCIIRule.__init__"))
    check.oblige("O8", "src/pest/grammar/rules/ascii.py::ASCIIRule.__init__", "inlined built-ins are silent (no pair is lost)", "SILENT" in builtin_silent)


def o9_skip_rule(check: Check, repo: Repo) -> None:
    """When and how SKIP is fused is decided by O15 on model grammars, and that parse_trivia hands over to it by
    the scripted evaluation of ParserState.parse_trivia (sa/triviasem.py), shared with C04."""
    from ..triviasem import check_trivia

    construct = "src/pest/state.py::ParserState.parse_trivia"
    n, bad = check_trivia(repo, construct)
    skipbad = [(c, m) for c, m in bad if "SKIP" in m]
    check.count("trivia_model_scenarios", n)
    check.oblige("O9", construct, f"with a fused SKIP rule parse_trivia consults exactly that rule, on every call ({n} scripted scenarios)" if not skipbad else f"parse_trivia: {skipbad[0][0]}", not skipbad,
                 finding=Finding("O9", construct, f"parse_trivia: {skipbad[0][0]}" if skipbad else "", f"parse_trivia: {skipbad[0][0]}: {skipbad[0][1]}" if skipbad else "", {}))


def o10_truthy(check: Check, repo: Repo, rep) -> None:
    """An optimized node must not treat offset/index 0 as 'nothing found' (the node it replaced does not)."""
    from ..truthy import apply

    apply(check, repo, rep, "O10", lambda rel: rel.startswith("src/pest/grammar/optimizers/") or rel in (OPT, CHOICE, "src/pest/grammar/expressions/terminals.py"),
          lambda construct: any(k in construct for k in ("SkipUntil", "OptimizedChoice", "Optimized", "Skip")))


def o11_skip_search(check: Check, repo: Repo, rep) -> None:
    """SkipUntil (interpreted and emitted) stops exactly where the loop it replaces stops."""
    import textwrap

    from ..skipsem import check_parse, check_skeleton

    rel = "src/pest/grammar/expressions/terminals.py"
    sig = "SkipUntil does not stop at the earliest terminator (or the end of input)"
    fn = repo.func(rel, "SkipUntil.parse")
    n, bad = check_parse(fn, f"{rel}::SkipUntil.parse")
    check.count("skip_search_model_points", n)
    check.oblige("O11", f"{rel}::SkipUntil.parse", f"stops at min(find results) or len(input) on all {n} order types of the search results" if not bad else sig, not bad, sample=True,
                 finding=Finding("O11", f"{rel}::SkipUntil.parse", sig, f"SkipUntil.parse: {bad[0] if bad else ''} ({len(bad)} of {n} abstract points)", {"witness": bad[0] if bad else ""}))
    seen = 0
    for _label, sk in rep.skeleton_sources:
        if not sk.construct.endswith("SkipUntil.generate"):
            continue
        seen += 1
        n, bad = check_skeleton(textwrap.dedent(sk.source), sk.construct)
        check.count("skip_search_model_points", n)
        check.oblige("O11", sk.construct, f"emitted code stops at min(find results) or len(input) on all {n} order types" if not bad else sig, not bad, sample=True,
                     finding=Finding("O11", sk.construct, sig, f"SkipUntil.generate emits code for which {bad[0] if bad else ''} ({len(bad)} of {n} abstract points)", {"witness": bad[0] if bad else ""}))
    if not seen:
        raise AnalysisError("anchor vanished: no SkipUntil.generate skeleton")


def o12_squash_semantics(check: Check, repo: Repo, tier: str) -> None:
    """What squash_choice returns matches exactly what the ordered choice matches (sa/squashsem.py)."""
    from ..squashsem import check_squash

    construct = f"{SQUASH}::squash_choice"
    # k / K / U+212A KELVIN SIGN: one case-folding class with three members, two of them not each other's upper()/lower()
    alphabet, max_len, triples = (["k", "K", "\u212a"], 2, False) if tier == "quick" else (["k", "K", "\u212a", "\u00df", "1"], 2, True)
    n, squashed, bad = check_squash(repo, construct, alphabet, max_len, triples)
    check.count("squash_model_choices", n)
    check.count("squash_model_choices_rewritten", squashed)
    sig = "squash_choice replaces an ordered choice by a pattern that matches something else"
    cats: dict[str, list[str]] = {}
    for cat, msg in bad:
        cats.setdefault(cat, []).append(msg)
    check.oblige("O12", construct, f"on all {squashed} model choices it rewrites (of {n}), the emitted pattern and the ordered choice agree on every model input" if not bad else f"{len(bad)} of {squashed} rewritten model choices disagree (reported per category below)", True, sample=True)
    for cat, msgs in sorted(cats.items()):
        full = f"{sig}: {cat}"
        check.oblige("O12", construct, full, False, sample=True,
                     finding=Finding("O12", construct, full, f"{full}: e.g. {msgs[0]} ({len(msgs)} of {squashed} rewritten model choices)", {"witness": msgs[0]}))


def o14_inline_semantics(check: Check, repo: Repo) -> None:
    """inline_silent_rules replaces a reference only where entering the rule is invisible (sa/squashsem.py)."""
    from ..squashsem import check_inline_silent

    construct = "src/pest/grammar/optimizers/inliners.py::inline_silent_rules"
    n, bad = check_inline_silent(repo, construct)
    check.count("inline_model_references", n)
    check.oblige("O14", construct, f"on all {n} (modifier, name, tag) combinations a reference is inlined only where entering the rule is invisible" if not bad else f"{len(bad)} of {n} combinations are inlined unsoundly (reported per category below)", True)
    cats: dict[str, list[str]] = {}
    for cat, msg in bad:
        cats.setdefault(cat, []).append(msg)
    for cat, msgs in sorted(cats.items()):
        sig = f"inline_silent_rules {cat}"
        check.oblige("O14", construct, sig, False, finding=Finding("O14", construct, sig, f"{sig}: e.g. {msgs[0]} ({len(msgs)} of {n} combinations); the optimized parser then treats trivia, pairs or tags differently from optimizer=None", {"witness": msgs[0]}))


def o7b_unroll_concrete(check: Check, repo: Repo) -> None:
    from ..unrollsem import check_unroll_pass

    construct = f"{UNROLL}::unroll"
    n, bad = check_unroll_pass(repo, construct)
    check.count("unroll_model_nodes", n)
    sig = "the unroll pass rewrites a bounded repetition into something else than pest's unrolled form"
    check.oblige("O7", construct, f"on all {n} bounded repetitions with bounds 0..3 the pass yields the flat unrolled form (or declines)" if not bad else sig, not bad,
                 finding=Finding("O7", construct, sig, f"{sig}: {bad[0] if bad else ''} ({len(bad)} of {n})", {"witness": bad[0] if bad else ""}))


def o15_pipeline(check: Check, repo: Repo) -> None:
    """Optimizer.optimize as a whole on model grammars (sa/optsem.py)."""
    from ..optsem import check_pipeline

    construct = f"{OPT}::Optimizer.optimize"
    n, bad = check_pipeline(repo, construct)
    check.count("pipeline_model_grammars", n)
    check.oblige("O15", construct, f"on all {n} model grammars the driver rewrites nothing it was given, keeps atomic_only passes out of rules with trivia, keeps tags, and fuses SKIP exactly for a lone silent trivia rule" if not bad else f"{len(bad)} findings on {n} model grammars (per category below)", True, sample=True)
    cats: dict[str, list[str]] = {}
    for cat, msg in bad:
        cats.setdefault(cat, []).append(msg)
    for cat, msgs in sorted(cats.items()):
        check.oblige("O15", construct, cat, False, sample=True, finding=Finding("O15", construct, cat, f"{cat}: e.g. {msgs[0]} ({len(msgs)} of {n} model grammars)", {"witness": msgs[0]}))


def o16_skip_pass(check: Check, repo: Repo) -> None:
    """The skip pass on a family of loop shapes (sa/optsem.py): exactly the loop's terminators, or no rewrite."""
    from ..optsem import check_skip_pass

    construct = "src/pest/grammar/optimizers/skippers.py::skip"
    n, bad = check_skip_pass(repo, construct)
    check.count("skip_pass_model_loops", n)
    check.oblige("O16", construct, f"on all {n} model loops the skip pass collects exactly the loop's plain literals or leaves the loop alone", True, sample=True)
    cats: dict[str, list[str]] = {}
    for cat, msg in bad:
        cats.setdefault(cat, []).append(msg)
    for cat, msgs in sorted(cats.items()):
        check.oblige("O16", construct, cat, False, sample=True, finding=Finding("O16", construct, cat, f"{cat}: e.g. {msgs[0]} ({len(msgs)} of {n} model loops)", {"witness": msgs[0]}))
    check.floor("skip_pass_model_loops", 40)


def o13_fold_flags(check: Check, repo: Repo) -> None:
    """A squashed choice must fold case exactly like the `^"..."` literal it replaces: CIString compiles with re.I
    under the regex module's default VERSION0 (simple folding); a global VERSION1 / FULLCASE on the squashed
    pattern turns every `(?i:...)` part into full case folding ("strasse" ~ "stra\u00dfe")."""
    from .c12 import _flag_names

    cls = repo.cls(CHOICE, "OptimizedChoice")
    n_sites = 0
    for fn in [x for x in cls.body if isinstance(x, ast.FunctionDef)]:
        sites: list[tuple[str, ast.AST | None]] = []
        for c in ast.walk(fn):
            if isinstance(c, ast.Call) and ast.unparse(c.func) in ("re.compile", "regex.compile"):
                sites.append(("compiles", c.args[1] if len(c.args) > 1 else next((k.value for k in c.keywords if k.arg == "flags"), None)))
            if isinstance(c, ast.JoinedStr) and ast.unparse(c).startswith("f're.compile(") or (isinstance(c, ast.JoinedStr) and "re.compile(" in "".join(v.value for v in c.values if isinstance(v, ast.Constant))):
                text = "".join(v.value if isinstance(v, ast.Constant) else "P" for v in c.values)
                try:
                    call = ast.parse(text, mode="eval").body
                except SyntaxError:
                    raise AnalysisError(f"{CHOICE}::OptimizedChoice.{fn.name}: emitted compile expression does not parse: {text}") from None
                if isinstance(call, ast.Call):
                    sites.append(("emits", call.args[1] if len(call.args) > 1 else next((k.value for k in call.keywords if k.arg == "flags"), None)))
        for what, flags_e in sites:
            n_sites += 1
            flags = _flag_names(flags_e) if flags_e is not None else set()
            if flags is None:
                raise AnalysisError(f"{CHOICE}::OptimizedChoice.{fn.name}: flags `{ast.unparse(flags_e)}` are not a plain union of re flags")
            bad = sorted(flags & {"VERSION1", "FULLCASE", "I"})
            construct = f"{CHOICE}::OptimizedChoice.{fn.name}"
            sig = "the squashed pattern is compiled with a flag that changes case folding"
            check.oblige("O13", construct, f"{what} the pattern without a global folding flag" if not bad else sig, not bad,
                         finding=Finding("O13", construct, sig, f"OptimizedChoice.{fn.name} {what} its pattern with {bad}: a `^\"...\"` alternative then matches other text than the CIString it replaces (optimizer=None)", {"flags": bad}))
    check.count("squash_compile_sites", n_sites)


def run(tier: str) -> Check:
    check = Check("C02", tier, EXPLANATION)
    check.rules = ["O1", "O2", "O3", "O4", "O5", "O6(TERM)", "O7", "O8", "O9", "O10", "O11", "O12", "O13", "O14", "O15", "O16"]
    check.assumptions = [
        "NOT decided: equivalence of the regex built by build_optimized_pattern with the choice it replaces beyond O2 and C12's fragment rules, and of SkipUntil's search with the loop it replaces in atomic context — equalities of languages of run-time constructed objects",
        "the unrolled forms are those of the specification table shared with C03/C04",
    ]
    repo, rep = fill(check, tier)
    # ---- semantic rules (the passes evaluated on the program model): these decide
    before = len(check.findings)
    deferred_before = len(getattr(check, "deferred", []))  # (what the operator analysis above could not read is not theirs)
    o11_skip_search(check, repo, rep)
    o12_squash_semantics(check, repo, tier)
    o14_inline_semantics(check, repo)
    o15_pipeline(check, repo)
    o16_skip_pass(check, repo)
    o7b_unroll_concrete(check, repo)
    o9_skip_rule(check, repo)  # parse_trivia evaluated on scripted scenarios: semantic
    sem_ok = len(check.findings) == before and len(getattr(check, "deferred", [])) == deferred_before
    o10_truthy(check, repo, rep)
    check.second_opinion(lambda c: o2_order(c, repo, tier), "O12 on the program model", sem_ok)
    # ---- structural readings of the same passes (contradiction / registration / purity / shape rules): second
    # opinions - reported when the semantic rules fail too, notes when the passes are right but written differently
    for fn_ in (o1_unchecked, o3_trivia, o4_purity, o5_inplace, o7_unroll, o8_inliners, o13_fold_flags):
        check.second_opinion(lambda c, fn_=fn_: fn_(c, repo), "O11/O12/O14/O15/O16/O7 on the program model", sem_ok)
    check.floor("truthy_skeletons", 2)
    check.floor("skip_search_model_points", 300)
    check.floor("squash_model_choices_rewritten", 500)
    check.floor("squash_compile_sites", 2)
    check.floor("inline_model_references", 40)
    check.floor("pipeline_model_grammars", 25)
    # (no floors on what only the second-opinion readings count)
    return check
