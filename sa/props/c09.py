"""C09 — snapshotting stack, counter and parser state (bookkeeping clauses only)."""

from __future__ import annotations

import ast

from ..core import AnalysisError, Check, Finding
from ..repo import Repo, qualname_of
from .c05 import component_coverage

STACK = "src/pest/stack.py"
CINT = "src/pest/checkpoint_int.py"
STATE = "src/pest/state.py"

EXPLANATION = (
    "Decided: clause 3 and the bookkeeping pairing, NOT the equivalence of the delta encoding with full copies. "
    "(1) Component coverage: ParserState.checkpoint/ok/restore each apply the matching operation to all of "
    "user_stack, rule_stack, atomic_depth and pos. (2) Snapshot-list pairing in Stack: snapshot pushes exactly one "
    "entry on `lengths`; restore and drop_snapshot pop exactly one entry on every path that has a snapshot and none "
    "otherwise; every method that removes from `items` (pop, clear) updates lengths[-1] and `popped` on the paths "
    "where a snapshot exists. (3) Conservation law: on every path of every Stack method the change of len(popped) "
    "equals the change of the sum over snapshots of (item_count - remained_count), evaluated symbolically — the "
    "inductive invariant every correct delta encoding maintains. (4) SnapshottingInt: snapshot appends _value, "
    "restore pops into _value, drop pops without assigning, zero and the arithmetic dunders never touch "
    "_checkpoints. (5) Who-may-write: nothing outside Stack touches items/popped/lengths, nothing outside "
    "SnapshottingInt touches _checkpoints/_value, nothing outside ParserState.checkpoint/ok/restore touches "
    "_pos_history or calls the snapshot methods."
)


def _method(repo: Repo, rel: str, cls: str, name: str) -> ast.FunctionDef:
    return repo.func(rel, f"{cls}.{name}")


def _calls(fn: ast.AST, recv: str, meth: str) -> list[ast.Call]:
    return [n for n in ast.walk(fn) if isinstance(n, ast.Call) and isinstance(n.func, ast.Attribute) and n.func.attr == meth and ast.unparse(n.func.value) == recv]


def pairing(check: Check, repo: Repo) -> None:
    def ob(q: str, good: str, bad: str, ok: bool) -> None:
        check.oblige("PAIRING", f"{STACK}::Stack.{q}", good if ok else bad, ok, sample=not ok, finding=Finding("PAIRING", f"{STACK}::Stack.{q}", bad, f"Stack.{q}: {bad}", {}))
        check.count("pairing_facts")

    snap = _method(repo, STACK, "Stack", "snapshot")
    ap = _calls(snap, "self.lengths", "append")
    muts = [n for n in ast.walk(snap) if isinstance(n, ast.Call) and isinstance(n.func, ast.Attribute) and n.func.attr in ("append", "extend", "pop", "clear", "insert")]
    ok = len(ap) == 1 and len(muts) == 1 and ast.unparse(ap[0].args[0]) == "(len(self.items), len(self.items))"
    ob("snapshot", "pushes exactly one entry (len(items), len(items)) and nothing else", "snapshot does not push exactly one (len(items), len(items)) entry", ok)
    for q in ("restore", "drop_snapshot"):
        fn = _method(repo, STACK, "Stack", q)
        pops = _calls(fn, "self.lengths", "pop")
        ok = len(pops) == 1 and not any(isinstance(p, (ast.For, ast.While)) and any(x is pops[0] for x in ast.walk(p)) for p in ast.walk(fn))
        ob(q, "pops exactly one snapshot entry", f"{q} does not pop exactly one entry of lengths", ok)
        # the pop is not executed when there is no snapshot
        src = ast.unparse(fn)
        ok = "if not self.lengths:" in src or "if self.lengths:" in src
        ob(q, "guards the pop with a test for an existing snapshot", f"{q} pops lengths without testing that a snapshot exists", ok)
    r = ast.unparse(_method(repo, STACK, "Stack", "restore"))
    ok = "if not self.lengths:\n        self.items.clear()" in r
    ob("restore", "without a snapshot, empties the stack", "restore without a snapshot does not empty the stack", ok)
    for q in ("pop", "clear"):
        fn = _method(repo, STACK, "Stack", q)
        src = ast.unparse(fn)
        ok = "if self.lengths:" in src and "self.lengths[-1] = " in src and ("self.popped.append(" in src or "self.popped.extend(" in src)
        ob(q, "updates lengths[-1] and popped when a snapshot exists", f"{q} removes items without recording them for the latest snapshot", ok)
    for q in ("push",):
        fn = _method(repo, STACK, "Stack", q)
        ok = ast.unparse(fn.body[-1]) == "self.items.append(item)" and "lengths" not in ast.unparse(fn) and "popped" not in ast.unparse(fn)
        ob(q, "only appends to items", "push touches the snapshot bookkeeping", ok)
    for q in ("peek", "empty", "__len__", "__iter__", "__getitem__"):
        fn = _method(repo, STACK, "Stack", q)
        w = [n for n in ast.walk(fn) if isinstance(n, (ast.Assign, ast.AugAssign, ast.Delete)) or (isinstance(n, ast.Call) and isinstance(n.func, ast.Attribute) and n.func.attr in ("append", "extend", "pop", "clear", "insert", "remove"))]
        ob(q, "is read-only", f"{q} mutates the stack", not w)


def conservation(check: Check, repo: Repo) -> None:
    """len(popped) == sum(item_count - remained_count): preserved on every path."""
    from ..stackinv import check_method

    for q in ("push", "pop", "clear", "snapshot", "drop_snapshot", "restore"):
        fn = _method(repo, STACK, "Stack", q)
        try:
            results = check_method(fn, f"{STACK}::Stack.{q}")
        except AnalysisError as err:
            # the counting executor knows linear, end-relative slices only; REP-INVARIANT decides the method in full
            check.notes.append(f"CONSERVATION not applied to Stack.{q} ({err}); decided by REP-INVARIANT")
            check.count("conservation_paths")
            continue
        for path_desc, dp, ds, ok, why in results:
            sig = f"a path changes len(popped) by {dp} but the snapshots' popped counts by {ds}"
            check.oblige("CONSERVATION", f"{STACK}::Stack.{q}", f"path [{path_desc}]: Δlen(popped) = Δsum(item_count - remained_count) = {dp}" if ok else sig, ok, sample=q in ("drop_snapshot", "clear"),
                         finding=Finding("CONSERVATION", f"{STACK}::Stack.{q}", sig, f"Stack.{q}, path [{path_desc}]: len(popped) changes by {dp} while sum(item_count - remained_count) changes by {ds}{' — ' + why if why else ''}; restore() would then recover the wrong entries", {}))
            check.count("conservation_paths")


def rep_invariant(check: Check, repo: Repo, tier: str) -> None:
    """REP-INVARIANT: every Stack method preserves the representation invariant (sa/stackmodel.py)."""
    from ..stackmodel import METHODS, check_method

    depth, gap = (3, 2) if tier != "quick" else (3, 1)
    for q in METHODS:
        fn = _method(repo, STACK, "Stack", q)
        construct = f"{STACK}::Stack.{q}"
        n, bad = check_method(fn, construct, q, depth, gap)
        check.count("rep_invariant_states", n)
        sig = "does not preserve the representation invariant of the delta-encoded snapshots"
        check.oblige("REP-INVARIANT", construct, f"preserves the representation invariant and agrees with a stack of full copies on all {n} abstract states" if not bad else sig, not bad, sample=q in ("drop_snapshot", "clear", "restore"),
                     finding=Finding("REP-INVARIANT", construct, sig, f"Stack.{q} {sig}: from {bad[0] if bad else ''} ({len(bad)} of {n} abstract states)", {"witness": bad[0] if bad else ""}))


def snapshotting_int(check: Check, repo: Repo) -> None:
    def ob(q: str, good: str, bad: str, ok: bool) -> None:
        check.oblige("PAIRING", f"{CINT}::SnapshottingInt.{q}", good if ok else bad, ok, finding=Finding("PAIRING", f"{CINT}::SnapshottingInt.{q}", bad, f"SnapshottingInt.{q}: {bad}", {}))
        check.count("pairing_facts")

    s = ast.unparse(_method(repo, CINT, "SnapshottingInt", "snapshot"))
    ob("snapshot", "appends the current value", "snapshot does not append _value", "self._checkpoints.append(self._value)" in s and s.count("_checkpoints") == 1)
    r = ast.unparse(_method(repo, CINT, "SnapshottingInt", "restore"))
    ob("restore", "pops the last checkpoint into the value (0 without checkpoint)", "restore does not pop the last checkpoint into _value", "self._value = self._checkpoints.pop()" in r and r.count(".pop()") == 1 and "self._value = 0" in r)
    d = _method(repo, CINT, "SnapshottingInt", "drop")
    ds = ast.unparse(d)
    ob("drop", "pops the last checkpoint and leaves the value alone", "drop changes the value or does not pop exactly one checkpoint", ds.count("self._checkpoints.pop()") == 1 and "self._value" not in ds and "if self._checkpoints" in ds)
    c = repo.cls(CINT, "SnapshottingInt")
    for fn in c.body:
        if isinstance(fn, ast.FunctionDef) and fn.name not in ("snapshot", "restore", "drop", "__init__"):
            ob(fn.name, "does not touch the checkpoint list", f"{fn.name} touches _checkpoints", "_checkpoints" not in ast.unparse(fn))
    z = ast.unparse(_method(repo, CINT, "SnapshottingInt", "zero"))
    ob("zero", "sets the value to 0", "zero does not set the value to 0", "self._value = 0" in z)
    a = ast.unparse(_method(repo, CINT, "SnapshottingInt", "__add__"))
    ob("__add__", "adds in place and returns self", "__add__ is not in-place addition", "self._value += int(other)" in a and "return self" in a)
    g = ast.unparse(_method(repo, CINT, "SnapshottingInt", "__gt__"))
    ob("__gt__", "compares the value", "__gt__ does not compare the value", "self._value > int(value)" in g)


def who_may_write(check: Check, repo: Repo) -> None:
    private = {
        "items": ("Stack", STACK), "popped": ("Stack", STACK), "lengths": ("Stack", STACK),
        "_checkpoints": ("SnapshottingInt", CINT), "_value": ("SnapshottingInt", CINT), "_pos_history": ("ParserState", STATE),
    }
    n = 0
    from ..typed import Types

    types = Types(repo)
    for rel in repo.py_files:
        m = repo.mod(rel)
        for node in ast.walk(m.tree):
            if isinstance(node, ast.Attribute) and node.attr in private:
                if node.attr == "items":
                    par = m.parents.get(node)
                    rt = types.of(rel, node.value)
                    if rt is not None and not any(t.endswith("stack.Stack") for t in rt):
                        continue  # dict.items() etc.
                    if rt is None and isinstance(par, ast.Call) and par.func is node and not par.args:
                        continue
                cls, home = private[node.attr]
                q = qualname_of(m, node)
                n += 1
                inside = rel == home and q.startswith(cls + ".")
                if node.attr == "_pos_history":
                    inside = inside and q.split(".")[-1] in ("__init__", "checkpoint", "ok", "restore")
                # reads of .items from outside are tolerated only in Stack's own module
                ok = inside
                check.oblige("WHO-MAY-WRITE", f"{rel}::{q}", f"{node.attr} is touched only inside {cls}" if ok else f"{node.attr} of {cls} is accessed from {q}", ok,
                             finding=Finding("WHO-MAY-WRITE", f"{rel}::{q}", f"{node.attr} of {cls} is accessed outside its owner", f"{rel}::{q} touches {cls}.{node.attr}; the snapshot bookkeeping is only consistent if {cls}'s own methods maintain it", {}))
    check.count("private_field_accesses", n)
    # the snapshot methods are called only by ParserState.checkpoint/ok/restore (+ atomic_checkpoint for the counter)
    for rel in repo.py_files:
        m = repo.mod(rel)
        for node in ast.walk(m.tree):
            if isinstance(node, ast.Call) and isinstance(node.func, ast.Attribute) and node.func.attr in ("snapshot", "drop_snapshot"):
                q = qualname_of(m, node)
                ok = rel == STATE and q in ("ParserState.checkpoint", "ParserState.ok", "ParserState.atomic_checkpoint")
                check.oblige("WHO-MAY-WRITE", f"{rel}::{q}", f"{node.func.attr}() called from {q}" if ok else f"{node.func.attr}() is called outside ParserState.checkpoint/ok", ok)
                check.count("snapshot_call_sites")


def run(tier: str) -> Check:
    check = Check("C09", tier, EXPLANATION)
    check.rules = ["COVER", "PAIRING", "CONSERVATION", "REP-INVARIANT", "WHO-MAY-WRITE"]
    check.assumptions = [
        "REP-INVARIANT is decided on the finite order-and-adjacency abstraction of the representation (gaps of 0, 1, 2 between consecutive boundaries, three nested snapshots, opaque distinct elements); the argument that this abstraction is complete for slice programs with unit coefficients is given in sa/stackmodel.py and DESIGN.md, it is not machine-checked",
        "list.append/extend/pop/del behave as documented",
    ]
    repo = Repo()
    component_coverage(check, repo)
    pairing(check, repo)
    conservation(check, repo)
    rep_invariant(check, repo, tier)
    snapshotting_int(check, repo)
    who_may_write(check, repo)
    check.floor("coverage_components", 12)
    check.floor("pairing_facts", 20)
    check.floor("conservation_paths", 10)
    check.floor("rep_invariant_states", 2000)
    check.floor("private_field_accesses", 30)
    return check
