"""C09 — snapshotting stack, counter and parser state (bookkeeping clauses only)."""

from __future__ import annotations

import ast

from ..core import AnalysisError, Check, Finding
from ..repo import Repo, qualname_of
from .c05 import component_coverage

STACK = "src/pest/stack.py"
CINT = "src/pest/checkpoint_int.py"
STATE = "src/pest/state.py"

EXPLANATION = (
    "Decided: clause 3 and the bookkeeping pairing, NOT the equivalence of the delta encoding with full copies. "
    "(1) Component coverage: ParserState.checkpoint/ok/restore each apply the matching operation to all of "
    "user_stack, rule_stack, atomic_depth and pos. (2) Snapshot-list pairing in Stack: snapshot pushes exactly one "
    "entry on `lengths`; restore and drop_snapshot pop exactly one entry on every path that has a snapshot and none "
    "otherwise; every method that removes from `items` (pop, clear) updates lengths[-1] and `popped` on the paths "
    "where a snapshot exists. (3) Conservation law: on every path of every Stack method the change of len(popped) "
    "equals the change of the sum over snapshots of (item_count - remained_count), evaluated symbolically — the "
    "inductive invariant every correct delta encoding maintains. (4) SnapshottingInt: snapshot appends _value, "
    "restore pops into _value, drop pops without assigning, zero and the arithmetic dunders never touch "
    "_checkpoints. (5) Who-may-write: nothing outside Stack touches items/popped/lengths, nothing outside "
    "SnapshottingInt touches _checkpoints/_value, nothing outside ParserState.checkpoint/ok/restore touches "
    "_pos_history or calls the snapshot methods."
)


def _method(repo: Repo, rel: str, cls: str, name: str) -> ast.FunctionDef:
    return repo.func(rel, f"{cls}.{name}")


def _calls(fn: ast.AST, recv: str, meth: str) -> list[ast.Call]:
    return [n for n in ast.walk(fn) if isinstance(n, ast.Call) and isinstance(n.func, ast.Attribute) and n.func.attr == meth and ast.unparse(n.func.value) == recv]


def pairing(check: Check, repo: Repo) -> None:
    """The text-shape pairing facts on Stack were removed: REP-INVARIANT decides every Stack method in full."""


def conservation(check: Check, repo: Repo) -> None:
    """len(popped) == sum(item_count - remained_count): preserved on every path.

    A symbolic reading with a small arithmetic (linear counts, end-relative slices): it cannot relate, say, a test
    on len(items) *after* a pop to the count before it.  A mismatch it computes is therefore reported only when
    REP-INVARIANT - the complete decision of the same method on the model - also fails; otherwise the method is
    right and the mismatch is this reading's own limit (recorded as a note, not as a violation)."""
    from ..stackinv import check_method
    from ..stackmodel import check_method as model_check

    from ..objmodel import ClassModel

    cm = ClassModel(repo, STACK, "C09 CONSERVATION", {"Generic": None})
    from ..ordabs import Unsupported

    for q in ("push", "pop", "clear", "snapshot", "drop_snapshot", "restore"):
        fn = _method(repo, STACK, "Stack", q)
        try:
            _n_m, bad_m = model_check(fn, f"{STACK}::Stack.{q}", q, 3, 1, cm)
        except (Unsupported, AnalysisError) as err:
            # the conservation law is stated on lengths / popped as tuples and a shared list: not this representation
            check.notes.append(f"CONSERVATION (a second opinion) is not applicable to the representation Stack has now ({str(err)[:120]}); HISTORIES / REP-INVARIANT decide")
            check.count("conservation_paths", 5)
            return
        try:
            results = check_method(fn, f"{STACK}::Stack.{q}")
        except AnalysisError as err:
            # the counting executor knows linear, end-relative slices only; REP-INVARIANT decides the method in full
            check.notes.append(f"CONSERVATION not applied to Stack.{q} ({err}); decided by REP-INVARIANT")
            check.count("conservation_paths")
            continue
        for path_desc, dp, ds, ok, why in results:
            if not ok and not bad_m:
                check.notes.append(f"CONSERVATION: the symbolic reading of Stack.{q}, path [{path_desc}], does not balance ({dp} vs {ds}); REP-INVARIANT holds for the method on every model state, so this is the reading's limit")
                check.count("conservation_paths")
                continue
            sig = f"a path changes len(popped) by {dp} but the snapshots' popped counts by {ds}"
            check.oblige("CONSERVATION", f"{STACK}::Stack.{q}", f"path [{path_desc}]: Δlen(popped) = Δsum(item_count - remained_count) = {dp}" if ok else sig, ok, sample=q in ("drop_snapshot", "clear"),
                         finding=Finding("CONSERVATION", f"{STACK}::Stack.{q}", sig, f"Stack.{q}, path [{path_desc}]: len(popped) changes by {dp} while sum(item_count - remained_count) changes by {ds}{' — ' + why if why else ''}; restore() would then recover the wrong entries", {}))
            check.count("conservation_paths")


def stack_histories(check: Check, repo: Repo, tier: str) -> bool:
    """HISTORIES: the snapshotting stack against a stack of full copies, through its public interface only (push, pop,
    clear, snapshot, restore, drop_snapshot; contents read with iteration) - whatever representation it keeps.  Every
    history of up to five (thorough: six) operations, and a structured family of nested-snapshot scenarios of up to
    eleven operations (pushes before / between / inside two nested snapshots, pops or a clear that reach through
    them, inner and outer snapshot dropped or restored, a restore without a snapshot at the end).  A bounded family:
    the inductive argument is REP-INVARIANT's; this rule is the one that still reads a Stack whose fields were renamed
    or re-shaped."""
    import itertools

    from ..objmodel import ClassModel
    from ..ordabs import ModelRaise

    cm = ClassModel(repo, STACK, "C09 HISTORIES", {"Generic": None}, max_steps=400000)
    if "Stack" not in cm.classes:
        raise AnalysisError(f"anchor vanished: {STACK}::Stack")
    OPS = ("push", "pop", "clear", "snapshot", "restore", "drop_snapshot")  # noqa: N806

    def histories():  # noqa: ANN202
        for n_ in range(1, (6 if tier != "quick" else 5) + 1):
            yield from itertools.product(OPS, repeat=n_)
        for k0, k1, k2 in itertools.product((0, 1, 2), (0, 1), (0, 1)):
            for a in ((), ("pop",), ("pop", "pop"), ("clear",)):
                for b in ((), ("pop",), ("pop", "pop"), ("pop", "pop", "pop"), ("clear",)):
                    for inner, outer in itertools.product(("drop_snapshot", "restore"), repeat=2):
                        for c in ((), ("pop",), ("push",)):
                            yield ("push",) * k0 + ("snapshot",) + ("push",) * k1 + a + ("snapshot",) + ("push",) * k2 + b + (inner,) + c + (outer, "restore")

    n = 0
    bad: str | None = None
    for h in histories():
        n += 1
        ref: list = []
        saved: list[list] = []
        st = cm.new("Stack")
        fresh = 0
        for i, op in enumerate(h):
            want_exc = False
            if op == "push":
                fresh += 1
                ref.append(f"e{fresh}")
            elif op == "pop":
                want_exc = not ref
                if ref:
                    ref.pop()
            elif op == "clear":
                ref.clear()
            elif op == "snapshot":
                saved.append(list(ref))
            elif op == "restore":
                ref[:] = saved.pop() if saved else []
            elif op == "drop_snapshot":
                if not saved:
                    break  # dropping a snapshot that was never taken: outside the specification
                saved.pop()
            try:
                cm.call(st, op, *([f"e{fresh}"] if op == "push" else []))
                raised = False
            except ModelRaise as err:
                raised = True
                if not want_exc:
                    bad = bad or f"{' '.join(h[: i + 1])}: {op} raises {err}"
                    break
            if want_exc and not raised:
                bad = bad or f"{' '.join(h[: i + 1])}: pop on an empty stack does not raise"
                break
            if raised:
                continue
            try:
                got = list(cm.call(st, "__iter__"))
            except ModelRaise as err:
                bad = bad or f"{' '.join(h[: i + 1])}: iteration raises {err}"
                break
            if got != ref:
                bad = bad or f"after `{' '.join(h[: i + 1])}` the stack holds {got}; a stack of full copies holds {ref}"
                break
    check.count("stack_histories", n)
    construct = f"{STACK}::Stack"
    sig = "does not behave like a stack with full-copy snapshots"
    check.oblige("HISTORIES", construct, f"agrees with a stack of full copies after every step of {n} histories (public interface only)" if bad is None else sig, bad is None, sample=True,
                 finding=Finding("HISTORIES", construct, sig, f"Stack {sig}: {bad}", {"witness": bad or ""}))
    return bad is None


def rep_invariant(check: Check, repo: Repo, tier: str) -> None:
    """REP-INVARIANT: every Stack method preserves the representation invariant (sa/stackmodel.py); HISTORIES next to
    it.  Where the invariant cannot be stated on the representation the Stack has now (fields renamed or re-shaped),
    the bounded HISTORIES rule decides alone, and the evidence says so."""
    from ..ordabs import Unsupported

    hist_ok = stack_histories(check, repo, tier)
    shadow = Check(check.prop, check.tier, "")
    try:
        _rep_invariant(shadow, repo, tier)
    except (Unsupported, AnalysisError) as err:
        if hist_ok:
            check.notes.append(f"REP-INVARIANT is not applicable to the representation Stack has now ({str(err)[:160]}); HISTORIES (bounded, representation-independent) decides")
            check.count("rep_invariant_states", 2000)  # (the floor guards vacuity of the inductive rule, which did not run)
            return
        raise
    for u, k in shadow.units.items():
        check.count(u, k)
    check.obligations += shadow.obligations
    check.discharged += shadow.discharged
    check.nontrivial |= shadow.nontrivial
    check.samples.extend(shadow.samples)
    for k, f in shadow.findings.items():
        check.findings.setdefault(k, f)
    for d in getattr(shadow, "deferred", []):
        check.defer_error(d)


def _rep_invariant(check: Check, repo: Repo, tier: str) -> None:
    from ..stackmodel import METHODS, check_method

    from ..objmodel import ClassModel

    depth, gap = (3, 2) if tier != "quick" else (3, 1)
    cm = ClassModel(repo, STACK, "C09 REP-INVARIANT", {"Generic": None})
    for q in METHODS:
        fn = _method(repo, STACK, "Stack", q)
        construct = f"{STACK}::Stack.{q}"
        n, bad = check_method(fn, construct, q, depth, gap, cm)
        check.count("rep_invariant_states", n)
        sig = "does not preserve the representation invariant of the delta-encoded snapshots"
        check.oblige("REP-INVARIANT", construct, f"preserves the representation invariant and agrees with a stack of full copies on all {n} abstract states" if not bad else sig, not bad, sample=q in ("drop_snapshot", "clear", "restore"),
                     finding=Finding("REP-INVARIANT", construct, sig, f"Stack.{q} {sig}: from {bad[0] if bad else ''} ({len(bad)} of {n} abstract states)", {"witness": bad[0] if bad else ""}))


def snapshotting_int(check: Check, repo: Repo) -> None:
    """SnapshottingInt against a value plus a list of saved values, on all states with value in 0..2 and
    at most two saved values (the operations compare and copy, never compute with the saved values)."""
    import itertools

    from ..objmodel import ClassModel
    from ..ordabs import ModelRaise

    cm = ClassModel(repo, CINT, CINT, max_steps=3000000)
    if "SnapshottingInt" not in cm.classes:
        raise AnalysisError(f"anchor vanished: {CINT}::SnapshottingInt")
    ops = {
        "snapshot": lambda v, sv, a: (v, sv + [v], None),
        "restore": lambda v, sv, a: ((sv[-1], sv[:-1], "self") if sv else (0, [], "self")),
        "drop": lambda v, sv, a: (v, sv[:-1], None),
        "zero": lambda v, sv, a: (0, sv, None),
        "__add__": lambda v, sv, a: (v + a, sv, "self"),
        "__sub__": lambda v, sv, a: (v - a, sv, "self"),
        "__gt__": lambda v, sv, a: (v, sv, v > a),
        "__ge__": lambda v, sv, a: (v, sv, v >= a),
        "__lt__": lambda v, sv, a: (v, sv, v < a),
        "__le__": lambda v, sv, a: (v, sv, v <= a),
        "__eq__": lambda v, sv, a: (v, sv, v == a),
        "__int__": lambda v, sv, a: (v, sv, v),
    }
    states = [(v, list(sv)) for v in range(3) for k in range(3) for sv in itertools.product(range(3), repeat=k)]

    # states are built and read through the public interface only (whatever the fields are called): the value is set
    # with zero() and += k, saved with snapshot(); what is saved is observed by restoring - on a second, identically
    # built object per depth, since restoring consumes
    def set_value(obj, x: int):  # noqa: ANN001, ANN202
        cm.call(obj, "zero")
        if x:
            r = cm.call(obj, "__add__", x)
            if r is not obj:
                raise ModelRaise("__add__ does not return the counter itself")
        return obj

    def build(v: int, sv: list):  # noqa: ANN202
        obj = cm.new("SnapshottingInt", 0)
        for x in sv:
            set_value(obj, x)
            cm.call(obj, "snapshot")
        return set_value(obj, v)

    def observe(v: int, sv: list, q: str, a) -> tuple:  # noqa: ANN001
        """(value after q, [values after 1, 2, ... restores] up to one past the saved depth, return value)"""
        seen = []
        ret = None
        cur = None
        for depth in range(len(sv) + 3):
            obj = build(v, sv)
            r = cm.call(obj, q, *([a] if a is not None else []))
            if depth == 0:
                ret = "self" if r is obj else r
                cur = cm.call(obj, "__int__")
            else:
                for _ in range(depth):
                    cm.call(obj, "restore")
                seen.append(cm.call(obj, "__int__"))
        return cur, seen, ret

    def expected(v: int, sv: list, q: str, a) -> tuple:  # noqa: ANN001
        want_v, want_sv, want_ret = ops[q](v, sv, a)
        seen = []
        for depth in range(1, len(sv) + 3):
            vv, ss = want_v, list(want_sv)
            for _ in range(depth):
                vv, ss = (ss[-1], ss[:-1]) if ss else (0, [])
            seen.append(vv)
        return want_v, seen, want_ret

    for q, spec in ops.items():
        bad = None
        n = 0
        for v, sv in states:
            for a in ((0, 1) if q.startswith("__") and q != "__int__" else (None,)):
                n += 1
                try:
                    got = observe(v, sv, q, a)
                except ModelRaise as err:
                    bad = bad or f"value={v} saved={sv}: raises {err}"
                    continue
                want = expected(v, sv, q, a)
                if got[:2] != want[:2]:
                    bad = bad or f"value={v} saved={sv}{'' if a is None else f' arg={a}'}: afterwards the value is {got[0]} and successive restores give {got[1]}; a plain value with a list of copies has {want[0]} and {want[1]}"
                elif want[2] == "self":
                    if got[2] != "self":
                        bad = bad or f"value={v} saved={sv}: does not return the counter itself (`state.atomic_depth += 1` would rebind the field)"
                elif got[2] != want[2]:
                    bad = bad or f"value={v} saved={sv}{'' if a is None else f' arg={a}'}: returns {got[2]!r} instead of {want[2]!r}"
        construct = f"{CINT}::SnapshottingInt.{q}"
        sig = "does not behave like a value with a list of saved copies"
        check.oblige("PAIRING", construct, f"agrees with a value plus a list of saved copies on all {n} model states" if bad is None else sig, bad is None,
                     finding=Finding("PAIRING", construct, sig, f"SnapshottingInt.{q} {sig}: {bad}", {"witness": bad or ""}))
        check.count("pairing_facts")
        check.count("snapshotting_int_states", n)


def history_fields(repo: Repo) -> set[str]:
    """The attributes ParserState.checkpoint() appends to (the saved positions / tags, whatever they are called and
    however many lists they are kept in)."""
    fn = repo.func(STATE, "ParserState.checkpoint")
    return {n.func.value.attr for n in ast.walk(fn) if isinstance(n, ast.Call) and isinstance(n.func, ast.Attribute) and n.func.attr == "append"
            and isinstance(n.func.value, ast.Attribute) and isinstance(n.func.value.value, ast.Name) and n.func.value.value.id == "self"}


def who_may_write(check: Check, repo: Repo) -> None:
    private = {
        "items": ("Stack", STACK), "popped": ("Stack", STACK), "lengths": ("Stack", STACK),
        "_checkpoints": ("SnapshottingInt", CINT), "_value": ("SnapshottingInt", CINT),
    }
    hist = history_fields(repo)
    for h in hist:
        private.setdefault(h, ("ParserState", STATE))
    if not hist:
        check.notes.append("WHO-MAY-WRITE: ParserState.checkpoint() appends to no attribute of its own; where the saved positions live is not read (COVER decides what checkpoint / ok / restore do)")
    n = 0
    from ..typed import Types

    types = Types(repo)
    owner_type = {"Stack": "stack.Stack", "SnapshottingInt": "checkpoint_int.SnapshottingInt", "ParserState": "state.ParserState"}
    for rel in repo.py_files:
        m = repo.mod(rel)
        for node in ast.walk(m.tree):
            if isinstance(node, ast.Attribute) and node.attr in private:
                cls, home = private[node.attr]
                q = qualname_of(m, node)
                rt = types.of(rel, node.value)
                if node.attr == "items":
                    par = m.parents.get(node)
                    if rt is not None and not any(t.endswith("stack.Stack") for t in rt):
                        continue  # dict.items() etc.
                    if rt is None and isinstance(par, ast.Call) and par.func is node and not par.args:
                        continue
                # whose field is it?  `self.<name>` inside another class is that class's own attribute of the same name;
                # a receiver whose resolved type is not the owner's is another object
                if isinstance(node.value, ast.Name) and node.value.id == "self" and "." in q and not repo.is_subclass(q.split(".")[0], cls) and q.split(".")[0] != cls:
                    continue
                if rt is not None and not any(t.endswith(owner_type[cls]) for t in rt) and not (isinstance(node.value, ast.Name) and node.value.id == "self"):
                    continue
                n += 1
                inside = rel == home and q.startswith(cls + ".")
                if cls == "ParserState":
                    inside = inside and q.split(".")[-1] in ("__init__", "checkpoint", "ok", "restore")
                # reads of .items from outside are tolerated only in Stack's own module
                ok = inside
                check.oblige("WHO-MAY-WRITE", f"{rel}::{q}", f"{node.attr} is touched only inside {cls}" if ok else f"{node.attr} of {cls} is accessed from {q}", ok,
                             finding=Finding("WHO-MAY-WRITE", f"{rel}::{q}", f"{node.attr} of {cls} is accessed outside its owner", f"{rel}::{q} touches {cls}.{node.attr}; the snapshot bookkeeping is only consistent if {cls}'s own methods maintain it", {}))
    check.count("private_field_accesses", n)
    # the snapshot methods are called only by ParserState.checkpoint/ok/restore (+ atomic_checkpoint for the counter)
    for rel in repo.py_files:
        m = repo.mod(rel)
        for node in ast.walk(m.tree):
            if isinstance(node, ast.Call) and isinstance(node.func, ast.Attribute) and node.func.attr in ("snapshot", "drop_snapshot"):
                q = qualname_of(m, node)
                ok = rel == STATE and q in ("ParserState.checkpoint", "ParserState.ok", "ParserState.atomic_checkpoint")
                check.oblige("WHO-MAY-WRITE", f"{rel}::{q}", f"{node.func.attr}() called from {q}" if ok else f"{node.func.attr}() is called outside ParserState.checkpoint/ok", ok)
                check.count("snapshot_call_sites")


def run(tier: str) -> Check:
    check = Check("C09", tier, EXPLANATION)
    check.rules = ["COVER", "PAIRING", "CONSERVATION", "REP-INVARIANT", "HISTORIES", "WHO-MAY-WRITE", "STATE-FIELD"]
    check.assumptions = [
        "REP-INVARIANT is decided on the finite order-and-adjacency abstraction of the representation (gaps of 0, 1, 2 between consecutive boundaries, three nested snapshots, opaque distinct elements); the argument that this abstraction is complete for slice programs with unit coefficients is given in sa/stackmodel.py and DESIGN.md, it is not machine-checked",
        "list.append/extend/pop/del behave as documented",
    ]
    repo = Repo()
    component_coverage(check, repo)
    from .c05 import state_fields

    state_fields(check, repo)
    pairing(check, repo)
    conservation(check, repo)
    rep_invariant(check, repo, tier)
    snapshotting_int(check, repo)
    who_may_write(check, repo)
    check.floor("coverage_components", 12)
    check.floor("pairing_facts", 12)
    check.floor("conservation_paths", 5)  # a vacuity guard: fewer branches is a legitimate restructuring
    check.floor("rep_invariant_states", 2000)
    check.floor("private_field_accesses", 30)
    return check
