"""Shared adapter: build a Check for one property from the operator analysis."""

from __future__ import annotations

from ..core import REPO, Check
from ..repo import Repo
from .. import opcheck

_CACHE: dict = {}


def op_report(tier: str, diff: bool = False) -> tuple[Repo, opcheck.OpReport]:
    key = (str(REPO), tier, diff)
    if key not in _CACHE:
        repo = Repo()
        _CACHE[key] = (repo, opcheck.analyse(repo, tier, diff=diff))
    return _CACHE[key]


def fill(check: Check, tier: str, floors: dict | None = None) -> tuple[Repo, opcheck.OpReport]:
    repo, rep = op_report(tier, diff=check.prop == "C01")
    prop = check.prop
    obs = rep.obligations.get(prop, [])
    bad_keys = {k for k, t in rep.findings.items() if prop in t.props}
    for rule, construct, what, ok in obs:
        check.obligations += 1
        check.nontrivial.add(f"{rule}|{construct}|{what}")
        if ok:
            check.discharged += 1
    for k in sorted(bad_keys):
        f = rep.findings[k].finding
        check.findings.setdefault(f.key, f)
    check.evaluations += len(obs)
    for u, n in rep.units.items():
        check.count(u, n)
    seen = 0
    for i, (rule, construct, what, ok) in enumerate(obs):
        if seen >= 12:
            break
        if i % 97 == 0 or (not ok and seen < 6):
            check.samples.append({"rule": rule, "construct": construct, "obligation": what, "verdict": "ok" if ok else "VIOLATED"})
            seen += 1
    check.samples.extend(rep.samples[:6])
    for d in rep.deferred:
        check.defer_error(d)
    if not rep.deferred:  # the floors guard against vacuity; a run that is already undecided needs no second reason
        for unit, minimum in (floors or {}).items():
            check.floor(unit, minimum)
    return repo, rep
