"""Per-property checks.  Each module exposes ``run(tier) -> Check``."""

from importlib import import_module

PROPS = ["C01", "C02", "C03", "C04", "C05", "C06", "C07", "C08", "C09", "C10", "C11", "C12", "C13", "C15", "C16", "C17", "C18"]


def load(prop: str):
    return import_module(f"sa.props.{prop.lower()}")
