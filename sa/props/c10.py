"""C10 — grammar front end accepts exactly pest v2 syntax with the denoted structure."""

from __future__ import annotations

import ast
import hashlib

from .. import pestlang as P
from .. import relang as R
from ..core import AnalysisError, Check, Finding
from ..repo import Repo, qualname_of

SCANNER = "src/pest/grammar/scanner.py"
PARSER = "src/pest/grammar/parser.py"
UNESCAPE = "src/pest/grammar/unescape.py"
RULE = "src/pest/grammar/rule.py"
META = "tests/grammars/meta.pest"

EXPLANATION = (
    "The oracle is the repository's own copy of pest's meta-grammar, read by an independent reader. (a) token "
    "languages: every scanner regex constant (read with re._parser, never compiled or run) is compared, as a regular "
    "language over all code points, with the exact-or-declined regular translation of the corresponding "
    "meta-grammar production (ordered choice and greedy repetition are translated only when prefix-disjointness "
    "makes the translation exact; character = ' (escape | ANY) ' is built with ordered-choice semantics); a "
    "mismatch carries a shortest witness string for each side. (b) keyword shadowing: no identifier of the "
    "meta-grammar is claimed by an earlier keyword regex, and no keyword by an earlier, shorter one. (c) escape "
    "tables: scanner ESCAPES = letters decoded by _decode_escape_sequence = alternatives of the meta-grammar's "
    "escape rule, decoded values = pest's, \\u{} digit counts agree. (e) every token kind the scanner emits in term / "
    "postfix position has a dispatch arm in the token parser. (f) structure table: token kind -> Expression class "
    "and argument provenance (Range(start, stop), PeekSlice(start, stop), RepeatMinMax(first, second), operand "
    "order of Choice/Sequence, &/! -> Positive/NegativePredicate, MODIFIER_MAP vs the modifier productions), "
    "precedence facts (sequence binds tighter than choice, prefix operand parsed above both, postfix applied "
    "before the infix loop). (d) syntactic skeleton: structural facts of the scanner's recursive descent against "
    "the term / postfix / slice productions (prefix and postfix chains, trivia positions)."
)


def scanner_constants(repo: Repo) -> dict[str, str]:
    out = {}
    for n in repo.mod(SCANNER).tree.body:
        if isinstance(n, ast.Assign) and isinstance(n.value, ast.Call) and ast.unparse(n.value.func) == "re.compile" and isinstance(n.targets[0], ast.Name):
            try:
                out[n.targets[0].id] = ast.literal_eval(n.value.args[0])
            except ValueError:
                # a pattern assembled from other patterns: its language is not read here (a comparison that needs it
                # says so); FRONT-END runs it, through the engine, on the model texts
                out[n.targets[0].id + "#computed"] = ast.unparse(n.value.args[0])
                continue
            if len(n.value.args) > 1 or n.value.keywords:
                out[n.targets[0].id + "#flags"] = ast.unparse(n.value)
    return out


IDCONT = R.chars(("a", "z"), ("A", "Z"), ("0", "9"), "_")
SIGMA = ("star", R.ANY)


def lang_with_lookahead(ast_, looks) -> R.Lang:
    """L(pattern) restricted by trailing look-aheads, as the set of strings w·x such that the
    pattern matches w and the look-aheads hold at x — used only for prefix-claim questions."""
    lg = R.Lang.of(("cat", [ast_, SIGMA]))
    for la in looks:
        cond = R.Lang.of(("cat", [ast_, la.ast, SIGMA]))
        lg = lg & (~cond if la.negate else cond)
    return lg


def token_languages(check: Check, repo: Repo, rules: dict, consts: dict) -> None:
    pr = P.Peg2Re(rules, META)

    def ob(const: str, rule: str, w1, w2, states: int, note: str = "") -> None:
        ok = w1 is None and w2 is None
        construct = f"{SCANNER}::{const}"
        what = f"L({const}) = L({rule}){note}"
        sig = f"L({const}) differs from the meta-grammar's {rule}"
        check.oblige("TOKEN-LANG", construct, what if ok else sig, ok, sample=True,
                     finding=Finding("TOKEN-LANG", construct, sig, f"{const} = {consts.get(const)!r} vs {rule}: accepted only by the scanner: {R.describe(w1)}; only by the meta-grammar: {R.describe(w2)}", {"scanner_only": w1, "meta_only": w2, "product_states": states}))
        check.count("token_language_comparisons")
        check.count("product_states", states)

    def need(name: str) -> str:
        if name not in consts:
            raise AnalysisError(f"anchor vanished: {SCANNER}::{name}")
        return consts[name]

    for const, rule in (("RE_NUMBER", "number"), ("RE_INTEGER", "integer"), ("RE_RANGE_OP", "range_operator"), ("RE_MODIFIER", "modifier"), ("RE_ASSIGN_OP", "assignment_operator")):
        a, looks = R.from_python(need(const))
        if looks:
            raise AnalysisError(f"{const}: unexpected look-ahead")
        if rule not in rules:
            raise AnalysisError(f"anchor vanished: {META}::{rule}")
        try:
            b = pr.tr(rules[rule][1])
        except P.NotRegular as e:
            raise AnalysisError(f"{META}::{rule} is not regular-translatable: {e}") from e
        w1, w2, n = R.compare(R.Lang.of(a), R.Lang.of(b))
        ob(const, rule, w1, w2, n)
    # tag: exactly one trailing look-ahead for the assignment operator
    a, looks = R.from_python(need("RE_TAG"))
    # node_tag = _{ tag_id ~ assignment_operator } is a normal rule: any trivia (comments included) may separate the
    # two. A look-ahead on the tag pattern must therefore admit every `trivia* "="` continuation. (Block comments are
    # taken without nesting here: a regular under-approximation of the continuations that must be admitted.)
    trivia_then_assign, _ = R.from_python(r"(?:[ \t\r\n]|//[^\n]*\n|/\*(?:[^*]|\*+[^*/])*\*+/)*=")
    must_admit = R.Lang.of(("cat", [trivia_then_assign, SIGMA]))
    for la in looks:
        if la.negate or la.lead:
            raise AnalysisError("RE_TAG: look-around other than a trailing positive look-ahead")
        w, n_ = R.witness(must_admit & ~R.Lang.of(("cat", [la.ast, SIGMA])))
        check.count("product_states", n_)
        sig = "RE_TAG's look-ahead refuses a continuation the meta-grammar allows between a tag and '='"
        check.oblige("TOKEN-LANG", f"{SCANNER}::RE_TAG", "the look-ahead admits every trivia* '=' continuation" if w is None else sig, w is None, sample=True,
                     finding=Finding("TOKEN-LANG", f"{SCANNER}::RE_TAG", sig, f"after a tag the text {w!r} is legal (node_tag is a normal rule: comments are trivia) but the look-ahead does not match it, so the tag is not recognised: `a = {{ #t /*c*/ = \"x\" }}` is a syntax error", {"witness": w}))
    if not looks:
        check.oblige("TOKEN-LANG", f"{SCANNER}::RE_TAG", "RE_TAG has no look-ahead: the assignment operator is checked by the caller", True)
    w1, w2, n = R.compare(R.Lang.of(a), R.Lang.of(pr.tr(rules["tag_id"][1])))
    ob("RE_TAG", "tag_id", w1, w2, n, " (look-ahead stripped)")
    # identifier: meta has !"PUSH"; the scanner tries RE_PUSH_LITERAL / RE_PUSH first
    e = rules["identifier"][1]
    if not (e[0] == "seq" and e[1][0] == ("neg", ("str", "PUSH"))):
        raise AnalysisError(f"{META}::identifier no longer starts with !\"PUSH\"")
    not_push = ~R.Lang.of(("cat", [R.lit("PUSH"), SIGMA]))
    a, ilooks = R.from_python(need("RE_IDENTIFIER"))
    scanner_ident = R.Lang.of(a)
    for la in ilooks:
        if not (la.lead and la.negate):
            raise AnalysisError("RE_IDENTIFIER: look-around other than a leading negative look-ahead")
        scanner_ident = scanner_ident & ~R.Lang.of(("cat", [la.ast, SIGMA]))
    w1, w2, n = R.compare(scanner_ident, R.Lang.of(pr.tr(("seq", e[1][1:]))) & not_push)
    if w1 is None and w2 is None:
        ob("RE_IDENTIFIER", "identifier", w1, w2, n, ' (including the !"PUSH" guard)')
    else:
        # the constant does not carry the guard: then every place that scans an identifier has to implement it
        w1b, w2b, n = R.compare(scanner_ident & not_push, R.Lang.of(pr.tr(("seq", e[1][1:]))) & not_push)
        ob("RE_IDENTIFIER", "identifier", w1b, w2b, n, ' (modulo the !"PUSH" guard, which each use has to implement)')
        m = repo.mod(SCANNER)
        for c in ast.walk(m.tree):
            if isinstance(c, ast.Call) and ast.unparse(c.func) == "self.scan" and c.args and ast.unparse(c.args[0]) == "RE_IDENTIFIER":
                q = qualname_of(m, c)
                fn = repo.func(SCANNER, q)
                scans = [ast.unparse(x.args[0]) for x in ast.walk(fn) if isinstance(x, ast.Call) and ast.unparse(x.func) == "self.scan" and x.args and x.lineno <= c.lineno]
                guarded = "RE_PUSH" in scans and "RE_PUSH_LITERAL" in scans
                sig = 'an identifier is scanned without the !"PUSH" guard of the meta-grammar'
                check.oblige("TOKEN-LANG", f"{SCANNER}::{q}", 'the PUSH keywords are tried first (implements !"PUSH")' if guarded else sig, guarded,
                             finding=Finding("TOKEN-LANG", f"{SCANNER}::{q}", sig, f"{q} scans RE_IDENTIFIER, which accepts {w1 or w2!r}; identifier = @{{ !\"PUSH\" ~ ... }} does not: `PUSHY = {{ \"a\" }}` is accepted as a rule name", {"witness": w1 or w2}))
    term = repo.func(SCANNER, "Scanner.accept_terminal")
    order = [ast.unparse(c.args[0]) for c in ast.walk(term) if isinstance(c, ast.Call) and ast.unparse(c.func) == "self.scan" and c.args]
    seen = []
    for x in order:
        if x not in seen:
            seen.append(x)
    ok = "RE_IDENTIFIER" in seen and all(k in seen and seen.index(k) < seen.index("RE_IDENTIFIER") for k in ("RE_PUSH", "RE_PUSH_LITERAL"))
    check.oblige("TOKEN-LANG", f"{SCANNER}::Scanner.accept_terminal", "PUSH keywords are tried before RE_IDENTIFIER (implements !\"PUSH\")" if ok else "RE_IDENTIFIER is tried before the PUSH keywords", ok)
    # character: ' (escape | ANY) ' with ordered-choice semantics
    esc = pr.tr(rules["escape"][1])
    q = R.lit("'")
    lang_char = R.Lang.of(("cat", [q, esc, q])) | (R.Lang.of(("cat", [q, R.ANY, q])) & ~R.Lang.of(("cat", [q, esc, SIGMA])))
    a, looks = R.from_python(need("RE_CHAR"))
    w1, w2, n = R.compare(R.Lang.of(a), lang_char)
    ob("RE_CHAR", "character", w1, w2, n, " (ordered choice escape | ANY)")
    # literal keywords and doc openers
    for const, rule_or_lit in (("RE_PUSH", "PUSH"), ("RE_PUSH_LITERAL", "PUSH_LITERAL"), ("RE_GRAMMAR_DOC", "//!"), ("RE_RULE_DOC", "///"), ("RE_DROP", "DROP"), ("RE_POP", "POP"), ("RE_PEEK", "PEEK"), ("RE_POP_ALL", "POP_ALL"), ("RE_PEEK_ALL", "PEEK_ALL")):
        a, looks = R.from_python(need(const))
        w1, w2, n = R.compare(R.Lang.of(a), R.Lang.of(R.lit(rule_or_lit)))
        ob(const, repr(rule_or_lit), w1, w2, n)
    # whitespace
    a, _ = R.from_python(need("RE_WHITESPACE"))
    ws = pr.tr(rules["WHITESPACE"][1])
    w1, w2, n = R.compare(R.Lang.of(a), R.Lang.of(("cat", [ws, ("star", ws)])))
    ob("RE_WHITESPACE", "WHITESPACE+", w1, w2, n)
    # line comment opener: "//" not followed by "/" or "!"
    pat = need("RE_LINE_COMMENT")
    ok = pat.startswith("//(?!/|!)") or pat.startswith("//(?![/!])") or pat.startswith("//(?!!|/)")
    lc = rules["line_comment"][1]
    meta_ok = lc[0] == "seq" and lc[1][0] == ("str", "//") and lc[1][1][0] == "neg" and sorted(x[1] for x in lc[1][1][1][1]) == ["!", "/"]
    if not meta_ok:
        raise AnalysisError(f"{META}::line_comment changed shape")
    check.oblige("TOKEN-LANG", f"{SCANNER}::RE_LINE_COMMENT", 'line comments start with "//" not followed by "/" or "!"' if ok else 'RE_LINE_COMMENT does not exclude "///" and "//!"', ok)
    check.count("token_language_comparisons")


def keyword_shadowing(check: Check, repo: Repo, rules: dict, consts: dict) -> None:
    term = repo.func(SCANNER, "Scanner.accept_terminal")
    order = []
    for c in ast.walk(term):
        if isinstance(c, ast.Call) and ast.unparse(c.func) == "self.scan" and c.args:
            n = ast.unparse(c.args[0])
            if n not in order:
                order.append(n)
    if "RE_IDENTIFIER" not in order:
        raise AnalysisError("anchor vanished: RE_IDENTIFIER in accept_terminal")
    pr = P.Peg2Re(rules, META)
    e = rules["identifier"][1]
    ident = R.Lang.of(pr.tr(("seq", e[1][1:]))) & ~R.Lang.of(("cat", [R.lit("PUSH"), SIGMA]))
    before = order[: order.index("RE_IDENTIFIER")]
    keywords = [k for k in before if k not in ("RE_PUSH", "RE_PUSH_LITERAL")]
    for k in keywords:
        a, looks = R.from_python(consts[k])
        # identifiers w with a *proper* prefix claimed by k
        claimed = lang_with_lookahead(a, looks) & ~R.Lang.of(a) & ident
        w, n = R.witness(claimed)
        sig = f"{k} claims the first letters of longer identifiers"
        check.oblige("KEYWORD-SHADOW", f"{SCANNER}::{k}", f"{k} never claims a prefix of a longer identifier" if w is None else sig, w is None, sample=True,
                     finding=Finding("KEYWORD-SHADOW", f"{SCANNER}::{k}", sig, f"the identifier {w!r} is valid pest but {k} = {consts[k]!r} is tried first and matches its first letters", {"witness": w}))
        check.count("shadow_checks")
        check.count("product_states", n)
    for i, k1 in enumerate(before):
        for k2 in before[i + 1 :]:
            a1, l1 = R.from_python(consts[k1])
            a2, _ = R.from_python(consts[k2])
            w, n = R.witness(lang_with_lookahead(a1, l1) & ~R.Lang.of(a1) & R.Lang.of(a2))
            # k1 earlier: it must not claim a proper prefix of a k2 word; and k2 words that k1 fully matches are k1's
            sig = f"{k1} is tried before {k2} and claims a prefix of it"
            check.oblige("KEYWORD-SHADOW", f"{SCANNER}::{k1}", f"{k1} does not claim a prefix of {k2}" if w is None else sig, w is None,
                         finding=Finding("KEYWORD-SHADOW", f"{SCANNER}::{k1}", sig, f"{k2} word {w!r} is split by the earlier {k1}", {"witness": w}))
            check.count("shadow_checks")


def escape_tables(check: Check, repo: Repo, rules: dict, rule: str = "ESCAPE-TABLE", only: str | None = None) -> bool:
    """``only``: report just the categories containing this text (C11 takes the totality part, under its own rule name)."""
    # meta: escape = "\\" ~ ( "\"" | "\\" | "r" | "n" | "t" | "0" | "'" | code | unicode )
    e = rules["escape"][1]
    if not (e[0] == "seq" and e[1][0] == ("str", "\\") and e[1][1][0] == "choice"):
        raise AnalysisError(f"{META}::escape changed shape")
    meta_letters = set()
    for alt in e[1][1][1]:
        if alt[0] == "str":
            meta_letters.add(alt[1])
        elif alt == ("id", "code"):
            meta_letters.add("x")
        elif alt == ("id", "unicode"):
            meta_letters.add("u")
        else:
            raise AnalysisError(f"{META}::escape: unexpected alternative {alt}")
    # ---- the decoder on its model texts (DECODE, sa/unescsem.py) decides; the reading of the scanner's letter table
    # and of the decoder's if-chain further down is a second opinion behind it
    dec_ok = _decode_semantics(check, repo, rules, rule, only)
    if only is not None:
        return dec_ok
    check.second_opinion(lambda c: _escape_tables_structural(c, repo, meta_letters), "DECODE", dec_ok)
    return dec_ok


def _escape_tables_structural(check: Check, repo: Repo, meta_letters: set) -> None:
    esc_node = next((n for n in repo.mod(SCANNER).tree.body if isinstance(n, ast.Assign) and ast.unparse(n.targets[0]) == "ESCAPES"), None)
    if esc_node is None:
        raise AnalysisError(f"anchor vanished: {SCANNER}::ESCAPES")
    scanner_letters = set(ast.literal_eval(esc_node.value.args[0]))
    ok = scanner_letters == meta_letters
    check.oblige("ESCAPE-TABLE", f"{SCANNER}::ESCAPES", "ESCAPES = letters of the meta-grammar's escape rule" if ok else "ESCAPES differs from the meta-grammar's escape rule", ok,
                 finding=Finding("ESCAPE-TABLE", f"{SCANNER}::ESCAPES", "ESCAPES differs from the meta-grammar's escape rule", f"scanner-only {sorted(scanner_letters - meta_letters)}, meta-only {sorted(meta_letters - scanner_letters)}", {}))
    dec = repo.func(UNESCAPE, "_decode_escape_sequence")
    decoded: dict[str, str | None] = {}
    for n in ast.walk(dec):
        if isinstance(n, ast.If) and isinstance(n.test, ast.Compare) and ast.unparse(n.test.left) == "ch":
            comp = n.test.comparators[0]
            letters = []
            if isinstance(n.test.ops[0], ast.Eq) and isinstance(comp, ast.Constant):
                letters = [comp.value]
            elif isinstance(n.test.ops[0], ast.In) and isinstance(comp, (ast.Tuple, ast.List, ast.Set)):
                letters = [c.value for c in comp.elts if isinstance(c, ast.Constant)]
            ret = next((s for s in n.body if isinstance(s, ast.Return)), None)
            val = None
            if ret is not None and isinstance(ret.value, ast.Tuple):
                v0 = ret.value.elts[0]
                if isinstance(v0, ast.Constant):
                    val = v0.value
                elif isinstance(v0, ast.Name) and v0.id == "ch":
                    val = "<itself>"
            for le in letters:
                decoded[le] = val
    reach = scanner_letters  # only letters the scanner admits can reach the decoder
    missing = sorted(reach - set(decoded))
    check.oblige("ESCAPE-TABLE", f"{UNESCAPE}::_decode_escape_sequence", "every escape letter the scanner admits has a decoder branch" if not missing else f"escape letters without a decoder branch: {missing}", not missing,
                 finding=Finding("ESCAPE-TABLE", f"{UNESCAPE}::_decode_escape_sequence", f"escape letters without a decoder branch: {missing}", f"the scanner admits \\{missing} but _decode_escape_sequence rejects them", {}))
    want = {"n": "\n", "r": "\r", "t": "\t", "0": "\x00", "\\": "\\", '"': '"', "'": "'"}
    for le, v in want.items():
        got = decoded.get(le)
        ok = got == v or (got == "<itself>" and v == le)
        check.oblige("ESCAPE-TABLE", f"{UNESCAPE}::_decode_escape_sequence", f"\\{le} decodes to U+{ord(v):04X}" if ok else f"\\{le} decodes to {got!r} where pest defines U+{ord(v):04X}", ok, sample=le == "0")
        check.count("escape_values")


def _decode_semantics(check: Check, repo: Repo, rules: dict, rule: str, only: str | None) -> bool:
    # \u{...} digit counts: meta hex_digit{2, 6}; decoder range check
    uni = rules["unicode"][1]
    rep = next((x for x in uni[1] if x[0] == "rep"), None) if uni[0] == "seq" else None
    if rep is None:
        raise AnalysisError(f"{META}::unicode changed shape")
    lo, hi = rep[2], rep[3]
    code = rules["code"][1]
    rep2 = next((x for x in code[1] if x[0] == "rep"), None)
    if rep2 is None or not (rep2[2] == rep2[3] == 2):
        raise AnalysisError(f"{META}::code no longer takes exactly two hex digits")
    hd = P.Peg2Re(rules, META).single_set(("id", "hex_digit"))
    hexdigits = "".join(chr(c) for a, b in hd for c in range(a, b + 1))
    # the digit counts, the digit set and the digit values are decided on the decoder itself (DECODE, sa/unescsem.py)
    from ..unescsem import check_decoder

    construct = f"{UNESCAPE}::unescape_string"
    n, bad = check_decoder(repo, construct, lo, hi, hexdigits)
    if only is not None:
        bad = [(c, m) for c, m in bad if only in c]
    check.count("decoder_model_texts", n)
    check.oblige(rule, construct, f"\\x takes two and \\u{{}} {lo} to {hi} digits of meta.pest's hex_digit set, with their base-16 values ({n} model texts)" if not bad else f"{len(bad)} of {n} model texts are decoded wrongly (per category below)", True, sample=True)
    cats: dict[str, list[str]] = {}
    for cat, msg in bad:
        cats.setdefault(cat, []).append(msg)
    for cat, msgs in sorted(cats.items()):
        sig = f"unescape_string: {cat}"
        check.oblige(rule, construct, sig, False, sample=True, finding=Finding(rule, construct, sig, f"{sig}: e.g. {msgs[0]} ({len(msgs)} of {n} model texts)", {"witness": msgs[0]}))
    return not bad


def emitted_kinds(fn: ast.FunctionDef) -> set[str]:
    out = set()
    for n in ast.walk(fn):
        if isinstance(n, ast.Call) and ast.unparse(n.func) == "self.emit" and n.args:
            out.add(ast.unparse(n.args[0]).replace("TokenKind.", ""))
    return out


def dispatch(check: Check, repo: Repo) -> None:
    term_kinds = emitted_kinds(repo.func(SCANNER, "Scanner.accept_terminal")) | emitted_kinds(repo.func(SCANNER, "Scanner.accept_string")) | emitted_kinds(repo.func(SCANNER, "Scanner.accept_ci_string"))
    term_kinds |= {"LPAREN", "POSITIVE_PREDICATE", "NEGATIVE_PREDICATE"}
    starters = term_kinds - {"RPAREN", "RBRACKET", "LBRACKET", "INTEGER", "RANGE_OP"}
    pe = repo.func(PARSER, "Parser.parse_expression")
    arms = set()
    for n in ast.walk(pe):
        if isinstance(n, ast.Compare) and ast.unparse(n.left) == "left_kind" and isinstance(n.ops[0], ast.Eq):
            arms.add(ast.unparse(n.comparators[0]).replace("TokenKind.", ""))
    missing = sorted(starters - arms)
    check.oblige("DISPATCH", f"{PARSER}::Parser.parse_expression", "every token kind that can start a term has a dispatch arm" if not missing else f"token kinds without a dispatch arm: {missing}", not missing,
                 finding=Finding("DISPATCH", f"{PARSER}::Parser.parse_expression", f"token kinds without a dispatch arm: {missing}", f"the scanner emits {missing} in term position but parse_expression has no arm for them", {}))
    check.count("dispatch_kinds", len(starters))
    post_kinds = emitted_kinds(repo.func(SCANNER, "Scanner.accept_postfix_op")) - {"COMMA", "NUMBER", "RBRACE"}
    pp = repo.func(PARSER, "Parser.parse_postfix_expression")
    parms = set()
    for n in ast.walk(pp):
        if isinstance(n, ast.Compare) and ast.unparse(n.left) == "kind" and isinstance(n.ops[0], ast.Eq):
            parms.add(ast.unparse(n.comparators[0]).replace("TokenKind.", ""))
    missing = sorted(post_kinds - parms)
    check.oblige("DISPATCH", f"{PARSER}::Parser.parse_postfix_expression", "every postfix token kind has a dispatch arm" if not missing else f"postfix token kinds without a dispatch arm: {missing}", not missing)
    check.count("dispatch_kinds", len(post_kinds))


STRUCTURE = {
    # token kind -> constructor class that must build `left`
    "STRING": "String", "STRING_CI": "CIString", "LPAREN": "Group", "PUSH_LITERAL": "PushLiteral", "PUSH": "Push", "PEEK_ALL": "PeekAll",
    "POP": "Pop", "DROP": "Drop", "POP_ALL": "PopAll", "CHAR": "Range", "POSITIVE_PREDICATE": "PositivePredicate", "NEGATIVE_PREDICATE": "NegativePredicate",
}
POSTFIX_STRUCTURE = {"OPTION_OP": "Optional", "REPEAT_OP": "Repeat", "REPEAT_ONCE_OP": "RepeatOnce"}


def _arms(fn: ast.FunctionDef, var: str) -> dict[str, list[ast.stmt]]:
    out: dict[str, list[ast.stmt]] = {}
    for n in ast.walk(fn):
        if isinstance(n, ast.If) and isinstance(n.test, ast.Compare) and ast.unparse(n.test.left) == var and isinstance(n.test.ops[0], ast.Eq):
            out[ast.unparse(n.test.comparators[0]).replace("TokenKind.", "")] = n.body
    return out


def structure(check: Check, repo: Repo, rules: dict) -> None:
    """STRUCTURE: decided semantically (sa/tokparse.py): the token parser is evaluated from its syntax tree on every
    term form, operator, tag position, repetition form and infix arrangement, and on rule headers."""
    from ..tokparse import check_rules, check_structure

    construct = f"{PARSER}::Parser.parse_expression"
    for fn_, cons, what in ((check_structure, construct, "expressions"), (check_rules, f"{PARSER}::Parser.parse_rules", "rule headers")):
        n, bad = fn_(repo, cons)
        check.count("structure_entries", n)
        check.oblige("STRUCTURE", cons, f"on all {n} model {what} the tree built is the one the tokens denote" if not bad else f"{len(bad)} of {n} model {what} are built wrongly (per category below)", True, sample=True)
        cats: dict[str, list[str]] = {}
        for cat, msg in bad:
            cats.setdefault(cat, []).append(msg)
        for cat, msgs in sorted(cats.items()):
            sig = f"token parser: {cat}"
            check.oblige("STRUCTURE", cons, sig, False, sample=True, finding=Finding("STRUCTURE", cons, sig, f"{sig}: e.g. {msgs[0]} ({len(msgs)} of {n} model {what})", {"witness": msgs[0]}))


def skeleton(check: Check, repo: Repo, rules: dict) -> None:
    """Structural facts of the scanner's recursive descent vs term / postfix / slice productions."""
    term = rules["term"][1]
    want_term = ("seq", [("opt", ("id", "node_tag")), ("star", ("id", "prefix_operator")), ("id", "node"), ("star", ("id", "postfix_operator"))])
    if term != want_term:
        raise AnalysisError(f"{META}::term changed shape: the skeleton facts need re-derivation")
    at = repo.func(SCANNER, "Scanner.accept_term")
    src = ast.unparse(at)
    construct = f"{SCANNER}::Scanner.accept_term"

    def known(sig: str, ok: bool, good: str, msg: str) -> None:
        check.oblige("SYNTAX", construct, good if ok else sig, ok, sample=not ok, finding=Finding("SYNTAX", construct, sig, msg, {}))
        check.count("syntax_facts")

    # prefix_operator*: any mix of & and !, any number
    loops = [n for n in ast.walk(at) if isinstance(n, ast.While)]
    mixed = any("POSITIVE_PREDICATE" in ast.unparse(w) and "NEGATIVE_PREDICATE" in ast.unparse(w) for w in loops)
    known("prefix operators: a term takes one '&' or a run of '!' where the meta-grammar has prefix_operator*", mixed,
          "prefix operators form a free chain of & and !", "accept_term scans `&` once or `!`*, so `&!b`, `!&b` and `&&b` (valid: term = node_tag? ~ prefix_operator* ~ node ~ postfix_operator*) are rejected")
    # postfix_operator*: a loop in accept_postfix_op or around its call
    ap = repo.func(SCANNER, "Scanner.accept_postfix_op")
    outer_loop = any(isinstance(n, ast.While) and any(isinstance(s, (ast.If, ast.Assign, ast.Expr)) and "OPTION_OP" in ast.unparse(s) for s in n.body) for n in ast.walk(ap))
    known("postfix operators: at most one per term where the meta-grammar has postfix_operator*", outer_loop,
          "postfix operators form a chain", "accept_postfix_op scans a single operator, so `b*?` and `b+*` (valid pest) are rejected")
    pp = repo.func(PARSER, "Parser.parse_postfix_expression")
    ploop = any(isinstance(n, ast.While) for n in ast.walk(pp))
    known("token parser applies at most one postfix operator", ploop or not outer_loop, "token parser folds a chain of postfix operators", "parse_postfix_expression applies one postfix operator")
    # peek_slice is a normal rule: trivia between its tokens
    term_fn = repo.func(SCANNER, "Scanner.accept_terminal")
    peek_arm = None
    for n in ast.walk(term_fn):
        if isinstance(n, ast.If) and "RE_PEEK)" in ast.unparse(n.test):
            peek_arm = n
    if peek_arm is None:
        raise AnalysisError("anchor vanished: PEEK arm of accept_terminal")
    stmts = [ast.unparse(s) for s in peek_arm.body]
    first_skip = next((i for i, s in enumerate(stmts) if "skip_trivia" in s), None)
    brack = next((i for i, s in enumerate(stmts) if "LBRACKET" in s), None)
    ok = first_skip is not None and brack is not None and first_skip < brack
    check.oblige("SYNTAX", f"{SCANNER}::Scanner.accept_terminal", "trivia is allowed between PEEK and '['" if ok else "no trivia between PEEK and '[' where peek_slice (a normal rule) allows it", ok, sample=not ok,
                 finding=Finding("SYNTAX", f"{SCANNER}::Scanner.accept_terminal", "no trivia between PEEK and '[' where peek_slice (a normal rule) allows it", "`PEEK [1..]` is valid pest (peek_slice = { \"PEEK\" ~ opening_brack ~ ... } is not atomic) but the scanner requires '[' immediately after PEEK", {}))
    check.count("syntax_facts")
    # trivia after '..' inside the slice
    after_range = False
    seen_range = False
    for s in peek_arm.body:
        t = ast.unparse(s)
        if "RE_RANGE_OP" in t:
            seen_range = True
            continue
        if seen_range:
            after_range = "skip_trivia" in t and "RE_INTEGER" not in t.split("skip_trivia")[0]
            break
    check.oblige("SYNTAX", f"{SCANNER}::Scanner.accept_terminal", "trivia is allowed after '..' inside a PEEK slice" if after_range else "no trivia after '..' inside a PEEK slice", after_range, sample=not after_range,
                 finding=Finding("SYNTAX", f"{SCANNER}::Scanner.accept_terminal", "no trivia after '..' inside a PEEK slice", "`PEEK[1.. 2]` is valid pest but the scanner expects the integer (or ']') immediately after '..'", {}))
    check.count("syntax_facts")
    # insensitive_string = { "^" ~ string }: trivia between ^ and the string
    ci = ast.unparse(repo.func(SCANNER, "Scanner.accept_ci_string"))
    i_caret = ci.find("self.pos += 1")
    i_skip = ci.find("skip_trivia")
    ok = 0 <= i_caret < i_skip < ci.find("expected a string literal") if i_skip >= 0 else False
    check.oblige("SYNTAX", f"{SCANNER}::Scanner.accept_ci_string", "trivia is allowed between ^ and the string" if ok else "no trivia between ^ and the string where insensitive_string (a normal rule) allows it", ok, sample=not ok,
                 finding=Finding("SYNTAX", f"{SCANNER}::Scanner.accept_ci_string", "no trivia between ^ and the string where insensitive_string (a normal rule) allows it", "`^ \"x\"` is valid pest (insensitive_string = { \"^\" ~ string }) but the scanner requires the quote immediately after ^", {}))
    check.count("syntax_facts")
    # documentation comments may end the text without a newline
    for q in ("Scanner.scan_grammar_doc_inner", "Scanner.scan_rule_doc_inner"):
        fn = ast.unparse(repo.func(SCANNER, q))
        ok = "len(self.grammar)" in fn or "RE_NEWLINE_OR_END" in fn or "\\\\Z" in fn or "$" in fn
        check.oblige("SYNTAX", f"{SCANNER}::{q}", "a doc comment may end at the end of the text" if ok else "a doc comment must be followed by a newline", ok, sample=not ok,
                     finding=Finding("SYNTAX", f"{SCANNER}::{q}", "a doc comment must be followed by a newline", "inner_doc = @{ (!newline ~ ANY)* } may end at EOI, but scan_until(RE_NEWLINE) fails there and the comment text is re-scanned as a rule", {}))
        check.count("syntax_facts")
    # grammar_doc / line_doc = ${ marker ~ space? ~ inner_doc }: the optional space is not part of the doc text
    for q in ("Scanner.scan_grammar_doc_inner", "Scanner.scan_rule_doc_inner"):
        fn = repo.func(SCANNER, q)
        events: list[tuple[int, str]] = []
        for n in ast.walk(fn):
            if isinstance(n, ast.Call) and ast.unparse(n.func) == "self.next":
                events.append((n.lineno, "consume"))
            if isinstance(n, ast.AugAssign) and ast.unparse(n.target) == "self.pos":
                events.append((n.lineno, "consume"))
            if isinstance(n, ast.Assign) and ast.unparse(n.targets[0]) == "self.start" and ast.unparse(n.value) == "self.pos":
                events.append((n.lineno, "reset"))
            if isinstance(n, ast.Call) and ast.unparse(n.func) == "self.skip":
                events.append((n.lineno, "reset"))
            if isinstance(n, ast.Call) and ast.unparse(n.func) in ("self.scan_until", "self.emit"):
                events.append((n.lineno, "take"))
            if isinstance(n, ast.Subscript) and ast.unparse(n.value) == "self.grammar" and isinstance(n.slice, ast.Slice) and n.slice.lower is not None and ast.unparse(n.slice.lower) == "self.start":
                events.append((n.lineno, "take"))
        events.sort()
        pending = False
        bad = False
        for _ln, ev in events:
            if ev == "consume":
                pending = True
            elif ev == "reset":
                pending = False
            elif ev == "take" and pending:
                bad = True
        sig = "the optional space after the doc marker becomes part of the documentation text"
        check.oblige("SYNTAX", f"{SCANNER}::{q}", "the optional space after the marker is excluded from the doc text" if not bad else sig, not bad,
                     finding=Finding("SYNTAX", f"{SCANNER}::{q}", sig, "`/// hello` denotes the documentation \"hello\" (line_doc = ${ \"///\" ~ space? ~ inner_doc }); the scanner consumes the space but does not move `start`, so the text is \" hello\"", {}))
        check.count("syntax_facts")
    # expression = choice_operator? ~ term ~ (infix_operator ~ term)*
    ae = ast.unparse(repo.func(SCANNER, "Scanner.accept_expression"))
    ok = ae.count("self.accept_term()") == 3 and "CHOICE_OP" in ae and "SEQUENCE_OP" in ae and "while True" in ae
    check.oblige("SYNTAX", f"{SCANNER}::Scanner.accept_expression", "expression = leading '|'? term (infix term)*" if ok else "accept_expression changed shape", ok)
    check.count("syntax_facts")
    # rule = identifier = modifier? { expression }
    gr = ast.unparse(repo.func(SCANNER, "Scanner.scan_grammar_rule"))
    order = [gr.find(x) for x in ("RE_IDENTIFIER", "ASSIGN_OP", "RE_MODIFIER", "LBRACE", "self.accept_expression()", "RBRACE")]
    ok = all(o >= 0 for o in order) and order == sorted(order)
    check.oblige("SYNTAX", f"{SCANNER}::Scanner.scan_grammar_rule", "rule = identifier '=' modifier? '{' expression '}'" if ok else "scan_grammar_rule changed the order of a rule's parts", ok)
    check.count("syntax_facts")


def trivia_discipline(check: Check, repo: Repo, rules: dict) -> None:
    """TRIVIA: between any two tokens of a normal production the scanner skips trivia (typestate, sa/trivia_discipline.py)."""
    from ..trivia_discipline import SYNTACTIC, check_scanner

    # premise from the oracle: the productions these functions implement are normal (not @, $) rules
    for prod in ("grammar_rule", "expression", "term", "node", "terminal", "postfix_operator", "peek_slice", "range", "_push", "_push_literal"):
        r = rules.get(prod)
        if r is None:
            continue
        mod = r[0]
        check.count("trivia_premises")
        if "@" in mod or "$" in mod:
            raise AnalysisError(f"{META}: production {prod} became atomic; the trivia typestate no longer applies to it")
    cls = repo.cls(SCANNER, "Scanner")
    violations, summ, paths, doc_skips = check_scanner(cls, SCANNER)
    check.count("trivia_typestate_steps", paths)
    by_fn: dict[str, list] = {}
    for fname, what, text in violations:
        by_fn.setdefault(fname, []).append((what, text))
    for fname in SYNTACTIC:
        construct = f"{SCANNER}::Scanner.{fname}"
        bad = by_fn.get(fname, [])
        sig = "a token can be consumed directly after another without skipping trivia in a normal production"
        check.oblige("TRIVIA", construct, "on every non-error path trivia is skipped between consecutive tokens" if not bad else sig, not bad, sample=True,
                     finding=Finding("TRIVIA", construct, sig, f"Scanner.{fname}: {bad[0][0]} at `{bad[0][1]}` follows a consumed token with no skip_trivia() in between: `a  ~  b` style whitespace or a comment there is a syntax error although the meta-grammar allows it" if bad else sig, {"sites": [f"{w}: {t}" for w, t in bad[:6]]}))
    for fname in ("scan_grammar_doc_inner", "scan_rule_doc_inner"):
        construct = f"{SCANNER}::Scanner.{fname}"
        bad2 = fname in doc_skips
        sig = "trivia is skipped inside a compound-atomic documentation comment"
        check.oblige("TRIVIA", construct, "no trivia inside the compound-atomic doc comment" if not bad2 else sig, not bad2, finding=Finding("TRIVIA", construct, sig, f"Scanner.{fname} calls skip_trivia(): grammar_doc / line_doc are $ rules", {}))


def run(tier: str) -> Check:
    check = Check("C10", tier, EXPLANATION)
    check.rules = ["TOKEN-LANG", "KEYWORD-SHADOW (second opinion)", "ESCAPE-TABLE", "STRUCTURE", "FRONT-END", "DISPATCH (second opinion)", "SYNTAX (second opinion)", "TRIVIA (second opinion)"]
    repo = Repo()
    meta_text = repo.read(META)
    rules = P.read_pest(meta_text, META)
    if len(rules) < 60:
        raise AnalysisError(f"{META}: only {len(rules)} rules read")
    check.count("meta_rules", len(rules))
    check.notes.append("oracle digest " + hashlib.sha256(meta_text.encode()).hexdigest()[:16])
    check.assumptions = [
        "the oracle is tests/grammars/meta.pest as shipped; rule-level validation pest performs after parsing (duplicates, left recursion) is outside the property",
        "block comments (?R) and the extent of comment bodies are trivia, not compared as languages",
        "(d) is a set of structural facts derived by hand from the term/postfix/slice productions; a full extraction of the scanner's grammar is not performed",
        "decoded values beyond the escape table (cursor arithmetic) are C12's subject",
    ]
    consts = scanner_constants(repo)
    check.attempt(lambda: token_languages(check, repo, rules, consts))
    escape_tables(check, repo, rules)
    structure(check, repo, rules)
    front_ok = front_end(check, repo, tier)
    # KEYWORD-SHADOW reads the order of self.scan(RE_...) calls in accept_terminal; FRONT-END has every keyword with
    # every kind of continuation as a model text, whatever the dispatch looks like
    check.second_opinion(lambda c: keyword_shadowing(c, repo, rules, consts), "FRONT-END", front_ok)
    # structural readings of the scanner / token parser source: second opinions behind FRONT-END and STRUCTURE
    check.second_opinion(lambda c: dispatch(c, repo), "FRONT-END", front_ok)
    check.second_opinion(lambda c: skeleton(c, repo, rules), "FRONT-END", front_ok)
    check.second_opinion(lambda c: trivia_discipline(c, repo, rules), "FRONT-END", front_ok)
    check.floor("front_end_texts", 400)
    if not getattr(check, "deferred", []):
        check.floor("token_language_comparisons", 17)
    check.floor("structure_entries", 20)
    return check


def front_end(check: Check, repo: Repo, tier: str) -> bool:
    """FRONT-END (sa/frontsem.py): scanner and token parser together on model grammar texts, every case under
    five placements of trivia; malformed shapes end in a grammar error."""
    from ..frontsem import check_front_end

    construct = f"{SCANNER}::tokenize / {PARSER}::Parser.parse"
    n, bad = check_front_end(repo, "C10 FRONT-END", tier == "thorough")
    check.count("front_end_texts", n)
    check.oblige("FRONT-END", construct, f"on all {n} model grammar texts the front end builds the rule the text denotes (or refuses a malformed one with a grammar error)", True, sample=True)
    cats: dict[str, list[str]] = {}
    for cat, msg in bad:
        cats.setdefault(cat, []).append(msg)
    for cat, msgs in sorted(cats.items()):
        sig = f"front end: {cat}"
        check.oblige("FRONT-END", construct, sig, False, sample=True, finding=Finding("FRONT-END", construct, sig, f"{sig}: e.g. {msgs[0]} ({len(msgs)} of {n} model texts)", {"witness": msgs[0], "more": msgs[1:3]}))
    return not bad
