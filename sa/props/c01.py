"""C01 — generated module is observationally identical to the interpreter."""

from __future__ import annotations

from .. import gencheck, modcheck, ops
from ..core import Check
from .opsprop import fill

EXPLANATION = (
    "(a) compiles and imports: generate_module is walked statically (E1) for five representative rule tables "
    "(every trivia configuration; normal, silent, atomic, compound, non-atomic rules; EOI) and the assembled "
    "module skeleton must parse, resolve every global name (symtable) to a prelude import, a generated "
    "module-level name or a builtin, use names at import time only after their definition, and enumerate the same "
    "rules as closures, enum members and rule-map entries; every f-string hole of every template is classified "
    "(identifier / repr literal / int; a grammar-derived string spliced raw is a violation); generated identifier "
    "families must be injective and disjoint from the fixed names. (b) same tree / same furthest position: both "
    "siblings of every operator are path-enumerated against the same contract K and operator specification, the "
    "same terminals record a failure on the same abstract outcomes (FAIL-PARITY), patterns compiled for parse() "
    "and emitted by generate() agree in expression and flags (CONST-PARITY), Rule.parse / Rule skeletons agree per "
    "modifier mask and parse_trivia siblings per trivia configuration; DIFF: for every combinator, stack operator and plain terminal, parse() (evaluated from its syntax tree on a model ParserState) and the code skeleton of generate() are run against the same scripted child and trivia outcomes and must agree on result, position, user stack, pairs, tags and the order of attempts, with checkpoints closed and depth counters restored; GEN-DIFF: generate_rule() and generate_parse_trivia() are evaluated (with the repository's own Builder) on model rule tables - every rule modifier x body shape (reference, group, sequence, tagged reference) x modifier of the referenced rule x silent alias x trivia configuration - and the emitted closures must build the same tree of pairs, position, stacks and order of attempts as Rule.parse on the same table and leaf outcomes. (c) byte-identical regeneration: no "
    "nondeterministic or cross-call source in any generator function; a fresh Builder per rule; the Builder's "
    "name counter is unconditional."
)


def run(tier: str) -> Check:
    check = Check("C01", tier, EXPLANATION)
    check.rules = ["R1", "R2", "K2", "R5", "RAISE", "SPEC-*", "TERM", "RULE-*", "TRIVIA", "FAIL-PARITY", "SHAPE", "DELEGATE", "UNROLLED", "DIFF", "GEN-DIFF", "TERM-DIFF",
                   "SYNTAX", "MODULE", "MODULE-NAMES", "MODULE-ORDER", "MODULE-RULES", "MODULE-CLOSURE", "MODULE-ENTRY", "HYGIENE",
                   "NAME-COLLISION", "ENUM-NAMES", "CONST-PARITY", "DETERMINISM", "BUILDER"]
    check.assumptions = [
        "two implementations meeting the same obligations produce identical trees only if the primitives behave (trusted base) and the obligations are complete; failure label *texts* are not compared",
        "analysis is of the templates, not of emitted modules; a construct E1 cannot model stops the run (exit 2)",
        "regex VERSION0/VERSION1 is not treated as behaviour-relevant: the only patterns compiled under different versions are single \\p{...} classes",
    ]
    repo, rep = fill(check, tier, floors={"skeleton_variants": 45, "skeleton_paths": 120, "rule_skeleton_variants": 24, "trivia_skeleton_variants": 5, "diff_operators": 19, "diff_skeletons": 28, "diff_scripts": 230, "gen_diff_scenarios": 300})
    masks = ops.modifier_masks(repo)
    mods: list = []

    def modules() -> None:
        mods.extend(modcheck.module_skeletons(repo, masks))
        for label, sk, ents in mods:
            modcheck.check_module(check, label, sk, ents, repo)
        holes = list(rep.hygiene)
        for _, sk, _ in mods:
            holes.extend(sk.holes)
        gencheck.hygiene(check, holes)
        gencheck.naming(check, repo, mods)

    ok = check.attempt(modules)
    ok = check.attempt(lambda: gencheck.constant_parity(check, repo)) and ok
    ok = check.attempt(lambda: gencheck.determinism(check, repo)) and ok
    ok = check.attempt(lambda: gencheck.builder_contract(check, repo)) and ok
    if ok and not getattr(check, "deferred", []):
        check.floor("module_skeletons", 5)
        check.floor("template_holes", 300)
        check.floor("compiled_constant_pairs", 1)  # a vacuity guard: classes that share one compile site are a legitimate restructuring
        check.floor("generator_functions", 35)
    return check
