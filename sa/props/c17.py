"""C17 — bundled JSON and calculator languages vs independent references (necessary conditions)."""

from __future__ import annotations

import ast

from .. import pestlang as P
from .. import relang as R
from ..core import AnalysisError, Check, Finding
from ..prec import find_branches, lin_eval
from ..repo import Repo

PRATT_EX = "examples/calculator/pratt.py"
CLIMB = "examples/calculator/prec_climber.py"
GE_PEST = "examples/calculator/grammar_encoded_prec.pest"
GE_PY = "examples/calculator/grammar_encoded_prec.py"
CALC_PEST = "examples/calculator/calculator.pest"
JSON_A = "examples/json/json.pest"
JSON_B = "tests/grammars/json.pest"

EXPLANATION = (
    "Decided on the grammar files and the example code, under pest's semantics (that python-pest's engines implement "
    "those semantics is C03 / C04 / C01 / C02). CALC-SEM: each of the three bundled calculators, as written, is "
    "evaluated from its syntax tree on the tree of pairs the checker's reference reading of the calculator's own "
    ".pest file gives for every well-formed model expression (up to two / three operators, parenthesised operands, "
    "with and without blanks); _ast.py's evaluate() runs with symbolic operators, and the symbolic value - which "
    "function is applied to which operands in which grouping - must be the intended one (add, sub < mul, div < pow "
    "< neg < fac; ^ right; / = floordiv; ! = factorial): the three then agree for every assignment of the variables. "
    "CALC-PRATT: the Pratt calculator's tables as declared, through the library's parse_expr. JSON-TREE: both bundled "
    "JSON grammar files, read with the reference reading, accept every model RFC 8259 document (every scalar form in "
    "every context, arrays / objects of 0-3 entries nested to depth three, three whitespace styles) with a tree that "
    "mirrors it (nesting, order, raw number and string tokens) and reject every proper prefix. JSON-LEX: the lexical "
    "rules number and string contain the RFC 8259 regular definitions over all code points (shortest witness on "
    "failure). The readings of tables, loops and grammar shapes that decided these clauses before are second opinions."
)

WANT_ORDER = [{"add", "sub"}, {"mul", "div"}, {"pow"}, {"neg"}, {"fac"}]
WANT_ASSOC = {"add": "left", "sub": "left", "mul": "left", "div": "left", "pow": "right"}


def _rule_key(node: ast.AST) -> str:
    t = ast.unparse(node)
    return t.split(".")[-1].lower()


def pratt_tables(check: Check, repo: Repo) -> tuple[dict, dict]:
    c = repo.cls(PRATT_EX, "CalculatorParser")
    tables: dict[str, dict] = {}
    for n in c.body:
        if isinstance(n, ast.AnnAssign) and isinstance(n.value, ast.Dict):
            tables[ast.unparse(n.target)] = {_rule_key(k): v for k, v in zip(n.value.keys, n.value.values, strict=True)}
    for need in ("PREFIX_OPS", "POSTFIX_OPS", "INFIX_OPS"):
        if need not in tables:
            raise AnalysisError(f"anchor vanished: {PRATT_EX}::CalculatorParser.{need}")
    lib = repo.cls("src/pest/pratt.py", "PrattParser")
    consts = {ast.unparse(n.targets[0]): n.value.value for n in lib.body if isinstance(n, ast.Assign) and isinstance(n.value, ast.Constant)}
    prec: dict[str, int] = {}
    assoc: dict[str, str] = {}
    for k, v in tables["PREFIX_OPS"].items():
        prec[k] = ast.literal_eval(v)
    for k, v in tables["POSTFIX_OPS"].items():
        prec[k] = ast.literal_eval(v)
    for k, v in tables["INFIX_OPS"].items():
        if not (isinstance(v, ast.Tuple) and len(v.elts) == 2):
            raise AnalysisError(f"{PRATT_EX}: INFIX_OPS[{k}] is not a (precedence, assoc) pair")
        prec[k] = ast.literal_eval(v.elts[0])
        a = ast.unparse(v.elts[1]).split(".")[-1]
        right = consts.get(a) if a in consts else ast.literal_eval(v.elts[1])
        assoc[k] = "right" if right else "left"
    check.count("calculator_tables")
    return prec, assoc


def climber_tables(check: Check, repo: Repo) -> tuple[dict, dict]:
    m = repo.mod(CLIMB)
    enum = repo.cls(CLIMB, "Precedence")
    levels = {ast.unparse(n.targets[0]): n.value.value for n in enum.body if isinstance(n, ast.Assign) and isinstance(n.value, ast.Constant)}
    prec_tbl = next((n for n in m.tree.body if isinstance(n, ast.AnnAssign) and ast.unparse(n.target) == "PRECEDENCES"), None)
    if prec_tbl is None or not isinstance(prec_tbl.value, ast.Dict):
        raise AnalysisError(f"anchor vanished: {CLIMB}::PRECEDENCES")
    prec: dict[str, int] = {}
    for k, v in zip(prec_tbl.value.keys, prec_tbl.value.values, strict=True):
        prec[_rule_key(k)] = levels[ast.unparse(v).split(".")[-1]]
    # prefix precedence: the bound passed by parse_prefix_expression
    pp = repo.func(CLIMB, "parse_prefix_expression")
    call = next((n for n in ast.walk(pp) if isinstance(n, ast.Call) and ast.unparse(n.func) == "parse_expr" and len(n.args) == 2), None)
    if call is None:
        raise AnalysisError(f"{CLIMB}::parse_prefix_expression: operand call not found")
    prec["neg"] = levels[ast.unparse(call.args[1]).split(".")[-1]]
    # effective associativity by the pairing rule
    pe = repo.func(CLIMB, "parse_expr")
    min_param, br, loop = find_branches(pe, {"postfix": "POSTFIX_OPERATORS", "infix": "INFIX_OPERATORS"}, "parse_expr", ("pairs.next",), prec_table="PRECEDENCES")
    construct = f"{CLIMB}::parse_expr"
    for role in ("postfix", "infix"):
        b = br.get(role)
        ok = b is not None and b.guard_idx is not None and b.consume_idx is not None and b.guard_idx < b.consume_idx and b.guard_op == "Lt" and bool(b.reads)
        check.oblige("CLIMB-LOOP", construct, f"{role} operators are folded only while their precedence is >= the current level, tested before they are consumed" if ok else f"{role} operators are consumed without the `precedence < level -> stop` test", ok, sample=True,
                     finding=Finding("CLIMB-LOOP", construct, f"{role} operators are consumed without the `precedence < level -> stop` test", f"parse_expr: the {role} branch does not compare PRECEDENCES[...] with {min_param} before consuming the operator", {}))
    ok = loop is not None and br.get("postfix") is not None and br.get("infix") is not None and all(any(x is s for s in ast.walk(loop)) for x in (br["postfix"].body[0], br["infix"].body[0]))
    check.oblige("CLIMB-LOOP", construct, "postfix and infix operators are folded in one loop (an infix operator may follow a postfix one)" if ok else "postfix and infix operators are handled by separate loops", ok)
    pi = repo.func(CLIMB, "parse_infix_expression")
    # abstractly run the straight-line prefix of parse_infix_expression for both associativity classes
    offs: dict[str, tuple | None] = {}
    right_set = next((n for n in m.tree.body if isinstance(n, ast.Assign) and ast.unparse(n.targets[0]) == "RIGHT_ASSOCIATIVE_OPERATORS"), None)
    right_ops = {_rule_key(e) for e in ast.walk(right_set.value) if isinstance(e, ast.Attribute)} if right_set is not None else set()
    for cls_ in ("right", "left"):
        env: dict = {}
        bound = None
        for s in pi.body:
            if isinstance(s, ast.Assign) and isinstance(s.targets[0], ast.Name) and "PRECEDENCES" in ast.unparse(s.value):
                env[s.targets[0].id] = (1, 0)
            elif isinstance(s, ast.If) and "RIGHT_ASSOCIATIVE_OPERATORS" in ast.unparse(s.test):
                t = ast.unparse(s.test)
                member = cls_ == "right"
                truth = (not member) if " not in " in t else member
                for st in (s.body if truth else s.orelse):
                    if isinstance(st, ast.AugAssign) and isinstance(st.target, ast.Name) and st.target.id in env and isinstance(st.value, ast.Constant):
                        d = st.value.value if isinstance(st.op, ast.Add) else -st.value.value
                        env[st.target.id] = (env[st.target.id][0], env[st.target.id][1] + d)
            elif isinstance(s, ast.Assign) and isinstance(s.value, ast.Call) and ast.unparse(s.value.func) == "parse_expr" and len(s.value.args) == 2:
                a = s.value.args[1]
                if isinstance(a, ast.Name) and a.id in env:
                    bound = env[a.id]
                else:
                    pv = next(iter(env), None)
                    bound = lin_eval(a, {pv: "P"}) if pv else None
        offs[cls_] = bound
    ok = offs == {"right": (1, 0), "left": (1, 1)}
    check.oblige("CLIMB-ASSOC", f"{CLIMB}::parse_infix_expression", "the right operand is parsed at prec for right-associative and prec + 1 for left-associative operators" if ok else f"recursion bounds {offs} do not pair with the `<` loop test: operators do not group as declared", ok, sample=True,
                 finding=Finding("CLIMB-ASSOC", f"{CLIMB}::parse_infix_expression", "recursion bound does not pair with the loop test for the declared associativity", f"parse_infix_expression recurses with offsets {offs} (expected right: prec, left: prec + 1 under a `<` exit test): e.g. 1 - 2 - 3 groups to the right", {}))
    assoc = {k: ("right" if k in right_ops else "left") for k in ("add", "sub", "mul", "div", "pow")} if ok else {k: "unknown" for k in ("add", "sub", "mul", "div", "pow")}
    check.count("calculator_tables")
    return prec, assoc


def grammar_tables(check: Check, repo: Repo) -> tuple[dict, dict]:
    rules = P.read_pest(repo.read(GE_PEST), GE_PEST)
    chain = ["add_sub", "mul_div", "pow_expr", "prefix", "postfix", "primary"]
    for a, b in zip(chain, chain[1:], strict=False):
        if a not in rules:
            raise AnalysisError(f"anchor vanished: {GE_PEST}::{a}")
        body = rules[a][1]
        first = body[1][0] if body[0] == "seq" else body
        refs = [x for x in _ids(body)]
        ok = b in refs
        check.oblige("GRAMMAR-LEVELS", f"{GE_PEST}::{a}", f"{a} is built from {b}" if ok else f"{a} no longer descends to {b}", ok)
    ops_of = {"add_sub": "add_op", "mul_div": "mul_op", "pow_expr": "pow_op"}
    prec: dict[str, int] = {}
    assoc: dict[str, str] = {}
    for lvl, (rname, opname) in enumerate(ops_of.items()):
        ops = [x for x in _ids(rules[opname][1])]
        body = rules[rname][1]
        shape = None
        if body[0] == "seq" and len(body[1]) == 2:
            head, tail = body[1]
            if tail[0] == "star" and tail[1][0] == "seq" and tail[1][1][0] == ("id", opname) and tail[1][1][1] == head:
                shape = "fold"
            if tail[0] == "opt" and tail[1][0] == "seq" and tail[1][1][0] == ("id", opname) and tail[1][1][1] == ("id", rname):
                shape = "right"
        for o in ops:
            prec[o] = lvl
            assoc[o] = {"fold": "left-if-folded-left", "right": "right", None: "unknown"}[shape]
    # prefix = neg* ~ postfix ; postfix = primary ~ fac*
    pre = rules["prefix"][1]
    post = rules["postfix"][1]
    ok = pre[0] == "seq" and pre[1][0] == ("star", ("id", "neg")) and pre[1][1] == ("id", "postfix") and post[0] == "seq" and post[1][0] == ("id", "primary") and post[1][1] == ("star", ("id", "fac"))
    check.oblige("GRAMMAR-LEVELS", f"{GE_PEST}::prefix/postfix", "prefix = neg* ~ postfix and postfix = primary ~ fac* (factorial binds tighter than negation, both tighter than ^)" if ok else "prefix/postfix rules changed shape", ok)
    prec["neg"], prec["fac"] = 3, 4
    # the walker folds the starred levels to the left
    for fname in ("parse_add_sub_inner", "parse_mul_div_inner"):
        fn = repo.mod(GE_PY).functions().get(fname)
        if fn is None:
            raise AnalysisError(f"anchor vanished: {GE_PY}::{fname}")
        src = ast.unparse(fn)
        params = [a.arg for a in fn.args.args]
        rec = [n for n in ast.walk(fn) if isinstance(n, ast.Call) and ast.unparse(n.func) == fname]
        left_fold = bool(rec) and all(isinstance(c.args[0], (ast.Call, ast.Name)) and ("InfixExpr" in ast.unparse(c.args[0]) or _assigned_from_infix(fn, c.args[0])) and params[0] in _infix_args(fn) for c in rec)
        check.oblige("GRAMMAR-LEVELS", f"{GE_PY}::{fname}", "the walker folds (op, operand) pairs into the left operand" if left_fold else "the walker does not fold to the left", left_fold)
        if left_fold:
            lvl_ops = {"parse_add_sub_inner": ("add", "sub"), "parse_mul_div_inner": ("mul", "div")}[fname]
            for o in lvl_ops:
                if assoc.get(o) == "left-if-folded-left":
                    assoc[o] = "left"
        _ = src
    check.count("calculator_tables")
    return prec, assoc


def _ids(e) -> list[str]:
    out = []
    if isinstance(e, tuple):
        if e and e[0] == "id":
            out.append(e[1])
        for x in e[1:]:
            out.extend(_ids(x))
    elif isinstance(e, list):
        for x in e:
            out.extend(_ids(x))
    return out


def _assigned_from_infix(fn: ast.FunctionDef, node: ast.AST) -> bool:
    if not isinstance(node, ast.Name):
        return False
    return any(isinstance(a, ast.Assign) and ast.unparse(a.targets[0]) == node.id and "InfixExpr" in ast.unparse(a.value) for a in ast.walk(fn))


def _infix_args(fn: ast.FunctionDef) -> str:
    return " ".join(ast.unparse(c) for c in ast.walk(fn) if isinstance(c, ast.Call) and ast.unparse(c.func) == "InfixExpr")


def order_of(prec: dict[str, int]) -> list[set]:
    levels: dict[int, set] = {}
    for k, v in prec.items():
        levels.setdefault(v, set()).add(k)
    return [levels[k] for k in sorted(levels)]


def pratt_calculator(check: Check, repo: Repo) -> bool:
    """CALC-PRATT: the Pratt calculator as declared - its class body evaluated, aliases and all - run through the
    library's loop on every well-formed stream of up to three of its operators (sa/prattsem.py)."""
    from ..prattsem import check_calculator

    n, bad = check_calculator(repo, PRATT_EX, "CalculatorParser", "C17 CALC-PRATT")
    check.count("pratt_calculator_streams", n)
    check.oblige("CALC-PRATT", PRATT_EX, f"on all {n} model streams the Pratt calculator builds the tree its intended order and associativity denote", True, sample=True)
    cats: dict[str, list[str]] = {}
    for cat, msg in bad:
        cats.setdefault(cat, []).append(msg)
    for cat, msgs in sorted(cats.items()):
        check.oblige("CALC-PRATT", PRATT_EX, cat, False, sample=True, finding=Finding("CALC-PRATT", PRATT_EX, cat, f"{cat}: e.g. {msgs[0]} ({len(msgs)} of {n} model streams); the three calculators then disagree", {"witness": msgs[0]}))
    return not bad


def _table_levels(check: Check, name: str, prec: dict, assoc: dict) -> None:
    construct = {"pratt": PRATT_EX, "prec_climber": CLIMB, "grammar_encoded": GE_PEST}[name]
    got = order_of({k: v for k, v in prec.items() if k in ("add", "sub", "mul", "div", "pow", "neg", "fac")})
    ok = got == WANT_ORDER
    check.oblige("CALC-LEVELS", construct, "levels: add,sub < mul,div < pow < neg < fac" if ok else f"operator levels are {got}", ok, sample=True,
                 finding=Finding("CALC-LEVELS", construct, "operator levels differ from add,sub < mul,div < pow < neg < fac", f"{name}: levels {got}; the three calculators would disagree", {}))
    for op, want in WANT_ASSOC.items():
        ok = assoc.get(op) == want
        check.oblige("CALC-ASSOC", construct, f"{op} is {want}-associative" if ok else f"{op} is {assoc.get(op)}-associative where {want} is documented", ok,
                     finding=Finding("CALC-ASSOC", construct, f"{op} is not {want}-associative", f"{name}: {op} groups {assoc.get(op)}; the documented table and the other calculators say {want}", {}))
    check.count("calculator_implementations")


def calc_sem(check: Check, repo: Repo) -> bool:
    """CALC-SEM: each of the three calculators, as written - tree builder and `evaluate()` - on the tree of pairs
    the reference reading of its own grammar file gives for every model expression, with symbolic operators
    (sa/calcsem.py): the three must compute the intended symbolic value."""
    from ..calcsem import check as calc_check

    counts, bad = calc_check(repo, "C17 CALC-SEM", 2 if check.tier == "quick" else 3)
    for rel, n in counts.items():
        check.count("calculator_sem_points", n)
        check.count("calculator_sem_implementations")
        mine = [b for b in bad if b[0] == rel]
        if not mine:
            check.oblige("CALC-SEM", rel, f"on all {n} model expressions (text read through the calculator's own grammar file, tree built and evaluated by the example as written, operators symbolic) the value is the intended one", True, sample=True)
    cats: dict[tuple[str, str], list[str]] = {}
    for rel, cat, msg in bad:
        cats.setdefault((rel, cat), []).append(msg)
    for (rel, cat), msgs in sorted(cats.items()):
        check.oblige("CALC-SEM", rel, cat, False, sample=True, finding=Finding("CALC-SEM", rel, cat, f"{cat}: e.g. {msgs[0]} ({len(msgs)} model expressions); the three calculators then disagree with each other or with the reference", {"witness": msgs[0]}))
    return not bad


def _calc_pest_classes(check: Check, repo: Repo) -> None:
    rules = P.read_pest(repo.read(CALC_PEST), CALC_PEST)
    ok = set(_ids(rules["infix"][1])) == {"add", "sub", "mul", "div", "pow"} and _ids(rules["prefix"][1]) == ["neg"] and _ids(rules["postfix"][1]) == ["fac"]
    check.oblige("CALC-LEVELS", CALC_PEST, "calculator.pest: infix = add|sub|mul|div|pow, prefix = neg, postfix = fac" if ok else "calculator.pest operator classes changed", ok)


def calculators(check: Check, repo: Repo) -> None:
    pratt_ok = pratt_calculator(check, repo)
    sem_ok = calc_sem(check, repo)
    # the readings of the examples' tables, loops and grammar shapes are second opinions behind the rules that evaluate them
    check.second_opinion(lambda c: _table_levels(c, "pratt", *pratt_tables(c, repo)), "CALC-PRATT", pratt_ok)
    check.second_opinion(lambda c: _table_levels(c, "prec_climber", *climber_tables(c, repo)), "CALC-SEM", sem_ok)
    check.second_opinion(lambda c: _table_levels(c, "grammar_encoded", *grammar_tables(c, repo)), "CALC-SEM", sem_ok)
    check.second_opinion(lambda c: _calc_pest_classes(c, repo), "CALC-SEM", sem_ok)


# ----------------------------------------------------------------------------- JSON
def rfc_number():
    digit = R.chars(("0", "9"))
    nz = R.chars(("1", "9"))
    int_ = ("alt", [R.lit("0"), ("cat", [nz, ("star", digit)])])
    frac = ("cat", [R.lit("."), digit, ("star", digit)])
    exp = ("cat", [R.chars("e", "E"), ("opt", R.chars("+", "-")), digit, ("star", digit)])
    return ("cat", [("opt", R.lit("-")), int_, ("opt", frac), ("opt", exp)])


def rfc_string():
    unescaped = ("set", R.norm([(0x20, 0x21), (0x23, 0x5B), (0x5D, R.MAXCP)]))
    hexd = R.chars(("0", "9"), ("a", "f"), ("A", "F"))
    esc = ("cat", [R.lit("\\"), ("alt", [R.chars('"', "\\", "/", "b", "f", "n", "r", "t"), ("cat", [R.lit("u"), hexd, hexd, hexd, hexd])])])
    return ("cat", [R.lit('"'), ("star", ("alt", [unescaped, esc])), R.lit('"')])


def json_grammars(check: Check, repo: Repo) -> None:
    for rel in (JSON_A, JSON_B):
        rules = P.read_pest(repo.read(rel), rel)
        pr = P.Peg2Re(rules, rel)
        for rule, ref, label in (("number", rfc_number(), "RFC 8259 number"), ("string", rfc_string(), "RFC 8259 string")):
            if rule not in rules:
                raise AnalysisError(f"anchor vanished: {rel}::{rule}")
            try:
                got = pr.tr(rules[rule][1])
            except P.NotRegular as e:
                check.notes.append(f"{rel}::{rule}: not regular-translatable ({e}); instance not claimed")
                check.count("declined_lexical_rules")
                continue
            w, n = R.witness(R.Lang.of(ref) & ~R.Lang.of(got))
            ok = w is None
            check.oblige("JSON-LEX", f"{rel}::{rule}", f"{label} is contained in L({rule})" if ok else f"an {label} is rejected by {rule}", ok, sample=True,
                         finding=Finding("JSON-LEX", f"{rel}::{rule}", f"an {label} is rejected by {rule}", f"{rel}: {rule} does not match the {label} {w!r}", {"witness": w, "product_states": n}))
            check.count("json_lexical_inclusions")
            check.count("product_states", n)
        tree_ok = json_tree(check, repo, rel)
        # the readings of the grammar's shape are second opinions behind JSON-TREE, which reads the documents
        check.second_opinion(lambda c, rules=rules, pr=pr, rel=rel: _json_shapes(c, rules, pr, rel), "JSON-TREE", tree_ok)


def json_tree(check: Check, repo: Repo, rel: str) -> bool:
    """JSON-TREE: the grammar file, read with the checker's reference reading of pest's semantics, accepts every
    document of the model family, yields a tree that mirrors it, and rejects every proper prefix (sa/jsonsem.py)."""
    from ..jsonsem import check as json_check

    counts, bad = json_check(repo, rel, check.tier)
    check.count("json_documents", counts["documents"])
    check.count("json_prefixes", counts["prefixes"])
    if not bad:
        check.oblige("JSON-TREE", f"{rel}::json", f"all {counts['documents']} model documents are accepted with a tree that mirrors them; all {counts['prefixes']} proper prefixes are rejected", True, sample=True)
    cats: dict[str, list[str]] = {}
    for cat, msg in bad:
        cats.setdefault(cat, []).append(msg)
    for cat, msgs in sorted(cats.items()):
        check.oblige("JSON-TREE", f"{rel}::json", cat, False, sample=True, finding=Finding("JSON-TREE", f"{rel}::json", cat, f"{rel}: {cat}: e.g. {msgs[0][:300]} ({len(msgs)} of {counts['documents']} model documents)", {"witness": msgs[0][:600]}))
    return not bad


def _json_shapes(check: Check, rules: dict, pr, rel: str) -> None:  # noqa: ANN001
    val = rules.get("value")
    if val is None:
        raise AnalysisError(f"anchor vanished: {rel}::value")
    alts = set(_ids(val[1]))
    want = {"object", "array", "string", "number", "null"}
    ok = want <= alts and (("boolean" in alts) or ("bool" in alts))
    check.oblige("JSON-LEX", f"{rel}::value", "value lists object, array, string, number, boolean, null" if ok else f"value alternatives are {sorted(alts)}", ok)
    top = rules.get("json")
    ids = _ids(top[1]) if top else []
    ok = top is not None and ids[:1] == ["SOI"] and ids[-1:] == ["EOI"]
    check.oblige("JSON-LEX", f"{rel}::json", "the top rule is anchored SOI ... EOI (proper prefixes are rejected)" if ok else "the top rule is not anchored with SOI and EOI", ok)
    body = rules.get("null")
    ok = body is not None and body[1] == ("str", "null")
    check.oblige("JSON-LEX", f"{rel}::null", "null is the literal null" if ok else "null rule changed", ok)
    brule = rules.get("boolean") or rules.get("bool")
    ok = brule is not None and brule[1] == ("choice", [("str", "true"), ("str", "false")])
    check.oblige("JSON-LEX", f"{rel}::boolean", 'boolean = "true" | "false"' if ok else "boolean rule changed", ok)
    ws = rules.get("WHITESPACE")
    wset = pr.single_set(ws[1]) if ws else None
    ok = wset == ((9, 10), (13, 13), (32, 32))
    check.oblige("JSON-LEX", f"{rel}::WHITESPACE", "WHITESPACE = space, tab, LF, CR (RFC 8259 ws)" if ok else f"WHITESPACE denotes {wset}", ok)


def run(tier: str) -> Check:
    check = Check("C17", tier, EXPLANATION)
    check.rules = ["CALC-PRATT", "CALC-SEM", "JSON-TREE", "CALC-LEVELS", "CALC-ASSOC", "CLIMB-LOOP", "CLIMB-ASSOC", "GRAMMAR-LEVELS", "JSON-LEX", "PRATT", "P1", "P2", "P3", "P4", "P5", "STREAM"]
    check.assumptions = [
        "that python-pest's four execution modes implement pest's semantics on these grammars is decided by C03 / C04 / C01 / C02, not here; the reference reading (sa/pegref.py) is the specification side",
        "model families: one representative per kind (scalar form x context, entry counts 0-3, nesting to depth three, whitespace style; streams of up to three operators)",
        "RFC 8259 number/string ABNF is frozen in the checker as reference regular expressions",
        "the precedence table documented in grammar_encoded_prec.pest's header is the reference order",
    ]
    repo = Repo()
    calculators(check, repo)
    json_grammars(check, repo)
    # examples/calculator/pratt.py delegates the loop to the library's PrattParser: its rules are part of the agreement
    from .c18 import pratt_rules

    pratt_rules(check, repo, (0, -4))  # (the family shifted around zero as well is C18's)
    check.floor("calculator_sem_implementations", 3)
    check.floor("calculator_sem_points", 300)
    check.floor("pratt_calculator_streams", 300)
    check.floor("json_lexical_inclusions", 3)
    check.floor("json_documents", 1500)
    check.floor("json_prefixes", 10000)
    return check
