"""C07 — parse() is total and deterministic."""

from __future__ import annotations

import ast
import re

from ..core import AnalysisError, Check, Finding
from ..escape_props import escape_engine, run_entry
from .opsprop import fill

EXPLANATION = (
    "Interpreter: exception-escape analysis from Parser.parse over the resolved call graph (through every "
    "Expression.parse override, ParserState, Stack, PestParsingError.__init__): nothing but PestParsingError may "
    "escape; the documented KeyError for an unknown start rule / undefined rule reference is outside the "
    "property's quantifier. Generated code: every operator skeleton is path-enumerated with ParserState/Stack "
    "helpers inlined — no path may raise (RAISE), every local read is definitely assigned (R5: no "
    "UnboundLocalError), every result is a definite bool — and every runtime helper the templates call "
    "(ParserState / Stack / SnapshottingInt methods named in the skeletons) is an escape-analysis entry with an "
    "empty allowed set. Determinism as a structural condition: no nondeterministic source in the matching code and "
    "no parse-time write to state that survives the call (shared with C15)."
)

NONDET = {"random", "time", "datetime", "uuid", "secrets", "os", "threading"}


def recursion_shape(check: Check, repo, esc) -> None:  # noqa: ANN001
    """RECURSION-SHAPE: the property grants parse() a recursion budget for the *nesting* of the input - recursion that
    descends in the grammar: an expression calls a child expression, a reference calls the rule it names.  A cycle of
    the call graph that reaches parse() and does not pass through such a descending call (a method calling itself on
    the same receiver, helpers calling each other) recurses once per *item* of the input - per comment, per stack
    entry, per repetition - and overflows the interpreter stack on a long, flat input.

    Descending calls: calls of a method of an Expression class on a receiver other than `self` / `super()` (a child, a
    rule looked up by name, a trivia rule held by the state).  They are removed from the reachable call graph; any
    cycle that is left is reported."""
    import re as _re

    from ..escape import _on_cycle

    entry = "src/pest/parser.py::Parser.parse"
    if entry not in esc.funcs:
        raise AnalysisError(f"anchor vanished: entry point {entry}")
    reach = {entry}
    work = [entry]
    graph: dict[str, list[str]] = {}
    n_desc = 0
    while work:
        k = work.pop()
        f = esc.funcs[k]
        outs: list[str] = []
        for keys, _handlers, text in f.calls:
            dm = _re.match(r"\s*__\w+__\((.*)\)\s*$", text, _re.S)  # str(x) / len(x) / x + y are recorded as __str__(x) ...
            if dm:
                same_node = dm.group(1).strip() == "self"
            else:
                same_node = bool(_re.match(r"\s*(self|super\(\))\.\w+\(", text)) or not _re.match(r"\s*[\w.\[\]()'\"]+\.\w+\(", text)
            for c in keys:
                if c not in esc.funcs:
                    continue
                ccls = esc.funcs[c].cls
                descending = ccls is not None and repo.is_subclass(ccls, "Expression") and not same_node
                if descending:
                    n_desc += 1
                else:
                    outs.append(c)
                if c not in reach:
                    reach.add(c)
                    work.append(c)
        for c in esc.address_taken(f):
            if c in esc.funcs:
                outs.append(c)
                if c not in reach:
                    reach.add(c)
                    work.append(c)
        graph[k] = outs
    cyc = _on_cycle({k: [c for c in v if c in reach] for k, v in graph.items()})
    check.count("recursion_shape_functions", len(reach))
    check.count("recursion_descending_calls", n_desc)
    for k in sorted(cyc):
        sig = "recursion that does not descend in the grammar: its depth grows with the length of the input, not with its nesting"
        mates = sorted(c for c in graph.get(k, []) if c in cyc)
        check.oblige("RECURSION-SHAPE", k, sig, False, finding=Finding("RECURSION-SHAPE", k, sig, f"{k.split('::')[-1]} is on a call-graph cycle reachable from Parser.parse that passes through no call of a child expression or referenced rule (it calls {', '.join(m.split('::')[-1] for m in mates)}): a long flat input (many comments, many stack entries, many iterations) raises RecursionError where the property grants a budget for nesting only", {"cycle": mates}))
    check.oblige("RECURSION-SHAPE", entry, f"every call-graph cycle reachable from parse() passes through a descending call ({n_desc} descending call edges removed, {len(reach)} functions)", not cyc) if not cyc else None


def run(tier: str) -> Check:
    check = Check("C07", tier, EXPLANATION)
    check.rules = ["ESCAPE", "ESCAPE-RUNTIME", "RECURSION-SHAPE", "RAISE", "R5", "RESULT", "NONDET", "PATTERN"]
    repo, rep = fill(check, tier, floors={"skeleton_paths": 120, "parse_paths": 120})
    esc = escape_engine(repo)
    check.assumptions = [
        "termination is not decided (the property itself excludes empty-matching repetition bodies and left recursion); recursion depth is outside the analysis",
        "mypy receiver types " + ("available" if esc.types.available else "UNAVAILABLE: name-based receiver fallback in use"),
        "Stack.pop/peek raise on an empty stack by design: their call paths from operators are enumerated per entry stack by the path-sensitive engine (RAISE), not by the path-insensitive escape analysis",
    ]
    total, _ = run_entry(check, repo, "src/pest/parser.py::Parser.parse", {"PestParsingError"}, "ESCAPE")
    check.count("escaping_sites_examined", total)
    recursion_shape(check, repo, esc)
    # runtime helpers named by the templates
    helpers: set[str] = set()
    for _label, sk in rep.skeleton_sources:
        for m in re.finditer(r"state\.(user_stack|rule_stack|atomic_depth|tag_stack)\.(\w+)\(", sk.source):
            cls = {"user_stack": ("src/pest/stack.py", "Stack"), "rule_stack": ("src/pest/stack.py", "Stack"), "atomic_depth": ("src/pest/checkpoint_int.py", "SnapshottingInt")}.get(m.group(1))
            if cls:
                helpers.add(f"{cls[0]}::{cls[1]}.{m.group(2)}")
        for m in re.finditer(r"state\.(\w+)\(", sk.source):
            helpers.add(f"src/pest/state.py::ParserState.{m.group(1)}")
    helpers |= {"src/pest/state.py::ParserState.__init__", "src/pest/exceptions.py::PestParsingError.__init__", "src/pest/pairs.py::Pairs.__init__", "src/pest/pairs.py::Pair.__init__",
                "src/pest/checkpoint_int.py::SnapshottingInt.__add__", "src/pest/checkpoint_int.py::SnapshottingInt.__gt__", "src/pest/stack.py::Stack.__iter__", "src/pest/stack.py::Stack.__len__"}
    exempt = {
        "src/pest/stack.py::Stack.pop": "raises on an empty stack by design; call paths enumerated by RAISE",
        "src/pest/stack.py::Stack.peek": "raises on an empty stack by design; call paths enumerated by RAISE",
    }
    for h in sorted(helpers):
        if h not in esc.funcs:
            continue
        check.count("runtime_helper_entries")
        t, _ = run_entry(check, repo, h, set(), "ESCAPE-RUNTIME", exempt_funcs=exempt)
        check.count("escaping_sites_examined", t)
    # nondeterministic sources in the matching code
    for rel in repo.py_files:
        if "/codegen/" in rel:
            continue
        for n in ast.walk(repo.mod(rel).tree):
            bad = None
            if isinstance(n, ast.Attribute) and isinstance(n.value, ast.Name) and n.value.id in NONDET:
                bad = ast.unparse(n)
            if isinstance(n, ast.Call) and isinstance(n.func, ast.Name) and n.func.id in ("id", "hash") and "__hash__" not in rel:
                from ..repo import qualname_of

                q = qualname_of(repo.mod(rel), n)
                if not q.endswith("__hash__"):
                    bad = ast.unparse(n)[:40]
            if bad:
                check.oblige("NONDET", rel, f"nondeterministic source {bad} in the library", False)
        check.count("modules_scanned_nondet")
    check.oblige("NONDET", "src/pest", "no clock, random, environment or identity-hash source in the library", True)
    check.floor("reachable_functions", 40)  # a vacuity guard, not a census
    check.floor("recursion_descending_calls", 10)
    check.floor("runtime_helper_entries", 12)
    # patterns built at load time are compiled lazily, inside parse(): a malformed one raises regex.error there
    from ..charclass import GRID, GRID_DASH, check_char_class

    construct = "src/pest/grammar/expressions/choice.py::_optimize_char_class"
    try:
        fn = repo.func("src/pest/grammar/expressions/choice.py", "_optimize_char_class")
        plans = [(1, 1, GRID), (1, 1, GRID_DASH)] if tier == "quick" else [(2, 1, GRID), (2, 1, GRID_DASH)]
    except AnalysisError:
        # the class is no longer built by a function of that name: every class the squash pass emits is still
        # compiled below, on every model choice (PATTERN's second half), which is what this clause is about
        fn, plans = None, []
        check.notes.append("PATTERN: no module-level _optimize_char_class; the emitted classes are compiled through the squash pass on its model choices only")
    worst: dict[str, tuple[str, str]] = {}
    total = 0
    for nr, ns, grid in plans:
        n, bad = check_char_class(fn, construct, nr, ns, grid, repo, "src/pest/grammar/expressions/choice.py")
        total += n
        for kind, desc, detail in bad:
            if kind in ("MALFORMED", "RAISES"):
                worst.setdefault(kind, (desc, detail))
    check.count("char_class_model_points", total)
    sig = "the optimizer emits a character class that does not compile: regex.error escapes from parse()"
    hit = worst.get("MALFORMED") or worst.get("RAISES")
    check.oblige("PATTERN", construct, f"every emitted character class is well formed ({total} model points)" if not hit else sig, not hit,
                 finding=Finding("PATTERN", construct, sig, f"{sig}: for {hit[0]} it {hit[1]}" if hit else sig, {}))
    # ... and the whole pattern, as the squash pass assembles it for every model choice (sa/squashsem.py, shared with
    # C02 O12): what it emits compiles, with the engine the repository imports, and building it does not raise
    from ..squashsem import check_squash

    con2 = "src/pest/grammar/optimizers/squash_choice.py::squash_choice"
    n_s, _, bad_s = check_squash(repo, con2, ["k", "K", "\u212a", "."], 2, False)
    check.count("squash_model_choices", n_s)
    mine = [(c, m) for c, m in bad_s if "does not compile" in c or "raises" in c]
    check.oblige("PATTERN", con2, f"every pattern the squash pass emits compiles ({n_s} model choices)", True)
    seen: set = set()
    for c, m in mine:
        if c not in seen:
            seen.add(c)
            check.oblige("PATTERN", con2, c, False, finding=Finding("PATTERN", con2, c, f"{c}: {m}; the pattern is compiled lazily inside parse(), where the error escapes", {"witness": m}))
    return check
