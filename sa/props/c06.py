"""C06 — every returned parse tree is well-formed."""

from __future__ import annotations

import ast

from ..core import AnalysisError, Check, Finding
from .opsprop import fill

PAIRS_REL = "src/pest/pairs.py"

EXPLANATION = (
    "Tree well-formedness is reduced to construction-site obligations that hold on every abstract path: Rule.parse "
    "and every Rule skeleton (8 modifier masks x 3 name classes x tag pending or not) construct exactly one Pair on "
    "the success path of a non-silent rule and none on failure or for silent rules, with start = the position saved "
    "at entry, end = state.pos at the success exit, input = state.input, rule = self / rule_frame, children = the "
    "body's scratch list (or hidden as a whole for @), tag = the pending tag; every other operator passes K2 (the "
    "pairs reaching its output list are exactly the pairs of retained sub-matches in match order: no junk, no dead, "
    "no dropped, no duplicated pair), hence children lie inside the parent and in input order. Accessor shape "
    "facts in pairs.py: tokens() yields Start(start), each child's tokens in order, End(end); flatten() yields a "
    "pair before its children; Pair stores start/end/children/tag unswapped; text == input[start:end]."
)


def _yields(fn: ast.FunctionDef) -> list[str]:
    """Linearised yield events of a generator function (loops shown as FOR(...)[...])."""

    def walk(stmts: list[ast.stmt]) -> list[str]:
        out: list[str] = []
        for s in stmts:
            if isinstance(s, ast.Expr) and isinstance(s.value, ast.Yield):
                out.append("YIELD " + (ast.unparse(s.value.value) if s.value.value else "None"))
            elif isinstance(s, ast.Expr) and isinstance(s.value, ast.YieldFrom):
                out.append("FROM " + ast.unparse(s.value.value))
            elif isinstance(s, ast.For):
                out.append(f"FOR {ast.unparse(s.target)} in {ast.unparse(s.iter)} [" + "; ".join(walk(s.body)) + "]")
            elif isinstance(s, ast.FunctionDef):
                continue
            elif isinstance(s, (ast.If, ast.While, ast.With, ast.Try)):
                out.append("CTRL " + type(s).__name__)
        return out

    return walk(fn.body)


def accessor_checks(check: Check, repo) -> None:
    def ob(construct: str, what_ok: str, what_bad: str, ok: bool, detail: dict | None = None) -> None:
        what = what_ok if ok else what_bad
        check.oblige("ACCESSOR", f"{PAIRS_REL}::{construct}", what, ok, finding=Finding("ACCESSOR", f"{PAIRS_REL}::{construct}", what_bad, f"{construct}: {what_bad}", detail or {}))
        check.count("accessor_facts")

    # Pair.tokens
    y = _yields(repo.func(PAIRS_REL, "Pair.tokens"))
    ok = (
        len(y) == 3
        and y[0].startswith("YIELD Start(") and y[0].endswith(", self.start)")
        and y[1] == "FOR child in self.children [FROM child.tokens()]"
        and y[2].startswith("YIELD End(") and y[2].endswith(", self.end)")
    )
    ob("Pair.tokens", "yields Start(start), each child's tokens in order, End(end)", "token stream is not Start(start), children in order, End(end)", ok, {"yields": y})
    # Pairs.tokens
    y = _yields(repo.func(PAIRS_REL, "Pairs.tokens"))
    ob("Pairs.tokens", "yields each root pair's tokens in order", "does not yield each root pair's tokens in order", y == ["FOR pair in self._pairs [FROM pair.tokens()]"], {"yields": y})
    # Pairs.flatten
    fl = repo.func(PAIRS_REL, "Pairs.flatten")
    inner = [n for n in fl.body if isinstance(n, ast.FunctionDef)]
    if len(inner) != 1:
        raise AnalysisError(f"{PAIRS_REL}::Pairs.flatten: expected one inner generator")
    yi = _yields(inner[0])
    arg = inner[0].args.args[0].arg
    ok = yi == [f"YIELD {arg}", f"FOR child in {arg}.children [FROM {inner[0].name}(child)]"]
    ob("Pairs.flatten", "pre-order: a pair before its children, children in order", "flatten() is not the pre-order of the tree", ok, {"yields": yi})
    yo = _yields(fl)
    ob("Pairs.flatten", "visits every root pair in order", "flatten() does not visit every root pair in order", yo == [f"FOR pair in self._pairs [FROM {inner[0].name}(pair)]"], {"yields": yo})
    # Pair.__init__ field storage
    init = repo.func(PAIRS_REL, "Pair.__init__")
    stores = {}
    for n in ast.walk(init):
        if isinstance(n, ast.Assign) and isinstance(n.targets[0], ast.Attribute) and ast.unparse(n.targets[0].value) == "self":
            stores[n.targets[0].attr] = ast.unparse(n.value)
    want = {"input": "input_", "start": "start", "end": "end", "rule": "rule", "tag": "tag", "name": "rule.name"}
    for f, src in want.items():
        ob("Pair.__init__", f"stores {f} = {src}", f"Pair.{f} is not initialised from {src} (found {stores.get(f)!r})", stores.get(f) == src)
    ob("Pair.__init__", "stores children (or a fresh list)", f"Pair.children is not initialised from the children argument (found {stores.get('children')!r})", stores.get("children") in ("children or []", "children if children is not None else []", "children"))
    # text / __str__ / span
    for meth in ("text", "__str__"):
        fn = repo.func(PAIRS_REL, f"Pair.{meth}")
        rets = [ast.unparse(n.value) for n in ast.walk(fn) if isinstance(n, ast.Return) and n.value is not None]
        ob(f"Pair.{meth}", "is input[start:end]", f"Pair.{meth} is not input[start:end] (returns {rets})", rets == ["self.input[self.start:self.end]"])
    fn = repo.func(PAIRS_REL, "Pair.span")
    rets = [ast.unparse(n.value) for n in ast.walk(fn) if isinstance(n, ast.Return) and n.value is not None]
    ob("Pair.span", "is Span(input, start, end)", f"Pair.span() is not Span(input, start, end) (returns {rets})", rets == ["Span(self.input, self.start, self.end)"])
    # dump reads the same fields as the tree
    fn = repo.func(PAIRS_REL, "Pair.dump")
    src = ast.unparse(fn)
    for need in ("'start': self.start", "'end': self.end", "self.input[self.start:self.end]", "[child.dump() for child in self.children]"):
        ob("Pair.dump", f"renders {need}", f"dump() does not render {need}", need in src)


def run(tier: str) -> Check:
    check = Check("C06", tier, EXPLANATION)
    check.rules = ["RULE-PAIR", "RULE", "K2", "R7", "TAGS", "ACCESSOR", "ESCAPE-ACCESSOR"]
    check.assumptions = [
        "text == input[start:end] is definitional; numeric span relations follow from the construction obligations plus position-write discipline (C16/POS) and the trusted primitives",
        "accessor shape facts are compared with the canonical generator shapes; an equivalent but differently written accessor is reported as ANALYSIS-ERROR only if it cannot be linearised",
    ]
    repo, _ = fill(check, tier, floors={"rule_paths": 200, "rule_skeleton_variants": 24})
    accessor_checks(check, repo)
    check.floor("accessor_facts", 15)
    from ..escape_props import run_entry

    for q in ("Pair.tokens", "Pair.dump", "Pair.dumps", "Pair.span", "Pair.__str__", "Pairs.tokens", "Pairs.dump", "Pairs.dumps", "Pairs.flatten", "Pairs.__iter__", "Pairs.__len__"):
        t, _ = run_entry(check, repo, f"{PAIRS_REL}::{q}", set(), "ESCAPE-ACCESSOR")
        check.count("accessor_entries")
    check.floor("accessor_entries", 10)
    return check
