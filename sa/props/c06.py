"""C06 — every returned parse tree is well-formed."""

from __future__ import annotations

import ast

from ..core import AnalysisError, Check, Finding
from .opsprop import fill

PAIRS_REL = "src/pest/pairs.py"

EXPLANATION = (
    "Tree well-formedness is reduced to construction-site obligations that hold on every abstract path: Rule.parse "
    "and every Rule skeleton (8 modifier masks x 3 name classes x tag pending or not) construct exactly one Pair on "
    "the success path of a non-silent rule and none on failure or for silent rules, with start = the position saved "
    "at entry, end = state.pos at the success exit, input = state.input, rule = self / rule_frame, children = the "
    "body's scratch list (or hidden as a whole for @), tag = the pending tag; every other operator passes K2 (the "
    "pairs reaching its output list are exactly the pairs of retained sub-matches in match order: no junk, no dead, "
    "no dropped, no duplicated pair), hence children lie inside the parent and in input order. Accessor shape "
    "facts in pairs.py: tokens() yields Start(start), each child's tokens in order, End(end); flatten() yields a "
    "pair before its children; Pair stores start/end/children/tag unswapped; text == input[start:end]."
)


def _yields(fn: ast.FunctionDef) -> list[str]:
    """Linearised yield events of a generator function (loops shown as FOR(...)[...])."""

    def walk(stmts: list[ast.stmt]) -> list[str]:
        out: list[str] = []
        for s in stmts:
            if isinstance(s, ast.Expr) and isinstance(s.value, ast.Yield):
                out.append("YIELD " + (ast.unparse(s.value.value) if s.value.value else "None"))
            elif isinstance(s, ast.Expr) and isinstance(s.value, ast.YieldFrom):
                out.append("FROM " + ast.unparse(s.value.value))
            elif isinstance(s, ast.For):
                out.append(f"FOR {ast.unparse(s.target)} in {ast.unparse(s.iter)} [" + "; ".join(walk(s.body)) + "]")
            elif isinstance(s, ast.FunctionDef):
                continue
            elif isinstance(s, (ast.If, ast.While, ast.With, ast.Try)):
                out.append("CTRL " + type(s).__name__)
        return out

    return walk(fn.body)


def accessor_checks(check: Check, repo) -> None:
    """ACCESSOR: decided semantically on model trees (sa/pairsem.py); pairs.py is evaluated from its syntax tree."""
    from ..objmodel import ClassModel
    from ..pairsem import ACCESSORS
    from ..pairsem import check as sem_check

    cm = ClassModel(repo, PAIRS_REL, PAIRS_REL)
    for need in ("Pair", "Pairs", "Stream", "Start", "End", "Span"):
        if need not in cm.classes:
            raise AnalysisError(f"anchor vanished: {PAIRS_REL}::{need}")
    n, bad = sem_check(cm, 2)
    check.count("accessor_model_trees", n)
    for acc in ACCESSORS:
        construct = f"{PAIRS_REL}::{acc}"
        why = bad.get(acc)
        sig = f"{acc} does not report the tree it is given"
        check.oblige("ACCESSOR", construct, f"agrees with the reference on all {n} model forests" if why is None else sig, why is None, sample=acc in ("Pair.tokens", "Pairs.flatten"),
                     finding=Finding("ACCESSOR", construct, sig, f"{sig}: {why}", {"witness": why or ""}))
        check.count("accessor_facts")
    unknown = sorted(set(bad) - set(ACCESSORS))
    if unknown:
        raise AnalysisError(f"{PAIRS_REL}: mismatch reported for an accessor outside the table: {unknown}")


def run(tier: str) -> Check:
    check = Check("C06", tier, EXPLANATION)
    check.rules = ["RULE-PAIR", "RULE", "K2", "R7", "TAGS", "ACCESSOR", "ESCAPE-ACCESSOR"]
    check.assumptions = [
        "text == input[start:end] is definitional; numeric span relations follow from the construction obligations plus position-write discipline (C16/POS) and the trusted primitives",
        "accessors are decided on model forests of depth <= 2 and fan-out <= 2 (every local shape of the structural induction step; sa/pairsem.py); dumps()/line_col() are not decided",
    ]
    repo, _ = fill(check, tier, floors={"rule_paths": 200, "rule_skeleton_variants": 24})
    accessor_checks(check, repo)
    check.floor("accessor_facts", 15)
    from ..escape_props import run_entry

    for q in ("Pair.tokens", "Pair.dump", "Pair.dumps", "Pair.span", "Pair.__str__", "Pairs.tokens", "Pairs.dump", "Pairs.dumps", "Pairs.flatten", "Pairs.__iter__", "Pairs.__len__"):
        t, _ = run_entry(check, repo, f"{PAIRS_REL}::{q}", set(), "ESCAPE-ACCESSOR")
        check.count("accessor_entries")
    check.floor("accessor_entries", 10)
    return check
