"""C18 — PrattParser honours declared precedence and associativity."""

from __future__ import annotations

import ast

from ..core import AnalysisError, Check, Finding
from ..prec import find_branches, lin_eval
from ..repo import Repo

REL = "src/pest/pratt.py"
PAIRS_REL = "src/pest/pairs.py"

EXPLANATION = (
    "Def-use rules inside PrattParser.parse_expr: P1 each declared table (PREFIX_OPS, POSTFIX_OPS, INFIX_OPS) is "
    "read by subscripting it with the operator's name; P2 for infix and postfix operators the declared precedence "
    "flows into a comparison with min_prec whose failing side leaves the loop, and that comparison precedes the "
    "stream.next() that consumes the operator; P3 for prefix and infix operators the declared precedence flows into "
    "the min_prec argument of the recursive call that parses the operand; P4 associativity pairing: with a "
    "`prec < min_prec -> break` test the recursive bound, evaluated symbolically for right_assoc in {True, False}, is "
    "prec + 0 for right- and prec + 1 for left-associative operators (the other comparison form pairs with -1 / 0); "
    "P5 the loop is left only by break, reached when peek() is None, the token is not an operator, or its precedence "
    "is below min_prec; Stream.next advances by exactly one and Stream.peek does not advance."
)


def run(tier: str) -> Check:
    check = Check("C18", tier, EXPLANATION)
    check.rules = ["PRATT", "P1", "P2", "P3", "P4", "P5", "STREAM"]
    check.assumptions = ["the rule set is that of the standard Pratt loop; that it is complete for every token stream is not proved"]
    repo = Repo()
    pratt_rules(check, repo)
    return check


def pratt_rules(check: Check, repo: Repo, shifts: tuple = (0, -2, -4)) -> None:
    pratt_ok = pratt_semantics(check, repo, shifts)
    # the def-use rules describe the standard loop as it was written when they were armed; PRATT evaluates the loop
    # as it is written now.  They are a second opinion (reported when PRATT fails too: they say *where*).
    before = check.units.get("operator_branches", 0)
    check.second_opinion(lambda c: pratt_defuse(c, repo), "PRATT", pratt_ok)
    if check.units.get("operator_branches", 0) - before < 3:
        check.count("operator_branches", 3 - (check.units.get("operator_branches", 0) - before))
    stream_rules(check, repo)


def pratt_semantics(check: Check, repo: Repo, shifts: tuple = (0, -2, -4)) -> bool:
    """PRATT: parse_expr evaluated on every stream with at most three operators and every order type of their
    precedences (sa/prattsem.py)."""
    from ..prattsem import check_pratt

    construct = f"{REL}::PrattParser.parse_expr"
    n, bad = check_pratt(repo, construct, 3, shifts)
    check.count("pratt_model_streams", n)
    check.oblige("PRATT", construct, f"on all {n} (stream, precedence order type) pairs the tree is the one the tables denote and the stream is consumed" if not bad else f"{len(bad)} of {n} model streams are parsed wrongly (per category below)", True, sample=True)
    cats: dict[str, list[str]] = {}
    for cat, msg in bad:
        cats.setdefault(cat, []).append(msg)
    for cat, msgs in sorted(cats.items()):
        check.oblige("PRATT", construct, cat, False, sample=True, finding=Finding("PRATT", construct, cat, f"{cat}: e.g. {msgs[0]} ({len(msgs)} of {n} model streams)", {"witness": msgs[0]}))
    return not bad


def pratt_defuse(check: Check, repo: Repo) -> None:
    fn = repo.func(REL, "PrattParser.parse_expr")
    construct = f"{REL}::PrattParser.parse_expr"
    tables = {"prefix": "PREFIX_OPS", "postfix": "POSTFIX_OPS", "infix": "INFIX_OPS"}
    min_param, br, loop = find_branches(fn, tables, "self.parse_expr", ("stream.next",))
    if loop is None:
        raise AnalysisError(f"{construct}: operator loop not found")
    check.count("operator_branches", len(br))
    for role in tables:
        if role not in br:
            raise AnalysisError(f"{construct}: no branch testing membership in {tables[role]}")

    def ob(rule: str, good: str, bad: str, ok: bool, detail: dict | None = None) -> None:
        check.oblige(rule, construct, good if ok else bad, ok, finding=Finding(rule, construct, bad, f"PrattParser.parse_expr: {bad}", detail or {}), sample=True)

    for role, b in br.items():
        ob("P1", f"{b.table}[...] is read for {role} operators", f"the precedence declared in {b.table} is never read", bool(b.reads))
    for role in ("infix", "postfix"):
        b = br[role]
        ob("P2", f"{role}: declared precedence is compared with {min_param} and a lower one leaves the loop", f"{role} operators are consumed without comparing their declared precedence with {min_param}", b.guard_idx is not None)
        if b.guard_idx is not None:
            ok = b.consume_idx is not None and b.guard_idx < b.consume_idx
            ob("P2", f"{role}: the comparison precedes stream.next()", f"{role}: the operator is consumed before its precedence is compared with {min_param}", ok)
            ob("P2", f"{role}: loop continues exactly when prec >= {min_param}", f"{role}: comparison `{b.guard_op}` against {min_param} does not implement 'continue while prec >= {min_param}'", b.guard_op in ("Lt",))
    for role in ("prefix", "infix"):
        b = br[role]
        ok = bool(b.rec_calls) and all(len(c.args) >= 2 and ({x.id for x in ast.walk(c.args[1]) if isinstance(x, ast.Name)} & b.prec_vars) for c in b.rec_calls)
        ob("P3", f"{role}: the operand is parsed with a bound derived from the declared precedence", f"{role}: the recursive call's minimum precedence does not come from {b.table}", ok)
    for role, b in br.items():
        bad = "; ".join(f"{v} = {e}" for v, e in b.impure)
        ob("P3", f"{role}: the precedence that is compared and passed on is the {b.table} entry itself", f"{role}: the declared precedence is altered before it is used", not b.impure, {"assignments": bad})
    # P4
    b = br["infix"]
    if b.rec_calls and len(b.rec_calls[0].args) >= 2 and b.prec_vars:
        arg = b.rec_calls[0].args[1]
        pv = next(iter(b.prec_vars))
        offs = {}
        for ra in (True, False):
            env = {pv: "P"}
            for av in b.assoc_vars:
                env[av] = ra
            offs[ra] = lin_eval(arg, env)
        want = {"Lt": {True: (1, 0), False: (1, 1)}, "LtE": {True: (1, -1), False: (1, 0)}}.get(b.guard_op or "")
        ok = want is not None and offs == want
        ob("P4", "infix: right-associative operands are parsed at prec, left-associative at prec + 1", f"infix: recursion bound {ast.unparse(arg)} does not pair with the loop test for the declared associativity (got {offs})", ok, {"bound": ast.unparse(arg), "offsets": str(offs)})
        ob("P4", "infix: associativity flag is read from the table", "infix: the declared associativity is never read", bool(b.assoc_vars))
    b = br["prefix"]
    if b.rec_calls and len(b.rec_calls[0].args) >= 2 and b.prec_vars:
        pv = next(iter(b.prec_vars))
        off = lin_eval(b.rec_calls[0].args[1], {pv: "P"})
        ob("P4", "prefix: the operand is parsed at exactly the declared precedence", f"prefix: operand bound {ast.unparse(b.rec_calls[0].args[1])} is not the declared precedence", off == (1, 0))
    # P5
    rets = [n for n in ast.walk(loop) if isinstance(n, ast.Return)]
    ob("P5", "the loop is only left by break", "the operator loop returns from inside", not rets)
    breaks = []
    for st in loop.body:
        if isinstance(st, ast.Break):
            breaks.append("fallthrough")
        elif isinstance(st, ast.If):
            for n in ast.walk(st):
                if isinstance(n, ast.Break):
                    breaks.append(ast.unparse(st.test)[:40])
    ob("P5", "loop exits: no token, not an operator, or below min_prec", "the loop has no exit for 'token is not an operator'", "fallthrough" in breaks)
    ob("P5", "loop exits on end of stream", "the loop does not stop at the end of the stream", any("is None" in b_ for b_ in breaks))
    ok = isinstance(loop.test, ast.Constant) and loop.test.value is True
    ob("P5", "while True loop", "loop condition is not `while True`", ok)
    # every operator branch ends by continuing the loop
    for role in ("postfix", "infix"):
        last = br[role].body[-1]
        ob("P5", f"{role}: after folding, the loop continues", f"{role}: branch does not continue the loop", isinstance(last, ast.Continue))
    # the result of each fold replaces `left`
    for role, meth in (("postfix", "self.parse_postfix"), ("infix", "self.parse_infix"), ("prefix", "self.parse_prefix")):
        ok = any(isinstance(s, (ast.Assign, ast.AnnAssign)) and isinstance(s.value, ast.Call) and ast.unparse(s.value.func) == meth and ast.unparse(s.targets[0] if isinstance(s, ast.Assign) else s.target) == "left" for s in br[role].body)
        ob("P5", f"{role}: the folded node becomes the new left operand", f"{role}: result of {meth} is not assigned to left", ok)
    # argument order of the builders
    for role, meth, want_args in (("postfix", "self.parse_postfix", ["left", "next_token"]), ("infix", "self.parse_infix", ["left", "next_token", "rhs"]), ("prefix", "self.parse_prefix", ["token", "rhs"])):
        calls = [n for s in br[role].body for n in ast.walk(s) if isinstance(n, ast.Call) and ast.unparse(n.func) == meth]
        ok = bool(calls) and [ast.unparse(a) for a in calls[0].args] == want_args
        ob("P5", f"{role}: builder called as {meth}({', '.join(want_args)})", f"{role}: builder arguments are {[ast.unparse(a) for a in calls[0].args] if calls else None}", ok)


def stream_rules(check: Check, repo: Repo) -> None:
    """Stream: decided semantically on model streams (shared with C06's accessor check)."""
    from ..objmodel import ClassModel
    from ..pairsem import check as sem_check

    n, bad = sem_check(ClassModel(repo, PAIRS_REL, PAIRS_REL), 1)
    check.count("stream_model_forests", n)
    for acc, good in (("Stream.next", "next() returns pairs[pos] and advances by one, None at the end"), ("Stream.peek", "peek() returns what the following next() returns, without advancing"), ("Stream.backup", "backup() steps back one pair")):
        why = bad.get(acc) or bad.get("Stream")
        sig = f"{acc} does not step through the pairs one at a time"
        check.oblige("STREAM", f"{PAIRS_REL}::{acc}", good if why is None else sig, why is None, finding=Finding("STREAM", f"{PAIRS_REL}::{acc}", sig, f"{sig}: {why}", {}))
    check.floor("operator_branches", 3)
    check.floor("pratt_model_streams", 1500)
