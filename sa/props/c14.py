"""C14 — position, span and line/column utilities agree with the text."""

from __future__ import annotations

from ..core import Check, Finding
from ..repo import Repo

EXPLANATION = (
    "Order-and-adjacency abstraction evaluated on the utilities' own syntax trees (sa/linesem.py, sa/objmodel.py; "
    "pairs.py is never imported): Position.line_col / line_of, Span.__str__ / start_pos / end_pos / split / lines and "
    "Pair.line_col split the text with splitlines(keepends=True), add up piece lengths and compare an offset with the "
    "running total — additions and comparisons only. What they return depends on which line the offset lies in, "
    "whether it sits at the line's start, inside it, on its line break or at the very end of the text, and whether the "
    "text ends with a line break. All 66 texts of up to three lines with contents of length 0, 1 or 2, with and "
    "without a final line break, every offset 0..len and every span a <= b exhibit every such type; the results are "
    "compared with the definitions in the property statement (1 + line breaks before p, 1 + distance from the last "
    "line break; the lines a span touches; the line containing a position; text[start:end])."
)


def run(tier: str) -> Check:
    check = Check("C14", tier, EXPLANATION)
    check.rules = ["LINES", "CACHE-ALIAS"]
    check.assumptions = [
        "texts with \\n line breaks, as the property states (splitlines() also breaks at \\r, \\x0b, \\x0c, \\x1c-\\x1e, \\x85, \\u2028, \\u2029: outside the property)",
        "the completeness of the abstraction (lines of length 0..2, at most three lines) for code that only adds piece lengths and compares offsets is a paper argument (DESIGN §13), not machine-checked",
        "str.splitlines / list slicing behave as documented",
    ]
    from ..linesem import check_lines

    repo = Repo()
    n, bad = check_lines(repo, "src/pest/pairs.py", thorough=tier == "thorough")
    check.count("line_model_points", n)
    cats: dict[str, list[str]] = {}
    for cat, msg in bad:
        cats.setdefault(cat, []).append(msg)
    names = ("Position.line_col", "Position.line_of", "Span.__str__", "Span.start_pos / end_pos / split", "Span.lines", "Pair.line_col")
    for name in names:
        key = name.split(" ")[0]
        mine = {c: m for c, m in cats.items() if key.split(".")[-1].strip("_") in c or key in c}
        construct = f"src/pest/pairs.py::{key}"
        check.oblige("LINES", construct, f"{name} agrees with the text on all {n} model points" if not mine else f"{name}: {len(mine)} kinds of disagreement (below)", True, sample=True)
    for cat, msgs in sorted(cats.items()):
        construct = "src/pest/pairs.py::" + (cat.split(" ")[0] if cat.split(" ")[0].count(".") == 1 else "Span")
        check.oblige("LINES", construct, cat, False, sample=True, finding=Finding("LINES", construct, cat, f"{cat}: e.g. {msgs[0]} ({len(msgs)} of {n} model points)", {"witness": msgs[0]}))
    # the utilities hand out lists of lines: none of them may be a list a memoised helper keeps (sa/cachealias.py)
    from .. import cachealias

    cachealias.run(check, repo, ["src/pest/pairs.py"])
    check.floor("line_model_points", 1500)
    return check
