"""C03 — core PEG operator semantics (interpreter side)."""

from __future__ import annotations

from ..core import Check
from .opsprop import fill

EXPLANATION = (
    "Assume/guarantee induction over the expression tree (DESIGN §2): every interpreter parse() of a core "
    "operator is lowered to an event flow graph and all of its abstract paths are enumerated (child outcomes "
    "ok/fail, loops unrolled, repetition bounds instantiated). Each path must satisfy contract K (checkpoint "
    "balance R1, no attempt from a dirty state R2, output pairs == retained sub-matches K2) and replay against "
    "the operator specification table (attempt order, result, retained trace): ordered choice, greedy "
    "non-backtracking repetition, bounds = unrolled sequences, predicates consume nothing and contribute no "
    "pairs, one Pair per successful non-silent rule. Character terminals must advance exactly by what they "
    "matched at the current position."
)


def run(tier: str) -> Check:
    check = Check("C03", tier, EXPLANATION)
    check.rules = ["R1", "R2", "K2", "SPEC-attempt", "SPEC-result", "SPEC-live", "TERM", "POS", "RULE", "RULE-PAIR"]
    check.assumptions = [
        "primitives behave as documented: str.startswith/find, the regex engine, list, Stack/SnapshottingInt (C09)",
        "the obligations are necessary conditions; sufficiency for agreement with pest on every grammar is not claimed",
        "termination is not decided",
    ]
    fill(check, tier, floors={"operator_classes": 25, "parse_paths": 120, "rule_paths": 200})
    return check
