"""C02 SKIP-SEARCH — SkipUntil stops at the earliest terminator, or at the end of input.

`(!("a" | "b") ~ ANY)*` in an atomic context advances to the smallest offset >= pos at
which one of the literals occurs, or to len(input) if none does.  SkipUntil.parse and
the code SkipUntil.generate emits compute that with a fold over `input.find(sub, pos)`.
The fold only compares search results with each other, with -1 and with None, so its
outcome is a function of the order type of the results (sa/ordabs.py).  The abstract
environment is the search oracle itself: every assignment of results from
{-1, pos, pos+1, pos+2} to up to three terminators, at pos = 0 and at pos > 0, is
evaluated and compared with min(found) / len(input).  No string is ever searched.
"""

from __future__ import annotations

import ast
import itertools

from .core import AnalysisError
from .ordabs import Ev, ModelRaise, Obj


def _points(max_subs: int):
    """(pos, len(input), first occurrence of each terminator at or after pos (or -1), length of each terminator)."""
    for pos in (0, 3):
        length = pos + 5
        results = [-1, pos, pos + 1, pos + 2]
        for k in range(1, max_subs + 1):
            for combo in itertools.product(results, repeat=k):
                for lens in itertools.product((1, 2), repeat=k):
                    yield pos, length, list(combo), list(lens)


def _expected(length: int, combo: list[int]) -> int:
    found = [r for r in combo if r != -1]
    return min(found) if found else length


def _oracle(combo: list[int], lens: list[int], pos: int):
    """str.find(sub, start[, end]) on the abstract input: the first occurrence of terminator i at or after pos is
    combo[i]; with an end bound it is found only if it lies wholly inside the window (a later occurrence starts
    later and fits even less)."""

    def find(recv: Obj, sub: str, start: int | None = None, end: int | None = None) -> int:
        if start != pos:
            raise ModelRaise(f"search does not start at state.pos (start={start!r})")
        i = int(sub[1:])
        r = combo[i]
        if r == -1:
            return -1
        if end is not None and r + lens[i] > end:
            return -1
        return r

    return find


def check_parse(fn: ast.FunctionDef, where: str, max_subs: int = 3) -> tuple[int, list[str]]:
    params = [a.arg for a in fn.args.args]
    if len(params) != 3:
        raise AnalysisError(f"anchor vanished: {where} signature")
    bad: list[str] = []
    n = 0
    for pos, length, combo, lens in _points(max_subs):
        n += 1
        text = Obj("str", _len=length)
        state = Obj("ParserState", input=text, pos=pos)
        me = Obj("SkipUntil", subs=[f"s{i}" for i in range(len(combo))])
        ev = Ev({params[0]: me, params[1]: state, params[2]: []}, where, {("str", "find"): _oracle(combo, lens, pos)})
        desc = f"pos={pos}, len(input)={length}, first occurrences={combo}, terminator lengths={lens}"
        try:
            res = ev.run_function(fn.body)
        except ModelRaise as err:
            bad.append(f"{desc}: {err}")
            continue
        want = _expected(length, combo)
        if res is not True:
            bad.append(f"{desc}: returns {res!r}")
        elif state.pos != want:
            bad.append(f"{desc}: stops at {state.pos!r}, the loop it replaces stops at {want}")
    return n, bad


def check_skeleton(source: str, where: str, max_subs: int = 3) -> tuple[int, list[str]]:
    tree = ast.parse(source)
    assigned = {t.id for n in ast.walk(tree) if isinstance(n, (ast.Assign, ast.AnnAssign, ast.For)) for t in ast.walk(n.targets[0] if isinstance(n, ast.Assign) else n.target) if isinstance(t, ast.Name)}
    assigned |= {t.id for n in ast.walk(tree) if isinstance(n, ast.comprehension) for t in ast.walk(n.target) if isinstance(t, ast.Name)}
    assigned |= {n.target.id for n in ast.walk(tree) if isinstance(n, ast.NamedExpr)}
    in_ann = {id(x) for n in ast.walk(tree) if isinstance(n, ast.AnnAssign) for x in ast.walk(n.annotation)}
    free = sorted({n.id for n in ast.walk(tree) if isinstance(n, ast.Name) and isinstance(n.ctx, ast.Load) and id(n) not in in_ann} - assigned - {"state", "len", "None", "True", "False", "min", "max"})
    if len(free) != 1:
        raise AnalysisError(f"{where}: expected exactly one free name (the terminator table) in the emitted code, found {free}")
    matched = [t.id for n in ast.walk(tree) if isinstance(n, ast.Assign) and isinstance(n.value, ast.Constant) and n.value.value is True for t in n.targets if isinstance(t, ast.Name)]
    if len(set(matched)) != 1:
        raise AnalysisError(f"{where}: expected one `<matched> = True` in the emitted code")
    bad: list[str] = []
    n = 0
    for pos, length, combo, lens in _points(max_subs):
        n += 1
        text = Obj("str", _len=length)
        state = Obj("ParserState", input=text, pos=pos)
        env = {"state": state, free[0]: [f"s{i}" for i in range(len(combo))]}
        ev = Ev(env, where, {("str", "find"): _oracle(combo, lens, pos)})
        desc = f"pos={pos}, len(input)={length}, first occurrences={combo}, terminator lengths={lens}"
        try:
            ev.run(tree.body)
        except ModelRaise as err:
            bad.append(f"{desc}: {err}")
            continue
        want = _expected(length, combo)
        if env.get(matched[0]) is not True:
            bad.append(f"{desc}: does not report a match")
        elif state.pos != want:
            bad.append(f"{desc}: stops at {state.pos!r}, the loop it replaces stops at {want}")
    return n, bad
