"""C09 REP-INVARIANT — the delta encoding of `Stack` reproduces every snapshot.

Ghost state: the list S_1..S_k of full copies a naive stack would keep, and `items`.
Representation invariant Inv(rep, ghost):

    len(lengths) == k;  lengths[i] == (ic_i, rc_i) with ic_i == len(S_i), 0 <= rc_i <= ic_i
    popped == seg(S_1) ++ ... ++ seg(S_k),  seg(S_i) == [S_i[ic_i-1], ..., S_i[rc_i]]
    rc_k <= len(items)  and  items[:rc_k] == S_k[:rc_k]
    for i < k:  rc_i <= ic_{i+1}  and  S_{i+1}[:rc_i] == S_i[:rc_i]

Inductive step, per method m of Stack: for every rep state satisfying Inv, m's body
(taken from /repo's current syntax tree, evaluated by sa/ordabs.py) yields a rep state
that satisfies Inv for the ghost state the naive stack would be in, with the same
`items` and the same return value.  The empty stack satisfies Inv, so by induction
every reachable state does, and restore() returns exactly the snapshot's contents.

Finite abstraction.  The methods move elements only by slices and single pops whose
bounds are sums of the quantities ic, rc, len(items), len(popped) and the constants
0 and 1, and they never look at an element.  What happens to an element therefore
depends only on which interval between two consecutive boundaries it lies in and on
whether it is adjacent to a boundary; states whose gaps between consecutive boundaries
are 0, 1 or 2 (up to three nested snapshots: the top two that methods touch plus one
below as a frame) represent every order-and-adjacency type.  Elements are distinct
opaque tokens.  Nothing is imported from the repository and no history is replayed.
"""

from __future__ import annotations

import ast
import itertools

from .core import AnalysisError
from .ordabs import ModelIter, Ev, ModelRaise, Obj, Unsupported

METHODS = ("push", "pop", "clear", "snapshot", "restore", "drop_snapshot", "peek", "empty", "__len__", "__iter__", "__getitem__")


def seg(s: list, rc: int, ic: int) -> list:
    return [s[p] for p in range(ic - 1, rc - 1, -1)]


def inv(items: list, popped: list, lengths: list, ghost: list[list]) -> str | None:
    """None if the representation invariant holds, else what is wrong."""
    if len(lengths) != len(ghost):
        return f"{len(lengths)} snapshot entries for {len(ghost)} snapshots"
    want: list = []
    for i, (entry, s) in enumerate(zip(lengths, ghost)):
        if not (isinstance(entry, tuple) and len(entry) == 2):
            return f"lengths[{i}] is {entry!r}"
        ic, rc = entry
        if ic != len(s):
            return f"item_count of snapshot {i} is {ic}, the snapshot holds {len(s)} items"
        if not 0 <= rc <= ic:
            return f"remained_count {rc} of snapshot {i} is outside [0, {ic}]"
        want.extend(seg(s, rc, ic))
        if i + 1 < len(ghost):
            nxt = ghost[i + 1]
            if rc > len(nxt) or nxt[:rc] != s[:rc]:
                return f"snapshot {i} claims {rc} untouched items but the next snapshot differs there"
        else:
            if rc > len(items) or items[:rc] != s[:rc]:
                return f"snapshot {i} claims {rc} untouched items but the stack differs there"
    if popped != want:
        return f"popped is {popped!r}, the snapshots need {want!r}"
    return None


def states(max_snapshots: int, gap: int):
    """Rep states satisfying Inv, with their ghost states."""
    counter = itertools.count(1)

    def fresh(n: int) -> list:
        return [f"e{next(counter)}" for _ in range(n)]

    def rec(level: int, prev: list, ghost: list[list], lengths: list, popped: list):
        # `prev` is the content of items when snapshot `level` is taken
        s = list(prev)
        for rc in range(len(s) + 1):
            for t in range(gap + 1):
                tail = fresh(t)
                items = s[:rc] + tail
                g2 = ghost + [s]
                l2 = lengths + [(len(s), rc)]
                p2 = popped + seg(s, rc, len(s))
                yield items, p2, l2, g2
                if level + 1 < max_snapshots:
                    yield from rec(level + 1, items, g2, l2, p2)

    for n in range(gap + 2):
        yield fresh(n), [], [], []
    if max_snapshots >= 1:
        for n in range(gap + 2):
            yield from rec(0, fresh(n), [], [], [])


def spec(method: str, items: list, ghost: list[list], arg: object) -> tuple[list, list[list], object, bool]:
    """(items', ghost', return value, raises) of the naive copy-on-snapshot stack."""
    if method == "push":
        return items + [arg], ghost, None, False
    if method == "pop":
        if not items:
            return items, ghost, None, True
        return items[:-1], ghost, items[-1], False
    if method == "peek":
        if not items:
            return items, ghost, None, True
        return items, ghost, items[-1], False
    if method == "clear":
        return [], ghost, None, False
    if method == "snapshot":
        return items, ghost + [list(items)], None, False
    if method == "restore":
        if not ghost:
            return [], ghost, None, False
        return list(ghost[-1]), ghost[:-1], None, False
    if method == "drop_snapshot":
        return items, ghost[:-1], None, False
    if method == "empty":
        return items, ghost, not items, False
    if method == "__len__":
        return items, ghost, len(items), False
    if method == "__iter__":
        return items, ghost, list(items), False
    if method == "__getitem__":
        if not items:
            return items, ghost, None, True
        return items, ghost, items[arg], False
    raise AnalysisError(f"no specification for Stack.{method}")


def check_method(fn: ast.FunctionDef, where: str, method: str, max_snapshots: int, gap: int, methods: object = None) -> tuple[int, list[str]]:
    """``methods``: a program model of stack.py (sa/objmodel.py ClassModel), so that a method which calls another
    method or a helper of the class on ``self`` is followed into it."""
    params = [a.arg for a in fn.args.args]
    bad: list[str] = []
    n = 0
    for items, popped, lengths, ghost in states(max_snapshots, gap):
        pre = inv(items, popped, lengths, ghost)
        if pre is not None:
            raise AnalysisError(f"{where}: internal error, generated state violates the invariant: {pre}")
        n += 1
        me = Obj("Stack", items=list(items), popped=list(popped), lengths=list(lengths))
        env: dict = {params[0]: me}
        arg: object = -1 if method == "__getitem__" else "x"
        if len(params) == 2:
            env[params[1]] = arg
        elif len(params) > 2:
            raise AnalysisError(f"anchor vanished: {where} takes {params}")
        ev = Ev(env, where, methods if methods is not None else {}, 50000)  # type: ignore[arg-type]
        desc = f"items={items!r} popped={popped!r} lengths={lengths!r}"
        want_items, want_ghost, want_ret, want_raise = spec(method, list(items), [list(g) for g in ghost], arg)
        try:
            ret = ev.run_function(fn.body)
            if isinstance(ret, ModelIter):  # iter(self.items): compared by what it yields
                ret = list(ret)
        except ModelRaise as err:
            if not want_raise:
                bad.append(f"{desc}: raises {err}")
            continue
        if want_raise:
            bad.append(f"{desc}: returns {ret!r} where the stack is empty")
            continue
        if me.items != want_items:
            bad.append(f"{desc}: leaves items={me.items!r}, a stack of full copies would hold {want_items!r}")
            continue
        if ret != want_ret:
            bad.append(f"{desc}: returns {ret!r} instead of {want_ret!r}")
            continue
        post = inv(me.items, me.popped, me.lengths, want_ghost)
        if post is not None:
            bad.append(f"{desc}: afterwards {post}")
    return n, bad


__all__ = ["METHODS", "check_method", "Unsupported"]
