"""C01(a) — the assembled generated module compiles, imports and resolves its names.

The module text is *not* produced by running the generator: it is the E1 skeleton
of ``generate_module`` for representative rule tables (every trivia configuration,
silent / normal / atomic rules, EOI), with operator bodies left as child holes.
"""

from __future__ import annotations

import ast
import builtins
import re
import symtable

from . import tmpl
from .core import AnalysisError, Check, Finding
from .repo import Repo

GEN_REL = "src/pest/grammar/codegen/generate.py"


def rule_obj(cls: str, name: str, mod: int) -> tmpl.Obj:
    return tmpl.Obj(cls, {"name": tmpl.param(name), "modifier": mod, "expression": tmpl.Child(0), "doc": None}, name)


def rule_tables(masks: dict) -> list[tuple[str, list, dict]]:
    S, A, C, N = masks["SILENT"], masks["ATOMIC"], masks["COMPOUND"], masks["NONATOMIC"]
    base = [rule_obj("GrammarRule", "alpha", 0), rule_obj("GrammarRule", "beta", S),
            rule_obj("GrammarRule", "delta", C), rule_obj("GrammarRule", "eps", N), rule_obj("BuiltInRule", "ANY", S), rule_obj("BuiltInRule", "EOI", 0)]
    atomic = [rule_obj("GrammarRule", "gamma", A)]
    ws = rule_obj("GrammarRule", "WHITESPACE", S)
    cm = rule_obj("GrammarRule", "COMMENT", 0)
    skip = rule_obj("Rule", "SKIP", S | A)
    return [
        ("no-trivia", base + atomic, {"SKIP": False, "WHITESPACE": False, "COMMENT": False}),
        ("ws", base + [ws], {"SKIP": False, "COMMENT": False}),
        ("comment", base + [cm], {"SKIP": False, "WHITESPACE": False}),
        ("ws+comment", base + [ws, cm], {"SKIP": False}),
        ("skip", base + [ws, skip], {"COMMENT": False}),
    ]


def module_skeletons(repo: Repo, masks: dict) -> list[tuple[str, tmpl.Skeleton, list]]:
    out = []
    for label, ents, present in rule_tables(masks):
        def make(ents=ents, present=present) -> dict:
            return {"rules": tmpl.rules_value(list(ents), present=dict(present))}

        sks = tmpl.function_skeletons(repo, GEN_REL, "generate_module", make, {})
        if not 1 <= len(sks) <= 16:
            raise AnalysisError(f"{GEN_REL}::generate_module: {len(sks)} variants for a fully specified rule table ({label})")
        for i, sk in enumerate(sks):
            out.append((label if len(sks) == 1 else f"{label}#{i}", sk, ents))
    return out


def _module_defs(tree: ast.Module) -> set[str]:
    names: set[str] = set()
    for n in ast.walk(tree):
        if isinstance(n, (ast.Import, ast.ImportFrom)):
            for a in n.names:
                names.add((a.asname or a.name).split(".")[0])
    for n in tree.body:
        if isinstance(n, (ast.FunctionDef, ast.ClassDef)):
            names.add(n.name)
        elif isinstance(n, (ast.Assign, ast.AnnAssign)):
            for t in (n.targets if isinstance(n, ast.Assign) else [n.target]):
                if isinstance(t, ast.Name):
                    names.add(t.id)
    return names


def check_module(check: Check, label: str, sk: tmpl.Skeleton, ents: list, repo: Repo | None = None) -> None:
    construct = f"{GEN_REL}::generate_module[{label}]"
    state_init = repo.func("src/pest/state.py", "ParserState.__init__") if repo is not None else None
    src = sk.source
    try:
        tree = ast.parse(src)
    except SyntaxError as e:
        what = f"assembled module does not parse: {e.msg} (line {e.lineno})"
        check.oblige("MODULE", construct, "assembled module does not parse", False, finding=Finding("MODULE", construct, "assembled module does not parse", what, {"line": src.split(chr(10))[e.lineno - 1] if e.lineno else ""}))
        return
    check.oblige("MODULE", construct, "assembled module parses", True)
    check.count("module_skeletons")
    defs = _module_defs(tree)
    allowed = defs | set(dir(builtins))
    # every global name referenced from any scope resolves
    top = symtable.symtable(src, "generated", "exec")
    unresolved: set[str] = set()

    def walk(t: symtable.SymbolTable) -> None:
        for sym in t.get_symbols():
            if sym.is_global() and sym.is_referenced() and not sym.is_assigned():
                n = sym.get_name()
                if n not in allowed and not re.fullmatch(r"CHILD_\d+", n):
                    unresolved.add(n)
        for c in t.get_children():
            walk(c)

    walk(top)
    # module-scope loads that are neither defined nor builtin
    for sym in top.get_symbols():
        if sym.is_referenced() and not sym.is_assigned() and not sym.is_imported():
            n = sym.get_name()
            if n not in allowed:
                unresolved.add(n)
    what = "every global name resolves to a prelude import, a generated module-level name or a builtin"
    check.oblige("MODULE-NAMES", construct, what if not unresolved else "unresolved global name(s) in the generated module", not unresolved,
                 finding=Finding("MODULE-NAMES", construct, "unresolved global name(s) in the generated module", f"generated module references undefined names {sorted(unresolved)}", {"names": sorted(unresolved)}))
    # import-time order: names used by immediately executed code are defined earlier
    defined: set[str] = set(dir(builtins))
    funcs: dict[str, ast.FunctionDef] = {}
    early: list[str] = []

    def loads_now(n: ast.AST) -> set[str]:
        out: set[str] = set()
        stack = [n]
        while stack:
            x = stack.pop()
            if isinstance(x, (ast.FunctionDef, ast.Lambda)) and x is not n:
                for d in getattr(x, "decorator_list", []):
                    stack.append(d)
                continue
            if isinstance(x, (ast.AnnAssign,)):
                if x.value is not None:
                    stack.append(x.value)
                continue
            if isinstance(x, ast.arg):
                continue
            if isinstance(x, ast.Name) and isinstance(x.ctx, ast.Load):
                out.add(x.id)
            stack.extend(ast.iter_child_nodes(x))
        return out

    def calls_now(n: ast.AST) -> list[ast.Call]:
        out: list[ast.Call] = []
        stack = [n]
        while stack:
            x = stack.pop()
            if isinstance(x, (ast.FunctionDef, ast.Lambda)) and x is not n:
                continue
            if isinstance(x, ast.Call):
                out.append(x)
            stack.extend(ast.iter_child_nodes(x))
        return out

    for st in tree.body:
        if isinstance(st, ast.If) and ast.unparse(st.test) in ("TYPE_CHECKING", "__name__ == '__main__'"):
            for n in ast.walk(st):
                if isinstance(n, (ast.Import, ast.ImportFrom)):
                    for a in n.names:
                        defined.add((a.asname or a.name).split(".")[0])
            continue
        if isinstance(st, ast.FunctionDef):
            funcs[st.name] = st
            defined.add(st.name)
            continue
        need = loads_now(st)
        for c in calls_now(st):
            if isinstance(c.func, ast.Name) and c.func.id in funcs:
                f = funcs[c.func.id]
                local = {a.arg for a in f.args.args} | {a.arg for a in f.args.kwonlyargs}
                for b in f.body:
                    if isinstance(b, ast.FunctionDef):
                        local.add(b.name)
                        continue
                    for t in ast.walk(b):
                        if isinstance(t, ast.Name) and isinstance(t.ctx, ast.Store):
                            local.add(t.id)
                    need |= {x for x in loads_now(b) if x not in local}
        for x in sorted(need):
            if x not in defined and not re.fullmatch(r"CHILD_\d+", x):
                early.append(f"{x} (used by: {ast.unparse(st)[:50]})")
        for n in ast.walk(st):
            if isinstance(n, (ast.Import, ast.ImportFrom)):
                for a in n.names:
                    defined.add((a.asname or a.name).split(".")[0])
        if isinstance(st, ast.ClassDef):
            defined.add(st.name)
        for t in (st.targets if isinstance(st, ast.Assign) else [st.target] if isinstance(st, ast.AnnAssign) else []):
            if isinstance(t, ast.Name):
                defined.add(t.id)
    check.oblige("MODULE-ORDER", construct, "import-time code only uses names defined earlier" if not early else "import-time use before definition", not early,
                 finding=Finding("MODULE-ORDER", construct, "import-time use before definition", f"names used at import time before their definition: {early}", {"names": early}))
    # the three rule enumerations agree: one parse_X, one enum member, one map entry per generated rule
    want = [str(e.attrs["name"]) for e in ents if e.cls != "BuiltInRule" or str(e.attrs["name"]) == "EOI"]
    got_defs = sorted(n[6:] for n in defs if n.startswith("parse_") and n != "parse_trivia")
    enum = next((n for n in tree.body if isinstance(n, ast.ClassDef) and n.name == "Rule"), None)
    got_enum = sorted(ast.literal_eval(s.value) for s in (enum.body if enum else []) if isinstance(s, ast.Assign))
    rmap = next((n for n in tree.body if isinstance(n, ast.AnnAssign) and isinstance(n.target, ast.Name) and n.target.id == "_RULE_MAP"), None)
    got_map = sorted(ast.literal_eval(k) for k in rmap.value.keys) if rmap is not None and isinstance(rmap.value, ast.Dict) else []
    ok = sorted(want) == got_defs == got_enum == got_map
    check.oblige("MODULE-RULES", construct, "rule closures, enum members and rule-map entries cover the same rules" if ok else "rule closures, enum members and rule-map entries disagree", ok,
                 finding=Finding("MODULE-RULES", construct, "rule closures, enum members and rule-map entries disagree", f"generated rules {sorted(want)}: closures {got_defs}, enum {got_enum}, map {got_map}", {}))
    if rmap is not None and isinstance(rmap.value, ast.Dict):
        bad = [ast.literal_eval(k) for k, v in zip(rmap.value.keys, rmap.value.values, strict=True) if not (isinstance(v, ast.Name) and v.id == "parse_" + ast.literal_eval(k))]
        check.oblige("MODULE-RULES", construct, "every rule-map entry maps a name to its own closure" if not bad else "a rule-map entry maps a name to another rule's closure", not bad)
    # closure structure: rule_frame and constants are bound before `inner` is returned
    for fn in tree.body:
        if isinstance(fn, ast.FunctionDef) and fn.name.startswith("_parse_"):
            names_before: set[str] = set()
            ok = False
            inner = None
            for b in fn.body:
                if isinstance(b, ast.FunctionDef):
                    inner = b
                elif isinstance(b, ast.Return):
                    ok = inner is not None and isinstance(b.value, ast.Name) and b.value.id == inner.name and "rule_frame" in names_before
                else:
                    for t in ast.walk(b):
                        if isinstance(t, ast.Name) and isinstance(t.ctx, ast.Store):
                            names_before.add(t.id)
            frame = next((b for b in fn.body if isinstance(b, ast.Assign) and ast.unparse(b.targets[0]) == "rule_frame"), None)
            fr_ok = frame is not None and isinstance(frame.value, ast.Call) and ast.unparse(frame.value.func) == "RuleFrame" and len(frame.value.args) == 2 and ast.literal_eval(frame.value.args[0]) == fn.name[7:]
            check.oblige("MODULE-CLOSURE", construct, f"{fn.name} binds its RuleFrame and returns its inner function" if ok and fr_ok else f"closure {fn.name} does not bind RuleFrame(<its own name>, modifier) and return its inner function", ok and fr_ok)
    # entry point: fresh state per call, start_pos passed through, failure -> PestParsingError(state)
    parse = next((n for n in tree.body if isinstance(n, ast.FunctionDef) and n.name == "parse"), None)
    if parse is None:
        check.oblige("MODULE-ENTRY", construct, "generated module has no parse()", False)
        return
    # tolerant of renames: look for the five facts, not for a fixed text
    state_var = list_var = None
    called = returns = raises = False
    for n in ast.walk(parse):
        if isinstance(n, (ast.Assign, ast.AnnAssign)):
            tgt = n.targets[0] if isinstance(n, ast.Assign) else n.target
            v = n.value
            if isinstance(tgt, ast.Name) and isinstance(v, ast.Call) and ast.unparse(v.func) == "ParserState":
                if state_init is not None:
                    from .binding import role_of  # noqa: PLC0415

                    if role_of(v, state_init, "input", construct) == "text" and role_of(v, state_init, "pos", construct) == "start_pos":
                        state_var = tgt.id
                elif [ast.unparse(a) for a in v.args] == ["text", "start_pos"] and not v.keywords:
                    state_var = tgt.id
            if isinstance(tgt, ast.Name) and isinstance(v, ast.List) and not v.elts:
                list_var = tgt.id
    for n in ast.walk(parse):
        if isinstance(n, ast.Call) and ast.unparse(n.func) == "_RULE_MAP[start_rule]" and [ast.unparse(a) for a in n.args] == [state_var, list_var]:
            called = True
        if isinstance(n, ast.Return) and n.value is not None and ast.unparse(n.value) == f"Pairs({list_var})":
            returns = True
        if isinstance(n, ast.Raise) and n.exc is not None and ast.unparse(n.exc) == f"PestParsingError({state_var})":
            raises = True
    ok = bool(state_var and list_var and called and returns and raises)
    check.oblige("MODULE-ENTRY", construct, "parse() allocates a fresh ParserState(text, start_pos) and pair list, returns Pairs on success and raises PestParsingError(state) otherwise" if ok else "generated parse() entry point deviates", ok,
                 finding=Finding("MODULE-ENTRY", construct, "generated parse() entry point deviates", "generated parse() entry point deviates from: fresh ParserState(text, start_pos) and pair list per call, _RULE_MAP[start_rule](state, pairs), Pairs(pairs) on success, PestParsingError(state) on failure", {"state": state_var, "pairs": list_var, "called": called, "returns": returns, "raises": raises}))
    args = parse.args
    sig_ok = [a.arg for a in args.args] == ["start_rule", "text"] and [a.arg for a in args.kwonlyargs] == ["start_pos"] and ast.unparse(args.kw_defaults[0]) == "0"
    check.oblige("MODULE-ENTRY", construct, "parse(start_rule, text, *, start_pos=0) mirrors Parser.parse" if sig_ok else "generated parse() signature differs from Parser.parse(start_rule, text, *, start_pos=0)", sig_ok)
