"""The regular-expression engine the repository compiles its patterns with, as an oracle.

The library does `import regex as re`: its patterns are compiled by the third-party `regex`
module, whose flag values and whose treatment of some constructs differ from the standard
library's (a scoped `(?a:...)` does not restrict case folding to ASCII there; re.A is
0x80, not 0x100; VERSION1 / FULLCASE exist).  The program model therefore hands the
repository's code the *engine's own* flag values and runs captured patterns through that
engine.  Where `regex` is not importable the standard library stands in (flag bits it
does not have get distinct values of their own) and the checks say so.
"""

from __future__ import annotations

import ast
import re as _std

from .core import AnalysisError

try:  # the repository's environment has it; it is an installed dependency, not repository code
    import regex as _rx

    ENGINE = "regex"
except ImportError:  # pragma: no cover
    _rx = _std  # type: ignore[assignment]
    ENGINE = "re"

FLAGS: dict[str, int] = {}
for _n in ("I", "IGNORECASE", "A", "ASCII", "M", "MULTILINE", "S", "DOTALL", "X", "VERBOSE", "U", "UNICODE", "V0", "VERSION0", "V1", "VERSION1", "F", "FULLCASE"):
    if hasattr(_rx, _n):
        FLAGS[_n] = int(getattr(_rx, _n))
if ENGINE == "re":
    FLAGS.update({"V0": 0, "VERSION0": 0, "V1": 1 << 20, "VERSION1": 1 << 20, "F": 1 << 21, "FULLCASE": 1 << 21})
I, A = FLAGS["I"], FLAGS["A"]
_KNOWN = 0
for _v in FLAGS.values():
    _KNOWN |= _v


def compile_(pattern: str, flags: int = 0):  # noqa: ANN201
    """Compile with the repository's engine; flag bits the engine does not know are dropped only for the stand-in."""
    if ENGINE == "re":
        flags &= int(_std.I | _std.A | _std.M | _std.S | _std.X | _std.U)
    return _rx.compile(pattern, flags)


error = _rx.error
escape = _rx.escape


class _Std:
    """The standard library's engine, for modelled files that import it (`import re`)."""

    ENGINE = "re"
    FLAGS = {n: int(getattr(_std, n)) for n in ("I", "IGNORECASE", "A", "ASCII", "M", "MULTILINE", "S", "DOTALL", "X", "VERBOSE", "U", "UNICODE")}
    error = _std.error
    escape = staticmethod(_std.escape)

    @staticmethod
    def compile_(pattern: str, flags: int = 0):  # noqa: ANN205
        return _std.compile(pattern, flags)


def engine(name: str):  # noqa: ANN201
    """The oracle for the engine a modelled file imports under the name `re`: this module itself for `regex`."""
    import sys  # noqa: PLC0415

    if name == ENGINE:
        return sys.modules[__name__]
    if name == "re":
        return _Std
    raise AnalysisError(f"the modelled files compile their patterns with `{name}`, which is not importable here")


def module_engine(repo, rels: list[str]) -> str:  # noqa: ANN001
    """Which engine the modelled files import as `re`; mixed use is outside the model."""
    seen: set[str] = set()
    for rel in rels:
        for n in repo.mod(rel).tree.body:
            if isinstance(n, ast.Import):
                for a in n.names:
                    if a.name == "regex" and (a.asname or a.name) == "re":
                        seen.add("regex")
                    elif a.name == "re" and a.asname is None:
                        seen.add("re")
    if len(seen) > 1:
        raise AnalysisError(f"the modelled files {rels} mix the standard library's re and the regex module under the name re")
    return next(iter(seen), ENGINE)
