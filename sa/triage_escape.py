"""Frozen triage table for E3: implicit-raise sites that the guard idioms do not
discharge, each confirmed by reading.  Keys: ``<file>::<function>|<kind>|<expr>|<exc>``.
A listed site that disappears is simply dropped; a reachable site that is neither
discharged by an idiom nor listed here is reported."""

SAFE = "SAFE"

TRIAGE: dict[str, tuple[str, str]] = {
    # ---- Parser.from_grammar
    "src/pest/grammar/expressions/terminals.py::PeekSlice.__init__|call|int(start)|ValueError": (
        SAFE, "start is the text of an INTEGER token (RE_INTEGER = -?[0-9]+, checked by C10's token-language rule); its length is validated by Parser.parse_int in the only constructing caller"),
    "src/pest/grammar/expressions/terminals.py::PeekSlice.__init__|call|int(stop)|ValueError": (
        SAFE, "as int(start)"),
    "src/pest/grammar/expressions/terminals.py::Range.__init__|call|re.compile(self._pattern())|regex.error": (
        SAFE, "Range._pattern returns the constant (?!) or a class of two re.escape()d characters with start <= stop"),
    "src/pest/grammar/optimizer.py::Optimizer._run_fixed_point|raise|RuntimeError|RuntimeError": (
        SAFE, "only reachable for steps with fixed_point=True; no step of DEFAULT_OPTIMIZER_PASSES sets it (machine-checked by escape_props.no_fixed_point_default)"),
    "src/pest/grammar/optimizer.py::Optimizer.optimize|assert|isinstance(rules, dict)|AssertionError": (
        SAFE, "the only caller, pest.Parser.__init__, passes the dict display {**BUILTIN, **rules}"),
    "src/pest/grammar/unescape.py::_decode_escape_sequence|call|chr(_parse_hex_digits(digits, token))|ValueError": (
        SAFE, "digits has exactly two characters (checked just above) and _parse_hex_digits raises a syntax error for non-hex digits, so the value is < 256"),
    "src/pest/grammar/exceptions.py::PestGrammarError._error_context|subscript|lines[target_line_index]|IndexError": (
        SAFE, "lines is non-empty (an empty line is appended when splitlines() is empty or ends with a line break) and target_line_index is len(lines) - 1 or an index produced by enumerate(lines)"),
    "src/pest/pairs.py::Pair.dumps|subscript|children[0]|IndexError": (
        SAFE, "under `if n == 1` with n = len(self.children) and children built by a comprehension over self.children"),
    # ---- Parser.parse (interpreter)
    "src/pest/parser.py::Parser.parse|subscript|self.rules[start_rule]|KeyError": (
        SAFE, "outside the property's quantifier: C07 ranges over start rules of the grammar (documented KeyError)"),
    "src/pest/grammar/expressions/terminals.py::Identifier.parse|subscript|state.parser.rules[self.value]|KeyError": (
        SAFE, "outside the property's quantifier: C07 excludes grammars with references to undefined rules"),
    "src/pest/grammar/expressions/prefix.py::NegativePredicate.parse|subscript|state.parser.rules[failed_rule_name]|KeyError": (
        SAFE, "reached only after the Identifier child matched, i.e. the same key was just found by Identifier.parse"),
    "src/pest/state.py::ParserState.ok|pop|self._pos_history.pop()|IndexError": (
        SAFE, "every ok() is preceded by a checkpoint() on the same path: obligation R1 of the operator analysis, checked on every abstract path of every operator and template"),
    "src/pest/state.py::ParserState.restore|pop|self._pos_history.pop()|IndexError": (SAFE, "as ParserState.ok (R1)"),
    "src/pest/state.py::ParserState.ok|pop|self._tag_history.pop()|IndexError": (
        SAFE, "checkpoint() appends to _tag_history and _pos_history together, ok() / restore() pop both: as _pos_history (R1)"),
    "src/pest/state.py::ParserState.restore|pop|self._tag_history.pop()|IndexError": (SAFE, "as ParserState.ok (R1)"),
    "src/pest/grammar/expressions/choice.py::OptimizedChoice.pattern|call|re.compile(self.build_optimized_pattern())|regex.error": (
        SAFE, "build_optimized_pattern assembles only re.escape()d literals, (?ai:...) groups, \\p{...} classes from the constant registry and a character class of escaped code points (C12 pattern-fragment rule; C07 PATTERN and C02 O12 compile every pattern it emits on the model)"),
    "src/pest/grammar/expressions/choice.py::_optimize_char_class|subscript|merged[-1][1]|IndexError": (
        SAFE, "every element of merged is the two-element list [s, e] appended a few lines above"),
    "src/pest/grammar/expressions/choice.py::_optimize_char_class|call|ord(start)|TypeError": (
        SAFE, "ChoiceRange endpoints come from Range.start/stop, single characters by RE_CHAR + unescape (C10 token rule)"),
    "src/pest/grammar/expressions/choice.py::_optimize_char_class|call|ord(end)|TypeError": (SAFE, "as ord(start)"),
    "src/pest/grammar/expressions/choice.py::_optimize_char_class|call|ord(c)|TypeError": (
        SAFE, "singles are one-character literals, or val.upper()/val.lower() of a one-character ASCII literal"),
    "src/pest/grammar/expressions/choice.py::_optimize_char_class|call|chr(s)|ValueError": (SAFE, "s and e are results of ord()"),
    "src/pest/grammar/expressions/choice.py::_optimize_char_class|call|chr(e)|ValueError": (SAFE, "s and e are results of ord()"),
    "src/pest/grammar/expressions/choice.py::build_optimized_pattern|raise|ValueError|ValueError": (
        SAFE, "the default arm of an exhaustive match over the ChoiceChoice union (ChoiceLiteral x 2 cases x 2 lengths, ChoiceRange, UnicodePropertyRule over RegexExpression)"),
    "src/pest/exceptions.py::PestParsingError.detailed_message|subscript|self.args[0]|IndexError": (
        SAFE, "PestParsingError.__init__ always passes exactly one argument to Exception.__init__"),
    "src/pest/exceptions.py::error_context|subscript|lines[target_line_index]|IndexError": (
        SAFE, "text is non-empty (early return above), so splitlines() is non-empty; target_line_index is len(lines) - 1 or an index produced by enumerate(lines)"),
    "src/pest/grammar/expressions/terminals.py::Identifier.parse|assert|state.parser|AssertionError": (
        SAFE, "Parser.parse always passes itself to ParserState; generated code never calls Expression.parse"),
    "src/pest/grammar/expressions/prefix.py::NegativePredicate.parse|assert|state.parser|AssertionError": (SAFE, "as Identifier.parse"),
    "src/pest/grammar/rule.py::Rule.parse|assert|state.parser|AssertionError": (SAFE, "as Identifier.parse"),
    "src/pest/state.py::ParserState.parse_trivia|assert|self.parser|AssertionError": (SAFE, "as Identifier.parse; the generated module has its own parse_trivia"),
    "src/pest/stack.py::Stack.restore|assert|not self.popped|AssertionError": (
        SAFE, "C09 bookkeeping invariant of the snapshotting stack (popped is non-empty only under an open snapshot); outside static reach, trusted base"),
    "src/pest/stack.py::Stack.restore|assert|not self.lengths|AssertionError": (SAFE, "inside the branch `if not self.lengths`"),
    "src/pest/stack.py::Stack.restore|assert|len(self.popped) == new_size|AssertionError": (SAFE, "follows del self.popped[new_size:]"),
    "src/pest/state.py::ParserState.fail|subscript|self.rule_stack[-1]|IndexError": (
        SAFE, "fail() is only called from terminals, which run inside the push/pop bracket of Rule.parse / a generated rule closure (RULE-FRAME obligation of the operator analysis)"),
    "src/pest/stack.py::Stack.__getitem__|subscript|self.items[index]|IndexError": (
        SAFE, "callers: ParserState.fail (rule_stack[-1], see above) and ParserState.peek_slice (slices never raise)"),
    "src/pest/stack.py::Stack.peek|subscript|self.items[-1]|IndexError": (
        SAFE, "documented to raise on an empty stack; every call path from an operator is enumerated per entry stack by the operator analysis (RAISE obligation), ParserState.peek guards with empty()"),
    "src/pest/stack.py::Stack.pop|pop|self.items.pop()|IndexError": (
        SAFE, "documented to raise on an empty stack; every call path from an operator is enumerated per entry stack by the operator analysis (RAISE obligation); Rule.parse pops the frame it pushed"),
}
