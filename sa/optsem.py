"""C02 / C15 PIPELINE — Optimizer.optimize as a whole, on model grammars.

The optimizer is a driver (which pass, on which rule, in which direction) around the
passes that O7, O8, O11, O12 and O14 decide one by one.  What the driver itself must get
right does not depend on what the expressions match: (a) it never rewrites an object it
was given — neither the caller's Rule objects nor the process-wide built-ins; (b) a pass
registered `atomic_only` is kept away from rules in which implicit trivia is matched;
(c) tags survive; (d) the fused SKIP rule exists exactly when the trivia is a lone
silent rule and is what that rule's repetition matches.  These are decided by evaluating
`Optimizer.optimize` from its syntax tree (sa/objmodel.py) on a family of model grammars
that has one member for every combination of the facts the driver consults: trivia
defined or not (and which), rule atomic / compound / normal / non-atomic, pattern in a
plain or a tagged position.
"""

from __future__ import annotations

import itertools
import re

from . import rxoracle

from .core import AnalysisError
from .objmodel import ClassModel
from .ordabs import ModelRaise, Obj, Sym
from .repo import Repo
from .squashsem import RELS as EXPR_RELS

RELS = EXPR_RELS + ["src/pest/grammar/optimizer.py", "src/pest/grammar/rules/special.py"]


def program(repo: Repo, where: str) -> ClassModel:
    rels = [r for r in RELS if r in repo.py_files]
    if "src/pest/grammar/optimizer.py" not in rels:
        raise AnalysisError("anchor vanished: src/pest/grammar/optimizer.py")
    restub = Obj("re", **rxoracle.FLAGS)
    copystub = Obj("copy")
    cm = ClassModel(repo, rels, where, {"re": restub, "copy": copystub, "ChoiceCase": Sym("ChoiceCase")}, max_steps=400000)
    cm._cache[("re", "compile")] = lambda _s, pat, flags=0: Obj("Pattern", pattern=pat, flags=flags)  # noqa: SLF001
    cm._cache[("re", "escape")] = lambda _s, x: rxoracle.escape(x)  # noqa: SLF001

    def shallow(_s: Obj, o: Obj) -> Obj:
        c = Obj(o.kinds)
        c.__dict__.update({k: v for k, v in o.__dict__.items() if k != "kinds"})
        return c

    cm._cache[("copy", "copy")] = shallow  # noqa: SLF001
    for need in ("Optimizer", "OptimizerStep", "Rule", "Repeat", "Group", "Sequence", "NegativePredicate"):
        if need not in cm.classes:
            raise AnalysisError(f"anchor vanished: class {need}")
    return cm


def shape(o: object) -> object:
    if not isinstance(o, Obj):
        return repr(o)
    k = o.kinds[0]
    d = o.__dict__
    tag = d.get("tag")
    if k in ("String", "CIString", "Identifier", "PushLiteral"):
        t: tuple = (k, d.get("value"))
    elif k == "SkipUntil":
        t = (k, tuple(d.get("subs") or ()))
    elif k in ("OptimizedChoice", "OptimizedChoiceRepeat"):
        t = (k, len(d.get("choices") or ()))
    elif k in ("Sequence", "Choice"):
        t = (k, *[shape(x) for x in d.get("expressions", [])])
    elif "Rule" in o.kinds:
        t = ("rule", d.get("name"))
    elif "expression" in d:
        t = (k, shape(d["expression"]))
    else:
        t = (k,)
    return t + (("#", tag),) if tag is not None else t


def check_pipeline(repo: Repo, where: str) -> tuple[int, list[tuple[str, str]]]:  # noqa: PLR0912, PLR0915
    cm = program(repo, where)
    consts = repo.mod("src/pest/grammar/rule.py").constants()
    SIL, ATO, COM, NON = consts["SILENT"], consts["ATOMIC"], consts["COMPOUND"], consts["NONATOMIC"]
    optimizer = cm.env.get("DEFAULT_OPTIMIZER")
    if not isinstance(optimizer, Obj):
        raise AnalysisError("anchor vanished: DEFAULT_OPTIMIZER could not be built on the model")
    bad: list[tuple[str, str]] = []
    n = 0
    any_rule = cm.new("BuiltInRule", "ANY", cm.new("String", "<any>"), SIL) if "Any" not in cm.classes else cm.new("Any")
    any_body = any_rule.__dict__.get("expression")

    def skip_idiom(tag: str | None = None) -> Obj:
        seq = cm.new("Sequence", cm.new("NegativePredicate", cm.new("String", "x")), any_rule)
        grp = cm.new("Group", seq)
        rep = cm.new("Repeat", grp)
        if tag:
            rep.__dict__["tag"] = tag
        return rep

    def ws_rule(kind: str) -> Obj | None:
        if kind == "absent":
            return None
        if kind == "silent sequence":
            return cm.new("Rule", "WHITESPACE", cm.new("Sequence", cm.new("String", "a"), cm.new("String", "b")), SIL)
        return cm.new("Rule", "WHITESPACE", cm.new("Choice", cm.new("String", " "), cm.new("String", "\t")), SIL if kind == "silent choice" else 0)

    def comment_rule(kind: str) -> Obj | None:
        if kind == "absent":
            return None
        return cm.new("Rule", "COMMENT", cm.new("Sequence", cm.new("String", "#"), cm.new("String", "!")), SIL if kind == "silent" else 0)

    # every combination of the two trivia rules: the fused rule stands for the whole
    # loop WHITESPACE* ~ (COMMENT ~ WHITESPACE*)*, so it may only exist for a lone silent rule
    trivia_kinds = {}
    for wk in ("absent", "silent choice", "loud choice", "silent sequence"):
        for ck in ("absent", "silent", "loud"):
            trivia_kinds[f"WHITESPACE {wk}, COMMENT {ck}"] = (wk, ck)
    mods = {"": 0, "_": SIL, "@": ATO, "$": COM, "!": NON}
    for tkind, mk in trivia_kinds.items():
        for msym, mbits in mods.items():
            n += 1
            wk, ck = mk
            trivia = {k: v for k, v in (("WHITESPACE", ws_rule(wk)), ("COMMENT", comment_rule(ck))) if v is not None}
            r = cm.new("Rule", "r", skip_idiom(), mbits)
            tagged = cm.new("Rule", "t", cm.new("Sequence", cm.new("Identifier", "s", tag="lab"), cm.new("String", "z")), 0)
            silent = cm.new("Rule", "s", cm.new("String", "q"), SIL)
            given = {"ANY": any_rule, **trivia, "r": r, "t": tagged, "s": silent}
            before = {k: (v, v.__dict__.get("expression")) for k, v in given.items()}
            table = dict(given)
            desc = f"trivia: {tkind}; r = {msym}{{ (!\"x\" ~ ANY)* }}"
            try:
                cm.call(optimizer, "optimize", table)
            except ModelRaise as err:
                bad.append(("optimize() raises on a well-formed grammar", f"{desc}: {err}"))
                continue
            # (a) nothing that was handed in has been rewritten
            for k, (obj, expr) in before.items():
                if obj.__dict__.get("expression") is not expr:
                    which = "a built-in rule object" if k == "ANY" else "a Rule object of the caller"
                    bad.append((f"optimize() rewrites {which} in place", f"{desc}: {k}.expression was replaced on the object that was passed in"))
            if any_rule.__dict__.get("expression") is not any_body:
                bad.append(("optimize() rewrites a built-in rule object in place", f"{desc}: ANY"))
            out_r = table.get("r")
            if not isinstance(out_r, Obj):
                bad.append(("a rule disappears from the table", f"{desc}: r"))
                continue
            got = shape(out_r.__dict__.get("expression"))
            # (b) atomic_only: the search node only where no trivia can be matched inside the rule
            trivia_defined = bool(trivia)
            atomic = bool(mbits & (ATO | COM))
            may_skip = atomic or not trivia_defined
            is_skip = isinstance(got, tuple) and got[0] == "SkipUntil"
            if is_skip and not may_skip:
                bad.append(("the skip rewrite is applied where implicit trivia is matched", f"{desc}: r becomes {got}"))
            if is_skip and got[1] != ("x",):
                bad.append(("the skip rewrite collects other terminators than the loop's", f"{desc}: r becomes {got}"))
            if not is_skip and may_skip:
                # not required (an optimization may decline) but then the loop must be intact
                if "SkipUntil" in repr(got):
                    bad.append(("the skip rewrite is applied below the loop it replaces", f"{desc}: r becomes {got}"))
            # (c) the tagged reference to a silent rule keeps its tag
            out_t = table.get("t")
            tshape = shape(out_t.__dict__.get("expression")) if isinstance(out_t, Obj) else None
            if "('#', 'lab')" not in repr(tshape):
                bad.append(("a tag is lost", f"{desc}: t = {{ #lab = s ~ \"z\" }} becomes {tshape}"))
            # (d) SKIP exactly for a lone silent trivia rule
            has_skip = "SKIP" in table
            lone = (wk, ck) if "absent" in (wk, ck) and (wk, ck) != ("absent", "absent") else None
            want_skip = lone is not None and (lone[0] == "silent choice" or lone[1] == "silent")
            if has_skip and not want_skip:
                bad.append(("a SKIP rule is fused where the trivia is not a lone silent rule", f"{desc}: SKIP = {shape(table['SKIP'].__dict__.get('expression'))}"))
            if has_skip:
                sk = table["SKIP"]
                if sk.__dict__.get("modifier") != (SIL | ATO):
                    bad.append(("the fused SKIP rule is not silent and atomic", f"{desc}: modifier {sk.__dict__.get('modifier')}"))
                se = sk.__dict__.get("expression")
                if lone is not None and lone[1] == "silent":
                    src = trivia["COMMENT"].__dict__.get("expression")
                    if shape(se) != ("Repeat", shape(src)):
                        bad.append(("the fused SKIP rule is not the repetition of the COMMENT body", f"{desc}: SKIP = {shape(se)}"))
                if lone is not None and lone[0] == "silent choice":
                    if not (isinstance(se, Obj) and "OptimizedChoice" in se.kinds):
                        bad.append(("the fused SKIP rule is not the squashed WHITESPACE choice", f"{desc}: SKIP = {shape(se)}"))
                    else:
                        try:
                            pat = cm.call(se, "build_optimized_pattern")
                            rx = rxoracle.compile_(pat)
                            for w in ("", " ", " \t ", "\t\tx", "x ", "  x"):
                                m = rx.match(w)
                                got_len = m.end() if m else None
                                want_len = len(w) - len(w.lstrip(" \t"))
                                if got_len != want_len:
                                    bad.append(("the fused SKIP pattern is not WHITESPACE*", f"{desc}: `{pat}` consumes {got_len} of {w!r}, WHITESPACE* consumes {want_len}"))
                                    break
                        except (ModelRaise, re.error, rxoracle.error) as err:
                            bad.append(("the fused SKIP pattern cannot be built", f"{desc}: {err}"))
    return n, bad


def check_skip_pass(repo: Repo, where: str) -> tuple[int, list[tuple[str, str]]]:
    """O16: the skip pass, evaluated from its syntax tree on a family of loop shapes.  `(!X ~ ANY)*` may become a
    search for the earliest terminator only when X is, after following groups, choices and rule references, a plain
    set of case-sensitive string literals - then the terminators are exactly those literals; any other shape (another
    predicate, another second element, a third element, a range, a case-insensitive literal, a sequence, a
    self-referential rule, a repetition other than `*`) must be left as it is."""
    cm = program(repo, where)
    if "skip" not in cm.env:
        raise AnalysisError("anchor vanished: the skip pass")
    consts = repo.mod("src/pest/grammar/rule.py").constants()
    SIL = consts["SILENT"]
    any_rule = cm.new("BuiltInRule", "ANY", cm.new("String", "<any>"), SIL) if "Any" not in cm.classes else cm.new("Any")
    S = lambda v: cm.new("String", v)  # noqa: E731
    CI = lambda v: cm.new("CIString", v)  # noqa: E731
    ID = lambda v: cm.new("Identifier", v)  # noqa: E731
    CH = lambda *xs: cm.new("Choice", *xs)  # noqa: E731
    G = lambda x: cm.new("Group", x)  # noqa: E731
    SEQ = lambda *xs: cm.new("Sequence", *xs)  # noqa: E731
    NOT = lambda x: cm.new("NegativePredicate", x)  # noqa: E731
    AND = lambda x: cm.new("PositivePredicate", x)  # noqa: E731
    REP = lambda x: cm.new("Repeat", x)  # noqa: E731
    rules = {
        "ANY": any_rule,
        "lits": cm.new("Rule", "lits", CH(S("a"), S("bc")), 0),
        "nested": cm.new("Rule", "nested", CH(ID("lits"), S("d")), SIL),
        "ci": cm.new("Rule", "ci", CH(S("a"), CI("b")), 0),
        "seq": cm.new("Rule", "seq", SEQ(S("a"), S("b")), 0),
        "loop": cm.new("Rule", "loop", CH(S("a"), ID("loop")), 0),
        "rng": cm.new("Rule", "rng", CH(S("a"), cm.new("Range", "b", "c")), 0),
        # a rule the pass has already rewritten: a search always matches, so `!searched` never does
        "searched": cm.new("Rule", "searched", cm.new("SkipUntil", ["a"]), consts["ATOMIC"]),
    }
    any_forms = [("ANY (node)", lambda: any_rule), ("ANY (reference)", lambda: ID("ANY"))]
    cases: list[tuple[str, object, tuple | None]] = []
    for aname, mk_any in any_forms:
        t = f" ~ {aname}"
        cases += [
            (f'(!"x"{t})*', lambda mk_any=mk_any: REP(G(SEQ(NOT(S("x")), mk_any()))), ("x",)),
            (f'(!("a" | "bc"){t})*', lambda mk_any=mk_any: REP(G(SEQ(NOT(G(CH(S("a"), S("bc")))), mk_any()))), ("a", "bc")),
            (f'(!("a" | ("b" | "c")){t})*', lambda mk_any=mk_any: REP(G(SEQ(NOT(G(CH(S("a"), G(CH(S("b"), S("c")))))), mk_any()))), ("a", "b", "c")),
            (f"(!lits{t})*", lambda mk_any=mk_any: REP(G(SEQ(NOT(ID("lits")), mk_any()))), ("a", "bc")),
            (f"(!nested{t})*", lambda mk_any=mk_any: REP(G(SEQ(NOT(ID("nested")), mk_any()))), ("a", "bc", "d")),
            (f'(!(lits | "z"){t})*', lambda mk_any=mk_any: REP(G(SEQ(NOT(G(CH(ID("lits"), S("z")))), mk_any()))), ("a", "bc", "z")),
            (f'(!""{t})*', lambda mk_any=mk_any: REP(G(SEQ(NOT(S("")), mk_any()))), ("",)),
            # must be declined
            (f'(!^"x"{t})*', lambda mk_any=mk_any: REP(G(SEQ(NOT(CI("x")), mk_any()))), None),
            (f"(!ci{t})*", lambda mk_any=mk_any: REP(G(SEQ(NOT(ID("ci")), mk_any()))), None),
            (f"(!seq{t})*", lambda mk_any=mk_any: REP(G(SEQ(NOT(ID("seq")), mk_any()))), None),
            (f"(!loop{t})*", lambda mk_any=mk_any: REP(G(SEQ(NOT(ID("loop")), mk_any()))), None),
            (f"(!rng{t})*", lambda mk_any=mk_any: REP(G(SEQ(NOT(ID("rng")), mk_any()))), None),
            (f"(!undefined{t})*", lambda mk_any=mk_any: REP(G(SEQ(NOT(ID("undefined")), mk_any()))), None),
            (f"(!searched{t})*  [searched = @{{ (!\"a\" ~ ANY)* }}, already rewritten]", lambda mk_any=mk_any: REP(G(SEQ(NOT(ID("searched")), mk_any()))), None),
            (f'(!("z" | searched){t})*', lambda mk_any=mk_any: REP(G(SEQ(NOT(G(CH(S("z"), ID("searched")))), mk_any()))), None),
            (f'(!("a" ~ "b"){t})*', lambda mk_any=mk_any: REP(G(SEQ(NOT(G(SEQ(S("a"), S("b")))), mk_any()))), None),
            (f'(&"x"{t})*', lambda mk_any=mk_any: REP(G(SEQ(AND(S("x")), mk_any()))), None),
            (f'(!"x"{t}{t})*', lambda mk_any=mk_any: REP(G(SEQ(NOT(S("x")), mk_any(), mk_any()))), None),
            (f'("q" ~ !"x"{t})*', lambda mk_any=mk_any: REP(G(SEQ(S("q"), NOT(S("x")), mk_any()))), None),
            (f'({aname} ~ !"x")*', lambda mk_any=mk_any: REP(G(SEQ(mk_any(), NOT(S("x"))))), None),
            (f'(!"x"{t})?', lambda mk_any=mk_any: cm.new("Optional", G(SEQ(NOT(S("x")), mk_any()))), None),
            (f'(!"x"{t})', lambda mk_any=mk_any: G(SEQ(NOT(S("x")), mk_any())), None),
        ]
    cases += [
        ('(!"x" ~ "y")*', lambda: REP(G(SEQ(NOT(S("x")), S("y")))), None),
        ('(!"x" ~ lits)*', lambda: REP(G(SEQ(NOT(S("x")), ID("lits")))), None),
        ('(!"x" | ANY)*', lambda: REP(G(CH(NOT(S("x")), any_rule))), None),
    ]
    bad: list[tuple[str, str]] = []
    for desc, mk, want in cases:
        node = mk()
        before = shape(node)
        try:
            out = cm.env["skip"](node, rules)
        except ModelRaise as err:
            bad.append(("the skip pass raises on a well-formed expression", f"`{desc}`: {err}"))
            continue
        got = shape(out)
        if want is None:
            if out is not node or got != before:
                bad.append(("the skip pass rewrites a loop that is not a search for plain literals", f"`{desc}` becomes {got}"))
        else:
            if not (isinstance(got, tuple) and got[0] == "SkipUntil"):
                continue  # declining is always allowed
            if got[1] != want and sorted(got[1]) == sorted(want):
                continue  # the order of terminators does not matter to an earliest-hit search
            if got[1] != want:
                miss = [x for x in want if x not in got[1]]
                extra = [x for x in got[1] if x not in want]
                cat = "the skip pass loses a terminator of the loop" if miss else "the skip pass collects a terminator the loop does not have" if extra else "the skip pass collects a terminator twice"
                if not miss and not extra:
                    continue  # duplicates do not change an earliest-hit search
                bad.append((cat, f"`{desc}` becomes {got}, the loop stops at {want}"))
        if shape(node) != before:
            bad.append(("the skip pass changes the expression it was given in place", f"`{desc}`"))
    return len(cases), bad
