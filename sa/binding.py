"""Bind the arguments of a call to the parameters of the function it resolves to.

Used where two call sites of one constructor must agree on *roles* (which argument
seeds which field) rather than on their text: a reordered signature with every caller
updated is behaviour-preserving, a caller that was left behind is not."""

from __future__ import annotations

import ast

from .core import AnalysisError


def bind_call(call: ast.Call, fn: ast.FunctionDef, where: str, method: bool = True) -> dict[str, ast.expr | None]:
    """{parameter name: argument expression, or None when the default applies}."""
    a = fn.args
    if any(isinstance(x, ast.Starred) for x in call.args) or any(k.arg is None for k in call.keywords):
        raise AnalysisError(f"{where}: call with * or ** arguments cannot be bound: {ast.unparse(call)}")
    pos = [p.arg for p in a.posonlyargs + a.args]
    if method:
        pos = pos[1:]
    out: dict[str, ast.expr | None] = {p: None for p in pos + [k.arg for k in a.kwonlyargs]}
    if len(call.args) > len(pos) and a.vararg is None:
        raise AnalysisError(f"{where}: more positional arguments than parameters: {ast.unparse(call)}")
    for p, arg in zip(pos, call.args):
        out[p] = arg
    for k in call.keywords:
        if k.arg not in out and a.kwarg is None:
            raise AnalysisError(f"{where}: keyword {k.arg} is not a parameter: {ast.unparse(call)}")
        out[k.arg] = k.value
    return out


def field_sources(init: ast.FunctionDef) -> dict[str, str]:
    """{field: parameter} for every ``self.<field> = <parameter>`` at the top level of __init__."""
    params = {p.arg for p in init.args.posonlyargs + init.args.args + init.args.kwonlyargs}
    out: dict[str, str] = {}
    for s in init.body:
        tgt = val = None
        if isinstance(s, ast.Assign) and len(s.targets) == 1:
            tgt, val = s.targets[0], s.value
        elif isinstance(s, ast.AnnAssign) and s.value is not None:
            tgt, val = s.target, s.value
        if isinstance(tgt, ast.Attribute) and isinstance(tgt.value, ast.Name) and tgt.value.id == "self" and isinstance(val, ast.Name) and val.id in params:
            out[tgt.attr] = val.id
    return out


def role_of(call: ast.Call, init: ast.FunctionDef, field: str, where: str) -> str | None:
    """Source text of the argument that ends up in ``self.<field>`` (None: default / not set from a parameter)."""
    src = field_sources(init).get(field)
    if src is None:
        raise AnalysisError(f"{where}: {init.name} does not set self.{field} from a parameter")
    arg = bind_call(call, init, where).get(src)
    return ast.unparse(arg) if arg is not None else None
