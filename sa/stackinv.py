"""Conservation law of the snapshotting stack (C09 CONSERVATION rule).

Inductive invariant of every correct delta encoding:

    len(popped) == sum over snapshots of (item_count - remained_count)

Each Stack method is executed *symbolically* (linear forms over P = len(popped),
N = len(items), (IC, RC) = latest snapshot entry, (OC, OR) = the one below) and on every
path the change of the left side must equal the change of the right side.
Nothing is run; a statement the executor does not know is an ANALYSIS-ERROR.
"""

from __future__ import annotations

import ast

from .core import AnalysisError
from .cursor import Form, add, const, show


def sym(name: str) -> Form:
    return ((name, 1),)


def subst(f: Form, name: str, repl: Form) -> Form:
    out: Form = ()
    for k, v in f:
        if k == name:
            for _ in range(abs(v)):
                out = add(out, repl, 1 if v > 0 else -1)
        else:
            out = add(out, ((k, v),))
    return out


class P:
    def __init__(self):
        self.env: dict[str, Form] = {}
        self.dP: Form = ()
        self.dS: Form = ()
        self.entries: list[tuple[Form, Form]] | None = None  # known top entries, top last; None = undecided
        self.has_snapshot: bool | None = None
        self.has_outer: bool | None = None
        self.popped_since = 0
        self.desc: list[str] = []
        self.eqs: list[tuple[str, Form]] = []
        self.notes: list[str] = []

    def fork(self) -> "P":
        q = P()
        q.env = dict(self.env)
        q.dP, q.dS = self.dP, self.dS
        q.entries = None if self.entries is None else list(self.entries)
        q.has_snapshot, q.has_outer = self.has_snapshot, self.has_outer
        q.desc = list(self.desc)
        q.eqs = list(self.eqs)
        q.notes = list(self.notes)
        return q


class StackExec:
    def __init__(self, where: str):
        self.where = where
        self.done: list[P] = []

    # ---- expressions
    def ev(self, n: ast.AST, p: P) -> Form | None:
        if isinstance(n, ast.Constant) and isinstance(n.value, int) and not isinstance(n.value, bool):
            return const(n.value)
        if isinstance(n, ast.Name):
            return p.env.get(n.id)
        if isinstance(n, ast.BinOp) and isinstance(n.op, (ast.Add, ast.Sub)):
            l, r = self.ev(n.left, p), self.ev(n.right, p)
            if l is None or r is None:
                return None
            return add(l, r, 1 if isinstance(n.op, ast.Add) else -1)
        if isinstance(n, ast.Call) and isinstance(n.func, ast.Name) and n.func.id == "len" and n.args:
            t = ast.unparse(n.args[0])
            if t == "self.popped":
                return add(sym("P"), p.dP)
            if t == "self.items":
                return p.env.get("#N", sym("N"))
        return None

    def top(self, p: P) -> tuple[Form, Form]:
        if p.entries:
            return p.entries[-1]
        raise AnalysisError(f"{self.where}: lengths[-1] read on a path without a known snapshot")

    # ---- statements
    def block(self, stmts: list[ast.stmt], p: P) -> list[P]:
        paths = [p]
        for s in stmts:
            nxt: list[P] = []
            for q in paths:
                nxt.extend(self.stmt(s, q))
            paths = nxt
            if not paths:
                break
        return paths

    def cond_lengths(self, test: ast.AST) -> str | None:
        t = ast.unparse(test)
        if t == "self.lengths":
            return "has"
        if t == "not self.lengths":
            return "hasnot"
        return None

    def stmt(self, s: ast.stmt, p: P) -> list[P]:  # noqa: PLR0911, PLR0912, PLR0915
        if isinstance(s, ast.Expr) and isinstance(s.value, ast.Constant):
            return [p]
        if isinstance(s, ast.Return):
            self.done.append(p)
            return []
        if isinstance(s, (ast.Assert, ast.Pass)):
            return [p]
        if isinstance(s, ast.If):
            c = self.cond_lengths(s.test)
            out: list[P] = []
            if c is not None:
                for branch_has in (True, False):
                    q = p.fork()
                    depth = len(q.desc)
                    which = "snapshot" if q.has_snapshot is None else "outer snapshot"
                    if q.has_snapshot is None:
                        q.has_snapshot = branch_has
                        q.entries = [(sym("OC"), sym("OR")), (sym("IC"), sym("RC"))] if branch_has else []
                    elif q.has_snapshot and q.entries is not None and len(q.entries) == 1 and q.has_outer is None:
                        # after popping the top entry: is there an enclosing snapshot?
                        q.has_outer = branch_has
                        if not branch_has:
                            q.entries = []
                    elif q.entries is not None:
                        if bool(q.entries) != branch_has:
                            continue  # infeasible
                    q.desc.append(("" if branch_has else "no ") + which)
                    _ = depth
                    body = s.body if (branch_has == (c == "has")) else s.orelse
                    out.extend(self.block(body, q))
                return out
            # `if not self.items: return`
            if ast.unparse(s.test) == "not self.items":
                q = p.fork()
                q.desc.append("empty stack")
                q.env["#N"] = ()
                out.extend(self.block(s.body, q))
                r = p.fork()
                out.extend(self.block(s.orelse, r))
                return out
            # data-dependent comparison: fork, with equality facts where an invariant gives one
            for val in (True, False):
                q = p.fork()
                q.desc.append(f"{ast.unparse(s.test)}={'T' if val else 'F'}")
                if isinstance(s.test, ast.Compare) and len(s.test.ops) == 1:
                    l, r = self.ev(s.test.left, q), self.ev(s.test.comparators[0], q)
                    op = s.test.ops[0]
                    # invariant item_count >= remained_count:  not (ic > rc)  =>  ic == rc
                    if l is not None and r is not None and isinstance(op, ast.Gt) and not val and len(l) == 1 and len(r) == 1 and l[0][1] == 1 and r[0][1] == 1:
                        pair = (l[0][0], r[0][0])
                        if pair in (("IC", "RC"), ("OC", "OR")):
                            q.dP, q.dS = subst(q.dP, pair[0], r), subst(q.dS, pair[0], r)
                            q.env = {k: subst(v, pair[0], r) for k, v in q.env.items()}
                            if q.entries:
                                q.entries = [(subst(a, pair[0], r), subst(b, pair[0], r)) for a, b in q.entries]
                            q.eqs.append((pair[0], r))
                out.extend(self.block(s.body if val else s.orelse, q))
            return out
        if isinstance(s, ast.Delete):
            for t in s.targets:
                if isinstance(t, ast.Subscript) and isinstance(t.slice, ast.Slice):
                    base = ast.unparse(t.value)
                    lo = self.ev(t.slice.lower, p) if t.slice.lower is not None else const(0)
                    if base == "self.popped":
                        cur = add(sym("P"), p.dP)
                        hi = self.ev(t.slice.upper, p) if t.slice.upper is not None else cur
                        if lo is None or hi is None:
                            raise AnalysisError(f"{self.where}: non-linear slice in {ast.unparse(s)}")
                        p.dP = add(p.dP, add(hi, lo, -1), -1)
                    elif base == "self.items":
                        pass
                    else:
                        raise AnalysisError(f"{self.where}: del on {base}")
                else:
                    raise AnalysisError(f"{self.where}: unsupported del {ast.unparse(s)}")
            return [p]
        if isinstance(s, ast.Assign):
            t, v = s.targets[0], s.value
            vt = ast.unparse(v)
            if isinstance(t, ast.Tuple) and vt in ("self.lengths[-1]", "self.lengths.pop()"):
                ic, rc = self.top(p)
                names = [e.id if isinstance(e, ast.Name) else None for e in t.elts]
                if len(names) != 2:
                    raise AnalysisError(f"{self.where}: unexpected unpacking {ast.unparse(s)}")
                if names[0] and names[0] != "_":
                    p.env[names[0]] = ic
                if names[1] and names[1] != "_":
                    p.env[names[1]] = rc
                if vt.endswith(".pop()"):
                    p.dS = add(p.dS, add(ic, rc, -1), -1)
                    p.entries = p.entries[:-1] if p.entries else []
                    # the entry below is only known to exist after a test; keep it symbolic
                return [p]
            if ast.unparse(t) == "self.lengths[-1]":
                if not (isinstance(v, ast.Tuple) and len(v.elts) == 2):
                    raise AnalysisError(f"{self.where}: lengths[-1] assigned a non-pair")
                a, b = self.ev(v.elts[0], p), self.ev(v.elts[1], p)
                if a is None or b is None:
                    raise AnalysisError(f"{self.where}: non-linear snapshot entry {ast.unparse(v)}")
                ic, rc = self.top(p)
                p.dS = add(p.dS, add(add(a, b, -1), add(ic, rc, -1), -1))
                p.entries[-1] = (a, b)  # type: ignore[index]
                return [p]
            if isinstance(t, ast.Name):
                if vt == "self.items.pop()":
                    p.env["#N"] = add(p.env.get("#N", sym("N")), const(1), -1)
                    p.env.pop(t.id, None)
                    return [p]
                f = self.ev(v, p)
                if f is not None:
                    p.env[t.id] = f
                else:
                    p.env.pop(t.id, None)
                return [p]
            raise AnalysisError(f"{self.where}: unsupported assignment {ast.unparse(s)}")
        if isinstance(s, ast.Expr) and isinstance(s.value, ast.Call) and isinstance(s.value.func, ast.Attribute):
            c = s.value
            recv, meth = ast.unparse(c.func.value), c.func.attr
            if recv == "self.popped":
                if meth == "append":
                    p.dP = add(p.dP, const(1))
                elif meth == "extend":
                    a = c.args[0]
                    inner = a.args[0] if isinstance(a, ast.Call) and ast.unparse(a.func) == "reversed" and a.args else a
                    k: Form | None = None
                    if isinstance(inner, ast.Subscript) and ast.unparse(inner.value) == "self.items" and isinstance(inner.slice, ast.Slice) and inner.slice.lower is None:
                        k = self.ev(inner.slice.upper, p) if inner.slice.upper is not None else p.env.get("#N", sym("N"))
                        if inner.slice.upper is not None:
                            p.notes.append("items[:k] assumed to have k elements (remained_count <= len(items))")
                    elif isinstance(inner, ast.Name):
                        k = p.env.get("#len:" + inner.id)
                    if k is None:
                        raise AnalysisError(f"{self.where}: cannot size {ast.unparse(c)}")
                    p.dP = add(p.dP, k)
                elif meth == "clear":
                    p.dP = add((), sym("P"), -1)
                    if p.has_snapshot is False:
                        p.dP = ()  # invariant: no snapshot => popped is empty
                else:
                    raise AnalysisError(f"{self.where}: popped.{meth}")
                return [p]
            if recv == "self.lengths":
                if meth == "append":
                    v = c.args[0]
                    if not (isinstance(v, ast.Tuple) and len(v.elts) == 2):
                        raise AnalysisError(f"{self.where}: lengths.append of a non-pair")
                    a, b = self.ev(v.elts[0], p), self.ev(v.elts[1], p)
                    if a is None or b is None:
                        raise AnalysisError(f"{self.where}: non-linear snapshot entry")
                    p.dS = add(p.dS, add(a, b, -1))
                    p.entries = (p.entries or []) + [(a, b)]
                elif meth == "clear":
                    if p.has_snapshot is not False:
                        raise AnalysisError(f"{self.where}: lengths.clear() on a path with snapshots")
                elif meth == "pop":
                    ic, rc = self.top(p)
                    p.dS = add(p.dS, add(ic, rc, -1), -1)
                    p.entries = p.entries[:-1] if p.entries else []
                else:
                    raise AnalysisError(f"{self.where}: lengths.{meth}")
                return [p]
            if recv == "self.items":
                if meth == "clear":
                    p.env["#N"] = ()
                elif meth == "append":
                    p.env["#N"] = add(p.env.get("#N", sym("N")), const(1))
                elif meth == "pop":
                    p.env["#N"] = add(p.env.get("#N", sym("N")), const(1), -1)
                elif meth == "extend":
                    pass
                else:
                    raise AnalysisError(f"{self.where}: items.{meth}")
                return [p]
        if isinstance(s, ast.Assign) or isinstance(s, ast.AnnAssign):
            return [p]
        raise AnalysisError(f"{self.where}: conservation analysis does not know `{ast.unparse(s)[:60]}`")


def check_method(fn: ast.FunctionDef, where: str) -> list[tuple[str, str, str, bool, str]]:
    ex = StackExec(where)
    p0 = P()
    # `removed = self.items[:]` style copies get a length
    for n in ast.walk(fn):
        if isinstance(n, ast.Assign) and isinstance(n.targets[0], ast.Name) and ast.unparse(n.value) == "self.items[:]":
            p0.env["#len:" + n.targets[0].id] = sym("N")
    tail = ex.block(fn.body, p0)
    paths = ex.done + tail
    out = []
    for p in paths:
        ok = p.dP == p.dS
        out.append((", ".join(p.desc) or "straight", show(p.dP), show(p.dS), ok, "; ".join(p.notes)))
    if not out:
        raise AnalysisError(f"{where}: no path analysed")
    return out
