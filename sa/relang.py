"""E5 — regular-language engine over the full code-point space.

Regex ASTs (our own tiny algebra) -> Thompson NFA -> on-the-fly subset construction
over a partition of U+0000..U+10FFFF induced by the character classes involved;
product construction for equivalence / inclusion with a *shortest witness string*.

AST:  ('eps',) ('empty',) ('set', intervals) ('cat', [r...]) ('alt', [r...])
      ('star', r) ('opt', r) ('rep', r, lo, hi|None)
Python regex constants are read with ``re._parser`` (no pattern is compiled or run).
"""

from __future__ import annotations

import re._constants as sc
import re._parser as sp
from collections import deque

from .core import AnalysisError

MAXCP = 0x10FFFF


# ----------------------------------------------------------------------------- interval sets
def norm(iv) -> tuple:
    iv = sorted(iv)
    out: list = []
    for a, b in iv:
        if a > b:
            continue
        if out and a <= out[-1][1] + 1:
            out[-1] = (out[-1][0], max(out[-1][1], b))
        else:
            out.append((a, b))
    return tuple(out)


def compl(iv) -> tuple:
    out = []
    prev = 0
    for a, b in norm(iv):
        if a > prev:
            out.append((prev, a - 1))
        prev = b + 1
    if prev <= MAXCP:
        out.append((prev, MAXCP))
    return tuple(out)


def lit(s: str):
    return ("cat", [("set", ((ord(c), ord(c)),)) for c in s]) if len(s) != 1 else ("set", ((ord(s), ord(s)),))


def chars(*ranges) -> tuple:
    iv = []
    for r in ranges:
        if isinstance(r, str):
            iv.append((ord(r), ord(r)))
        else:
            iv.append((ord(r[0]), ord(r[1])))
    return ("set", norm(iv))


ANY = ("set", ((0, MAXCP),))

_CATS = {
    sc.CATEGORY_DIGIT: [(48, 57)],
    sc.CATEGORY_SPACE: [(9, 13), (32, 32)],
    sc.CATEGORY_WORD: [(48, 57), (65, 90), (95, 95), (97, 122)],
}


# ----------------------------------------------------------------------------- python regex -> AST
class Lookaround:
    lead = False

    def __init__(self, negate: bool, ast):
        self.negate = negate
        self.ast = ast


def from_python(pattern: str, *, ascii_classes: bool = True) -> tuple[tuple, list]:
    """Returns (AST, trailing look-aheads).  Look-arounds anywhere but at the end raise."""
    try:
        parsed = sp.parse(pattern)
    except Exception as e:  # noqa: BLE001
        raise AnalysisError(f"regex constant {pattern!r} is outside re._parser's syntax: {e}") from e
    items = list(parsed.data)
    trailing: list = []
    # leading look-aheads restrict the whole match: they are returned with .lead = True
    leading: list = []
    while items and items[0][0] in (sc.ASSERT, sc.ASSERT_NOT) and len(items) > 1:
        op, (direction, sub) = items.pop(0)
        if direction != 1:
            raise AnalysisError(f"look-behind in {pattern!r}")
        la = Lookaround(op is sc.ASSERT_NOT, _seq(list(sub.data)))
        la.lead = True
        leading.append(la)
    while items and items[-1][0] in (sc.ASSERT, sc.ASSERT_NOT):
        op, (direction, sub) = items.pop()
        if direction != 1:
            raise AnalysisError(f"look-behind in {pattern!r}")
        trailing.insert(0, Lookaround(op is sc.ASSERT_NOT, _seq(list(sub.data))))
    return _seq(items), leading + trailing


def _charset(items) -> tuple:
    iv = []
    neg = False
    for op, av in items:
        if op is sc.NEGATE:
            neg = True
        elif op is sc.LITERAL:
            iv.append((av, av))
        elif op is sc.RANGE:
            iv.append(av)
        elif op is sc.CATEGORY:
            if av in _CATS:
                iv.extend(_CATS[av])
            elif av is sc.CATEGORY_NOT_DIGIT:
                iv.extend(compl(_CATS[sc.CATEGORY_DIGIT]))
            elif av is sc.CATEGORY_NOT_SPACE:
                iv.extend(compl(_CATS[sc.CATEGORY_SPACE]))
            elif av is sc.CATEGORY_NOT_WORD:
                iv.extend(compl(_CATS[sc.CATEGORY_WORD]))
            else:
                raise AnalysisError(f"unsupported category {av}")
        else:
            raise AnalysisError(f"unsupported class item {op}")
    iv = norm(iv)
    return compl(iv) if neg else iv


def _seq(data) -> tuple:
    parts = []
    for op, av in data:
        if op is sc.LITERAL:
            parts.append(("set", ((av, av),)))
        elif op is sc.NOT_LITERAL:
            parts.append(("set", compl(((av, av),))))
        elif op is sc.ANY:
            parts.append(("set", compl(((10, 10),))))
        elif op is sc.IN:
            parts.append(("set", _charset(av)))
        elif op is sc.BRANCH:
            parts.append(("alt", [_seq(list(alt.data) if hasattr(alt, "data") else alt) for alt in av[1]]))
        elif op is sc.SUBPATTERN:
            parts.append(_seq(list(av[3].data)))
        elif op in (sc.MAX_REPEAT, sc.MIN_REPEAT):
            lo, hi, sub = av
            parts.append(("rep", _seq(list(sub.data)), lo, None if hi is sc.MAXREPEAT else hi))
        elif op in (sc.ASSERT, sc.ASSERT_NOT):
            raise AnalysisError("look-around in the middle of a pattern")
        elif op is sc.AT:
            raise AnalysisError(f"anchor {av} in a token pattern")
        else:
            raise AnalysisError(f"unsupported regex construct {op}")
    if len(parts) == 1:
        return parts[0]
    return ("cat", parts)


# ----------------------------------------------------------------------------- NFA
class NFA:
    def __init__(self):
        self.n = 0
        self.eps: dict[int, set[int]] = {}
        self.tr: list[tuple[int, tuple, int]] = []

    def new(self) -> int:
        self.n += 1
        return self.n - 1

    def e(self, a: int, b: int) -> None:
        self.eps.setdefault(a, set()).add(b)


def build(nfa: NFA, r, start: int) -> int:  # noqa: PLR0912
    k = r[0]
    if k == "eps":
        return start
    if k == "empty":
        return nfa.new()
    if k == "set":
        n = nfa.new()
        if r[1]:
            nfa.tr.append((start, r[1], n))
        return n
    if k == "cat":
        cur = start
        for x in r[1]:
            cur = build(nfa, x, cur)
        return cur
    if k == "alt":
        end = nfa.new()
        for x in r[1]:
            s0 = nfa.new()
            nfa.e(start, s0)
            e0 = build(nfa, x, s0)
            nfa.e(e0, end)
        return end
    if k == "star":
        s0 = nfa.new()
        nfa.e(start, s0)
        e0 = build(nfa, r[1], s0)
        nfa.e(e0, s0)
        end = nfa.new()
        nfa.e(s0, end)
        return end
    if k == "opt":
        end = nfa.new()
        nfa.e(start, end)
        e0 = build(nfa, r[1], start)
        nfa.e(e0, end)
        return end
    if k == "rep":
        _, sub, lo, hi = r
        cur = start
        for _ in range(lo):
            cur = build(nfa, sub, cur)
        if hi is None:
            return build(nfa, ("star", sub), cur)
        end = nfa.new()
        nfa.e(cur, end)
        for _ in range(hi - lo):
            cur = build(nfa, sub, cur)
            nfa.e(cur, end)
        return end
    raise AnalysisError(f"unknown regex AST node {k}")


class Lang:
    """A language given by boolean structure over NFAs:  ('nfa', nfa, s, e) | ('and', a, b) | ('not', a)."""

    def __init__(self, kind, *args):
        self.kind = kind
        self.args = args

    @staticmethod
    def of(r) -> "Lang":
        nfa = NFA()
        s = nfa.new()
        e = build(nfa, r, s)
        return Lang("nfa", nfa, s, e)

    def __and__(self, other: "Lang") -> "Lang":
        return Lang("and", self, other)

    def __invert__(self) -> "Lang":
        return Lang("not", self)

    def __or__(self, other: "Lang") -> "Lang":
        return ~(~self & ~other)

    # ---- on-the-fly evaluation
    def nfas(self) -> list[NFA]:
        if self.kind == "nfa":
            return [self.args[0]]
        out = []
        for a in self.args:
            out.extend(a.nfas())
        return out

    def start(self):
        if self.kind == "nfa":
            nfa, s, _ = self.args
            return _closure(nfa, {s})
        return tuple(a.start() for a in self.args)

    def step(self, st, cp: int):
        if self.kind == "nfa":
            nfa = self.args[0]
            out = set()
            for src, iv, dst in nfa.tr:
                if src in st and any(lo <= cp <= hi for lo, hi in iv):
                    out.add(dst)
            return _closure(nfa, out)
        return tuple(a.step(s, cp) for a, s in zip(self.args, st, strict=True))

    def accepts(self, st) -> bool:
        if self.kind == "nfa":
            return self.args[2] in st
        if self.kind == "and":
            return self.args[0].accepts(st[0]) and self.args[1].accepts(st[1])
        return not self.args[0].accepts(st[0])


def _closure(nfa: NFA, S) -> frozenset:
    st = list(S)
    seen = set(S)
    while st:
        x = st.pop()
        for y in nfa.eps.get(x, ()):
            if y not in seen:
                seen.add(y)
                st.append(y)
    return frozenset(seen)


def atoms(langs: list[Lang]) -> list[tuple[int, int]]:
    pts = {0, MAXCP + 1}
    for lg in langs:
        for n in lg.nfas():
            for _, iv, _ in n.tr:
                for a, b in iv:
                    pts.add(a)
                    pts.add(b + 1)
    p = sorted(pts)
    return [(p[i], p[i + 1] - 1) for i in range(len(p) - 1)]


def _rep_char(atom: tuple[int, int]) -> str:
    lo, hi = atom
    for c in range(lo, min(hi, lo + 300) + 1):
        ch = chr(c)
        if ch.isprintable() and not ch.isspace() and not (0xD800 <= c <= 0xDFFF):
            return ch
    return chr(lo)


def witness(lang: Lang, max_states: int = 200000) -> tuple[str | None, int]:
    """Shortest string in ``lang`` (None if empty), and the number of product states explored."""
    at = atoms([lang])
    start = lang.start()
    q = deque([(start, "")])
    seen = {start}
    while q:
        st, w = q.popleft()
        if lang.accepts(st):
            return w, len(seen)
        for atom in at:
            nx = lang.step(st, atom[0])
            if nx not in seen:
                if len(seen) > max_states:
                    raise AnalysisError("regular-language product exceeds the state budget")
                seen.add(nx)
                q.append((nx, w + _rep_char(atom)))
    return None, len(seen)


def compare(a: Lang, b: Lang) -> tuple[str | None, str | None, int]:
    """(shortest string only in a, shortest string only in b, states explored)."""
    w1, n1 = witness(a & ~b)
    w2, n2 = witness(b & ~a)
    return w1, w2, n1 + n2


def describe(w: str | None) -> str:
    if w is None:
        return "none"
    return repr(w)
