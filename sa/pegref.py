"""A reference reading of a .pest grammar: pest's PEG semantics over the checker's own reader (sa/pestlang.py).

This is the *specification* side of the rules that decide what a bundled grammar text denotes (C17 JSON-TREE,
CALC-SEM): ordered choice, greedy repetition without give-back, implicit trivia `(WHITESPACE | COMMENT)*` after
every element of a sequence that has a following element and between the iterations of a repetition (given back
when no iteration follows), none of it inside `@` / `$` rules until a `!` rule, one pair per successful non-silent
rule outside predicates, no inner pairs under `@`, an `EOI` pair.  Nothing of python-pest is involved: the grammar
file is read by sa/pestlang.py and interpreted here.  That python-pest's engines implement these semantics is what
C03 / C04 / C05 decide; the rules built on this module decide what the *grammar files* say.
"""

from __future__ import annotations

from .core import AnalysisError
from .pestlang import BUILTIN_SETS, GENERAL_CATEGORIES, in_category


class Node:
    """A pair of the reference tree."""

    __slots__ = ("name", "start", "end", "children")

    def __init__(self, name: str, start: int, end: int, children: list["Node"]):
        self.name, self.start, self.end, self.children = name, start, end, children

    def __repr__(self) -> str:
        return f"{self.name}({self.start},{self.end}){self.children if self.children else ''}"


class PegRef:
    def __init__(self, rules: dict, where: str, max_steps: int = 400000):
        self.rules, self.where, self.max_steps = rules, where, max_steps
        self.text = ""
        self.steps = 0
        self.stack: list[str] = []

    # ------------------------------------------------------------------ entry
    def parse(self, rule: str, text: str, pos: int = 0) -> tuple[int, list[Node]] | None:
        """(end, pairs) or None."""
        if rule not in self.rules:
            raise AnalysisError(f"{self.where}: anchor vanished: rule {rule}")
        self.text, self.steps, self.stack = text, 0, []
        r = self.ev(("id", rule), pos, False, False)
        return None if r is None else r

    # ------------------------------------------------------------------ trivia
    def skip(self, pos: int, atomic: bool) -> tuple[int, list[Node]]:
        """(WHITESPACE | COMMENT)* in a non-atomic context; trivia rules are matched atomically."""
        out: list[Node] = []
        if atomic:
            return pos, out
        names = [n for n in ("WHITESPACE", "COMMENT") if n in self.rules]
        if not names:
            return pos, out
        while True:
            moved = False
            for n in names:
                keep = list(self.stack)
                r = self.rule(n, pos, True, False)
                if r is not None and r[0] > pos:
                    pos = r[0]
                    out.extend(r[1])
                    moved = True
                    break
                self.stack = keep
            if not moved:
                return pos, out

    # ------------------------------------------------------------------ rules
    def rule(self, name: str, pos: int, atomic: bool, hidden: bool) -> tuple[int, list[Node]] | None:
        mod, body = self.rules[name]
        in_atomic = atomic
        in_hidden = hidden
        if mod == "@":
            in_atomic, in_hidden = True, True
        elif mod == "$":
            in_atomic, in_hidden = True, False
        elif mod == "!":
            in_atomic, in_hidden = False, False
        r = self.ev(body, pos, in_atomic, in_hidden)
        if r is None:
            return None
        end, kids = r
        if mod == "_":
            return end, kids
        if hidden:
            return end, []
        return end, [Node(name, pos, end, [] if mod == "@" else kids)]

    # ------------------------------------------------------------------ expressions
    def ev(self, e, pos: int, atomic: bool, hidden: bool) -> tuple[int, list[Node]] | None:  # noqa: PLR0911, PLR0912, PLR0915
        self.steps += 1
        if self.steps > self.max_steps:
            raise AnalysisError(f"{self.where}: the reference reading of the grammar does not come back within {self.max_steps} steps")
        t = self.text
        k = e[0]
        if k == "str":
            return (pos + len(e[1]), []) if t.startswith(e[1], pos) else None
        if k == "istr":
            seg = t[pos : pos + len(e[1])]
            same = len(seg) == len(e[1]) and all(a == b or (a.isascii() and b.isascii() and a.lower() == b.lower()) for a, b in zip(seg, e[1]))
            return (pos + len(e[1]), []) if same else None
        if k == "range":
            return (pos + 1, []) if pos < len(t) and e[1] <= t[pos] <= e[2] else None
        if k == "id":
            return self.ident(e[1], pos, atomic, hidden)
        if k == "seq":
            out: list[Node] = []
            keep = list(self.stack)
            for i, item in enumerate(e[1]):
                if i:
                    pos, tr = self.skip(pos, atomic)
                    out.extend(tr if not hidden else [])
                r = self.ev(item, pos, atomic, hidden)
                if r is None:
                    self.stack = keep
                    return None
                pos = r[0]
                out.extend(r[1])
            return pos, out
        if k == "choice":
            for alt in e[1]:
                keep = list(self.stack)
                r = self.ev(alt, pos, atomic, hidden)
                if r is not None:
                    return r
                self.stack = keep
            return None
        if k == "opt":
            keep = list(self.stack)
            r = self.ev(e[1], pos, atomic, hidden)
            if r is None:
                self.stack = keep
                return pos, []
            return r
        if k in ("star", "plus", "rep"):
            lo, hi = (0, "inf") if k == "star" else (1, "inf") if k == "plus" else (e[2], e[3])
            out = []
            n = 0
            while hi == "inf" or n < hi:
                keep = list(self.stack)
                p2, tr = (pos, []) if n == 0 else self.skip(pos, atomic)
                r = self.ev(e[1], p2, atomic, hidden)
                if r is None:
                    self.stack = keep
                    break
                if r[0] == pos and hi == "inf" and n >= lo:
                    break  # an iteration that matched nothing: pest rejects such grammars; the reading stops here
                pos = r[0]
                out.extend(tr if not hidden else [])
                out.extend(r[1])
                n += 1
            return (pos, out) if n >= lo else None
        if k in ("pos", "neg"):
            keep = list(self.stack)
            r = self.ev(e[1], pos, atomic, hidden)
            self.stack = keep
            return (pos, []) if (r is not None) == (k == "pos") else None
        if k == "push":
            r = self.ev(e[1], pos, atomic, hidden)
            if r is not None:
                self.stack.append(t[pos : r[0]])
            return r
        if k == "push_literal":
            self.stack.append(e[1])
            return pos, []
        raise AnalysisError(f"{self.where}: the reference reading has no semantics for {k}")

    def ident(self, name: str, pos: int, atomic: bool, hidden: bool) -> tuple[int, list[Node]] | None:  # noqa: PLR0911, PLR0912
        t = self.text
        if name in self.rules:
            return self.rule(name, pos, atomic, hidden)
        if name == "SOI":
            return (pos, []) if pos == 0 else None
        if name == "EOI":
            return (pos, [] if hidden else [Node("EOI", pos, pos, [])]) if pos == len(t) else None
        if name == "NEWLINE":
            for nl in ("\n", "\r\n", "\r"):
                if t.startswith(nl, pos):
                    return pos + len(nl), []
            return None
        if name in BUILTIN_SETS:
            if pos < len(t) and any(lo <= ord(t[pos]) <= hi for lo, hi in BUILTIN_SETS[name]):
                return pos + 1, []
            return None
        if name in GENERAL_CATEGORIES:
            return (pos + 1, []) if pos < len(t) and in_category(name, t[pos]) else None
        if name in ("PEEK", "POP"):
            if not self.stack or not t.startswith(self.stack[-1], pos):
                return None
            top = self.stack[-1]
            if name == "POP":
                self.stack.pop()
            return pos + len(top), []
        if name == "DROP":
            if not self.stack:
                return None
            self.stack.pop()
            return pos, []
        if name in ("PEEK_ALL", "POP_ALL"):
            p = pos
            for s in reversed(self.stack):
                if not t.startswith(s, p):
                    return None
                p += len(s)
            if name == "POP_ALL":
                self.stack.clear()
            return p, []
        raise AnalysisError(f"{self.where}: the reference reading does not know the rule {name}")
