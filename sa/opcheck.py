"""Operator-obligation analysis: generic contract K (R1-R5, R7), operator specs,
terminal specs, Rule and parse_trivia obligations, sibling parity.

``analyse(repo, tier)`` runs everything once and returns an :class:`OpReport`
whose findings are tagged with the properties they bear on; the per-property
checks (props/*.py) select from it.
"""

from __future__ import annotations

import ast
import itertools
from dataclasses import dataclass, field

from . import gensem, ops, opsem, opspec, tmpl
from .core import AnalysisError, Finding
from .flow import Sym
from .ops import PathRec
from .repo import Repo

RULE_REL = "src/pest/grammar/rule.py"
STATE_REL = "src/pest/state.py"
GEN_REL = "src/pest/grammar/codegen/generate.py"

STACK_TERMINALS = {"Peek", "Pop", "Drop", "PeekAll", "PopAll", "PeekSlice", "PushLiteral"}
SIMPLE_TERMINALS = {"String", "CIString", "Range", "_Any", "_SOI", "_EOI", "RegexExpression", "OptimizedChoice", "OptimizedChoiceRepeat", "SkipUntil"}
ABSTRACT = {"Expression", "Terminal"}
RULE_CLASSES = {"Rule", "GrammarRule", "BuiltInRule", "ASCIIRule", "UnicodePropertyRule", "Any", "SOI", "EOI"}


@dataclass
class Tagged:
    finding: Finding
    props: set


@dataclass
class OpReport:
    findings: dict = field(default_factory=dict)  # key -> Tagged
    obligations: dict = field(default_factory=dict)  # prop -> [ (rule, construct, what, ok) ]
    units: dict = field(default_factory=dict)
    samples: list = field(default_factory=list)
    skeleton_sources: list = field(default_factory=list)  # (label, source, constants)
    hygiene: list = field(default_factory=list)  # Hole records
    fail_parity: dict = field(default_factory=dict)
    deferred: list = field(default_factory=list)  # what E1 / E2 could not analyse: the semantic rules still run

    def defer(self, err: Exception) -> None:
        msg = str(err)
        if msg not in self.deferred:
            self.deferred.append(msg)

    def count(self, unit: str, n: int = 1) -> None:
        self.units[unit] = self.units.get(unit, 0) + n

    def oblige(self, props: set, rule: str, construct: str, what: str, ok: bool, finding: Finding | None = None) -> None:
        for p in props:
            self.obligations.setdefault(p, []).append((rule, construct, what, ok))
        if not ok:
            f = finding or Finding(rule, construct, what, what)
            t = self.findings.get(f.key)
            if t is None:
                self.findings[f.key] = Tagged(f, set(props))
            else:
                t.props |= props


def short(construct: str) -> str:
    return construct.split("::")[-1]


# ----------------------------------------------------------------------------- generic contract
def props_for(side: str, cls: str, rule: str) -> set:
    """Which properties a (side, operator, rule) obligation is a necessary condition of."""
    p: set = set()
    gen = side == "generate"
    if gen:
        p.add("C01")
    if cls == "parse_trivia":
        p.add("C04")
        if rule in ("R1", "R2", "K2"):
            p.add("C08")
        if rule in ("R1", "R2"):
            # a failed WHITESPACE / COMMENT attempt is a failed alternative of the implicit
            # (WHITESPACE | COMMENT)*: what it did to the user stack must be undone too
            p.add("C05")
        if rule == "K2":
            p.add("C06")
        if rule in ("RAISE", "R5"):
            p.add("C07")
        return p
    stack_t = cls in STACK_TERMINALS or cls == "Push"
    if rule in ("R1", "R2", "K2", "SPEC"):
        if not gen and not stack_t:
            p.add("C03")
        if cls in opspec.BACKTRACKING_OPS or cls in ("Group", "Identifier"):
            p.add("C08")
        if cls in opspec.BACKTRACKING_OPS and rule in ("R1", "R2"):
            p.add("C05")
        if stack_t:
            p.add("C05")
        if rule == "K2":
            p.add("C06")
    if rule == "TRIVIA":
        p |= {"C04"}
    if rule == "SHARED-LIST":
        return {"C15", "C01"}
    if rule in ("R5",):
        p |= {"C01", "C07"}
    if rule == "RAISE":
        p |= {"C07"}
        if stack_t:
            p.add("C05")
    if rule == "POS":
        p |= {"C16"}
        if not gen:
            p.add("C03")
    if rule == "TERM":
        if stack_t:
            p.add("C05")
        elif not gen:
            p.add("C03")
    if rule in ("ATOM", "HIDE"):
        p |= {"C04"}
    if rule == "HIDE":
        p |= {"C06"}
    if rule in ("TAGS",):
        p |= {"C06", "C08"}
    if rule in ("FRAMES", "NEG", "SUPPRESS", "FAILLABEL", "FAILPOS"):
        p |= {"C13"}
    if rule in ("RESULT",):
        p |= {"C07"}
    if cls in ("SkipUntil", "OptimizedChoice", "OptimizedChoiceRepeat", "RegexExpression") and rule in ("TERM", "POS", "RAISE", "R1", "R2", "K2"):
        p.add("C02")
    if not p:
        p.add("C01" if gen else "C03")
    return p


def generic_checks(rep: OpReport, rec: PathRec, cls: str) -> None:  # noqa: PLR0912
    c = rec.construct
    side = rec.side
    succ = rec.result is True
    where = "success" if succ else "failure" if rec.result is False else str(rec.result)
    detail = {"variant": rec.variant, "path": rec.trace_str(), "result": str(rec.result)}

    def ob(rule: str, what: str, ok: bool, extra_props: set | None = None) -> None:
        props = props_for(side, cls, rule) | (extra_props or set())
        rep.oblige(props, rule, c, what, ok, Finding(rule, c, what, f"{short(c)}: {what}", detail))

    for e in rec.events:
        if e[0] == "ABSPOS":
            ok_abs = cls == "_SOI" and e[1] == 0
            rep.oblige({"C16"}, "ABSPOS", c, "only SOI compares the position with an absolute offset (0)" if ok_abs else f"the position is compared with the absolute offset {e[1]}", ok_abs,
                       Finding("ABSPOS", c, f"the position is compared with the absolute offset {e[1]}", f"{short(c)}: state.pos is compared with the constant {e[1]}; parsing from start_pos=k would differ from parsing the suffix", detail))
    raised = isinstance(rec.result, str) and rec.result.startswith("raise:")
    ob("RAISE", f"raises {str(rec.result)[6:]}" if raised else "does not raise", not raised)
    if raised:
        return
    ob("R1", f"checkpoint(s) left open at a {where} exit" if rec.open_ckpts else "checkpoint depth restored at exit", rec.open_ckpts == 0)
    if not any(r == "R5" for r, _ in rec.notes):
        ob("RESULT", "result is not a definite bool on some path" if rec.result is None else "result is a bool", rec.result is not None)
    for rule, msg in rec.notes:
        if rule in ("R1", "R2", "R5", "POS", "FAILLABEL", "FAILPOS", "RAWSNAP", "STATEWRITE", "STACK"):
            # ok()/restore() with nothing open pops an empty list: IndexError escapes parse() (C07; the E3 triage
            # entry for that pop is SAFE *because of* this rule)
            extra = {"C07"} if rule == "R1" and "without an open checkpoint" in msg else None
            ob(rule if rule not in ("RAWSNAP", "STATEWRITE", "STACK") else "R2", _norm_note(msg), False, extra)
    for rule, msg in rec.notes:
        if rule == "SHAREDLIST":
            what_ = _norm_note(msg)  # a matter of isolation between calls (C15) only: within one call nothing changes
            rep.oblige({"C15"}, "SHARED-LIST", c, what_, False, Finding("SHARED-LIST", c, what_, f"{short(c)}: {what_}", detail))
    if not any(r == "R2" for r, _ in rec.notes):
        ob("R2", "no attempt starts from a dirty state", True)
    if any(e[0] in ("ADV", "SETPOS", "MATCH") for e in rec.events) and not any(r == "POS" for r, _ in rec.notes):
        ob("POS", "every input access is at a position and every position write is a justified advance or a saved position", True)
    if succ:
        ob("R2", "success exit in a dirty state (failed attempt not rewound)" if rec.dirty else "success exit state is clean", not rec.dirty)
        if cls not in RULE_CLASSES:
            what, ok = k2_class(rec)
            extra = {"C04"} if "trivia" in what else set()
            ob("K2", what, ok, extra)
    ob("ATOM", f"atomic depth not restored at a {where} exit" if (rec.atomic_out != ("E", 0) or rec.atomic_saves) else "atomic depth restored", rec.atomic_out == ("E", 0) and not rec.atomic_saves)
    ob("HIDE", f"pair visibility (hide_pairs) not restored at a {where} exit" if (rec.hide_out != rec.hide_in or rec.hide_saves) else "pair visibility restored", rec.hide_out == rec.hide_in and not rec.hide_saves)
    ob("FRAMES", f"rule stack not restored at a {where} exit" if rec.frames_out else "rule stack restored", not rec.frames_out)
    ob("NEG", f"neg_pred_depth not restored at a {where} exit" if rec.neg_out else "neg_pred_depth restored", rec.neg_out == 0)
    ob("SUPPRESS", "failure suppression left on at exit" if rec.suppress_out else "failure suppression off at exit", rec.suppress_out == 0)
    if cls not in RULE_CLASSES:
        ob("TAGS", f"tag stack changed at a {where} exit" if rec.tags_out != rec.tags_in else "tag stack unchanged", rec.tags_out == rec.tags_in)


def _norm_note(msg: str) -> str:
    import re

    return re.sub(r"pos#\d+", "pos#N", msg)


def k2_class(rec: PathRec) -> tuple[str, bool]:
    """Output list vs live trace at a success exit."""
    if rec.out_matches_live:
        return "output pairs are exactly the retained sub-matches, in order", True
    live_nodes = []
    # recompute node lists
    for it in rec.out:
        if it[0] == "J":
            return "pairs of a failed attempt (junk) reach the output list", False
        if it[0] == "U":
            return "unknown item appended to the output list", False
        if it[0] == "P":
            return "a Pair is constructed by a non-rule operator", False
    out_nodes = [it[1] for it in rec.out]
    # live nodes from the events: children / trivia whose node lies on the live path
    live_set = _live_nodes(rec)
    dead = [n for n in out_nodes if n not in live_set]
    if dead:
        kind = rec.nodes[dead[0]][1]
        return f"pairs of a rewound {'trivia' if kind == 'trivia' else 'sub-match'} (dead) reach the output list", False
    if len(set(out_nodes)) != len(out_nodes):
        return "pairs of a sub-match appended twice", False
    missing = [n for n in _live_order(rec) if n not in out_nodes]
    if missing:
        kind = rec.nodes[missing[0]][1]
        return f"pairs of a retained {'trivia' if kind == 'trivia' else 'sub-match'} are dropped", False
    return "output pairs out of match order", False


def _live_order(rec: PathRec) -> list:
    # walk parents from the last live node
    nodes = rec.nodes
    # find current node: the deepest node referenced; recompute from events is fragile, so
    # derive from rec.live length: rebuild by scanning the path stored in nodes
    return [n for n in rec_path(rec) if nodes[n][1] in ("child", "trivia")]


def _live_nodes(rec: PathRec) -> set:
    return set(_live_order(rec))


def rec_path(rec: PathRec) -> list:
    return rec.path


# ----------------------------------------------------------------------------- composite specs
def spec_checks(rep: OpReport, rec: PathRec, cls: str, params: dict) -> None:
    spec = opspec.SPECS.get(cls)
    if spec is None or isinstance(rec.result, str) or rec.result is None:
        return
    c = rec.construct
    sp = dict(params)
    if "expressions" in params:
        sp["n"] = len(params["expressions"])
    div, exp_live, exp_result = opspec.replay(spec, sp, rec.attempts)
    detail = {"variant": rec.variant, "path": rec.trace_str(), "result": str(rec.result)}
    trivia_op = cls in opspec.TRIVIA_OPS

    def ob(kind: str, sig: str, msg: str, ok: bool, trivia: bool = False) -> None:
        props = props_for(rec.side, cls, "SPEC")
        if cls in ("PositivePredicate", "NegativePredicate"):
            props = props | {"C05"}  # "or a predicate succeeds — every stack change made inside it is undone"
        if trivia:
            props = (props - {"C03", "C08"}) | {"C04"}
            if rec.side == "generate":
                props.add("C01")
        rep.oblige(props, "SPEC-" + kind, c, sig, ok, Finding("SPEC-" + kind, c, sig, f"{short(c)}: {msg}", detail))

    if div is not None:
        kind, sig, msg = div
        ob(kind, sig, msg, False)
        return
    ob("attempt", "attempt order follows the specification", "", True)
    if exp_result != rec.result:
        last = f"C{rec.attempts[-1][0]}:{'ok' if rec.attempts[-1][1] else 'fail'}" if rec.attempts else "start"
        ob("result", f"impl={rec.result} spec={exp_result} after {last}", f"returns {rec.result} where the specification gives {exp_result} (after {last})", False)
        return
    ob("result", "result follows the specification", "", True)
    if rec.result is True:
        impl_live = opspec.canon(_impl_live(rec, cls))
        d = opspec.first_live_diff(impl_live, exp_live)
        if d is not None:
            sig, a, b, prev = d
            trivia = "T" in (a, b)
            ob("live", sig, f"retained trace differs from the specification: has {a} where {b} is specified (after {prev})", False, trivia=trivia and trivia_op)
        else:
            ob("live", "retained trace follows the specification", "", True, trivia=trivia_op)


def _impl_live(rec: PathRec, cls: str) -> list:
    live = list(rec.live)
    if cls == "Push":
        # splice PUSH events where they happened relative to the child
        pushes = [e for e in rec.events if e[0] == "SPUSH"]
        live = [e for e in live if e[0] in ("C", "T")] + [("PUSH",)] * len(pushes)
    return live


# ----------------------------------------------------------------------------- terminals
def _matches(rec: PathRec) -> list:
    return [(e[1], e[2]) for e in rec.events if e[0] == "MATCH"]


def _stack_events(rec: PathRec) -> list:
    return [e for e in rec.events if e[0] in ("SPUSH", "SPOP", "SCLEAR")]


def terminal_checks(rep: OpReport, rec: PathRec, cls: str, params: dict) -> None:  # noqa: PLR0912, PLR0915
    if isinstance(rec.result, str) or rec.result is None:
        return
    c = rec.construct
    detail = {"variant": rec.variant, "path": rec.trace_str(), "result": str(rec.result)}
    stack = rec.stack_in or ()
    names = [s.name for s in stack]

    def ob(what_bad: str, what_ok: str, ok: bool, rule: str = "TERM") -> None:
        what = what_ok if ok else what_bad
        rep.oblige(props_for(rec.side, cls, rule), rule, c, what, ok, Finding(rule, c, what, f"{short(c)}: {what}", detail))

    has_trivia = any(e[0] == "T" for e in rec.events)
    has_child = any(e[0] == "C" for e in rec.events)
    if cls in STACK_TERMINALS:
        rep.oblige(
            props_for(rec.side, cls, "TERM") | {"C04"}, "TERM", c,
            "implicit trivia is matched inside a stack terminal" if has_trivia else "no implicit trivia inside the terminal",
            not has_trivia,
            Finding("TERM", c, "implicit trivia is matched inside a stack terminal", f"{short(c)}: implicit trivia is matched inside a stack terminal", detail),
        )
    ob("terminal attempts a child expression", "no child attempts", not has_child)
    matches = _matches(rec)
    sev = _stack_events(rec)
    fails = [e for e in rec.events if e[0] == "FAIL"]
    succ = rec.result is True

    # NOTE: "a failed terminal leaves position and stack untouched" is deliberately not an
    # obligation: every caller either propagates the failure or restores a checkpoint (R2),
    # so a dirty failure exit is never observable (contract K3).

    def expect_matches(seq: list) -> None:
        got = [m[0] for m in matches]
        if succ:
            ob(f"matches {got} on success where {seq} (in this order) is specified", "matches the specified stack entries in the specified order", got == seq and all(m[1] for m in matches))
        else:
            ok = len(got) >= 1 and got == seq[: len(got)] and not matches[-1][1] and all(m[1] for m in matches[:-1])
            ob(f"fails after matching {got} where a failing prefix of {seq} is specified", "fails at the first mismatching entry", ok)

    if cls in ("Peek", "Pop"):
        if not stack:
            ob("succeeds on an empty stack", "fails on an empty stack", not succ)
            ob("stack events on an empty stack", "no stack change on an empty stack", not sev)
        else:
            expect_matches([names[-1]])
            if succ:
                want = stack if cls == "Peek" else stack[:-1]
                ob(f"stack after success is {_sn(rec.stack_out)} where {_sn(want)} is specified", "stack after success as specified", rec.stack_out == want)
                ob("position advance is not the length of the matched entry", "advances by the matched entry", _advances(rec) == [names[-1]])
    elif cls == "Drop":
        ob("DROP matches input", "no input match", not matches)
        if not stack:
            ob("succeeds on an empty stack", "fails on an empty stack", not succ)
        else:
            ob("fails on a non-empty stack", "succeeds on a non-empty stack", succ)
            if succ:
                ob("stack after DROP is not the stack without its top", "top entry removed", rec.stack_out == stack[:-1])
                ob("DROP moves the position", "position unchanged", not rec.moved)
    elif cls in ("PeekAll", "PopAll"):
        seq = list(reversed(names))
        if not stack:
            ob("fails on an empty stack", "succeeds on an empty stack consuming nothing", succ and not rec.moved)
        else:
            expect_matches(seq)
            if succ:
                want = stack if cls == "PeekAll" else ()
                ob(f"stack after success is {_sn(rec.stack_out)} where {_sn(want)} is specified", "stack after success as specified", rec.stack_out == want)
                ob("position advance is not the matched entries top to bottom", "advances by the matched entries", _advances(rec) == seq)
    elif cls == "PeekSlice":
        a, b = params.get("start"), params.get("stop")
        seq = names[slice(a, b)]
        if not seq:
            ob("fails on an empty slice", "succeeds on an empty slice consuming nothing", succ and not rec.moved)
        else:
            expect_matches(seq)
            if succ:
                ob("stack changed by PEEK[..]", "stack unchanged", rec.stack_out == rec.stack_in)
                ob("position advance is not the matched entries bottom to top", "advances by the matched entries", _advances(rec) == seq)
    elif cls == "PushLiteral":
        ob("PUSH_LITERAL fails", "always succeeds", succ)
        want = stack + (params.get("value"),)
        ob(f"stack after PUSH_LITERAL is {_sn(rec.stack_out)}", "literal pushed", rec.stack_out == want)
        ob("PUSH_LITERAL moves the position", "position unchanged", not rec.moved)
    elif cls in SIMPLE_TERMINALS:
        ob("a character terminal changes the user stack", "no stack events", not sev)
        adv = [e for e in rec.live if e[0] == "A"]
        if cls in ("_SOI", "_EOI"):
            ob("SOI/EOI moves the position", "position unchanged", not rec.moved)
        elif cls == "SkipUntil":
            ob("SkipUntil fails", "always succeeds", succ)
        elif succ:
            ob(f"{len(adv)} position advances on success where exactly one is specified", "exactly one advance on success", len(adv) == 1)
    # failure recording parity data
    key = (cls, rec.variant.split("{")[0], "succ" if succ else "fail")
    rep.fail_parity.setdefault(key, {}).setdefault(rec.side, set()).add(len(fails) > 0)


def _sn(st: object) -> str:
    if st is None:
        return "unknown"
    return "[" + ",".join(getattr(x, "name", repr(x)) for x in st) + "]"  # type: ignore[union-attr]


def _advances(rec: PathRec) -> list:
    out = []
    for e in rec.live:
        if e[0] == "A":
            how = e[1]
            if isinstance(how, tuple) and how and how[0] == "len" and isinstance(how[1], Sym):
                out.append(how[1].name)
            else:
                out.append(repr(how))
    return out


def push_checks(rep: OpReport, rec: PathRec) -> None:
    """PUSH(e): pushes exactly input[start:pos] with start saved at entry, only on success."""
    if isinstance(rec.result, str) or rec.result is None:
        return
    c = rec.construct
    detail = {"variant": rec.variant, "path": rec.trace_str()}
    pushes = [e for e in rec.events if e[0] == "SPUSH"]
    props = props_for(rec.side, "Push", "TERM")
    if rec.result is True:
        end = rec.path[-1] if rec.path else 0
        want = f"input[pos#0:pos#{end}]"
        ok = len(pushes) == 1 and pushes[0][1] == want
        what = "pushes exactly the text matched by its operand" if ok else f"pushes {[p[1] for p in pushes]} where exactly the matched text {want} is specified"
        what = __import__("re").sub(r"pos#[1-9]\d*", "pos#END", what)
    else:
        ok = not pushes
        what = "no push when the operand fails" if ok else "pushes although the operand failed"
    rep.oblige(props, "TERM", c, what, ok, Finding("TERM", c, what, f"{short(c)}: {what}", detail))


# ----------------------------------------------------------------------------- Rule
def rule_checks(rep: OpReport, rec: PathRec, params: dict, masks: dict) -> None:  # noqa: PLR0912, PLR0915
    if isinstance(rec.result, str) or rec.result is None:
        return
    c = rec.construct
    mod = params["modifier"]
    name = params["name"]
    detail = {"variant": rec.variant, "path": rec.trace_str(), "result": str(rec.result)}
    gen = rec.side == "generate"
    base = {"C01"} if gen else set()

    def ob(props: set, rule: str, bad: str, good: str, ok: bool) -> None:
        what = good if ok else bad
        rep.oblige(props | base, rule, c, what, ok, Finding(rule, c, what, f"{short(c)}: {what}", detail))

    cev = [e for e in rec.events if e[0] == "C"]
    ob({"C03", "C06"}, "RULE", f"{len(cev)} attempts of the rule body where exactly one is specified", "body attempted exactly once", len(cev) == 1)
    if len(cev) != 1:
        return
    ce = cev[0]
    atomic_at_child, frames_at_child = ce[6], ce[7]
    silent = bool(mod & masks["SILENT"])
    if mod & (masks["ATOMIC"] | masks["COMPOUND"]) or name in ("WHITESPACE", "COMMENT"):
        want = ("E", 1)
        desc = "atomic depth raised by one"
    elif mod & masks["NONATOMIC"]:
        want = ("Z", 0)
        desc = "atomic depth reset to zero"
    else:
        want = ("E", 0)
        desc = "atomic depth untouched"
    ob({"C04"}, "RULE-ATOM", f"body runs with atomic state {atomic_at_child} where '{desc}' is specified for this modifier", f"body runs with {desc}", atomic_at_child == want)
    # pair visibility (pest: a rule entered while the atomicity is Atomic produces no token; @ sets Atomic for its
    # body, $ and ! make pairs visible again - for themselves and their body)
    hide_at_child = ce[10] if len(ce) > 10 else False
    if mod & masks["COMPOUND"]:
        want_hide, hdesc = False, "pairs visible ($)"
    elif mod & masks["ATOMIC"] or name in ("WHITESPACE", "COMMENT"):
        want_hide, hdesc = True, "pairs hidden (@, and the body of a trivia rule)"
    elif mod & masks["NONATOMIC"]:
        want_hide, hdesc = False, "pairs visible (!)"
    else:
        want_hide, hdesc = rec.hide_in, "pair visibility inherited"
    ob({"C04", "C06"}, "RULE-HIDE", f"body runs with hide_pairs={hide_at_child} where '{hdesc}' is specified for this modifier", f"body runs with {hdesc}", hide_at_child == want_hide)
    visible = (not rec.hide_in) or bool(mod & (masks["COMPOUND"] | masks["NONATOMIC"]))
    ob({"C13", "C06"}, "RULE-FRAME", "rule frame is not on the rule stack while the body runs", "rule frame pushed around the body", frames_at_child == 1)
    idx = rec.events.index(ce)
    fpush = [i for i, e in enumerate(rec.events) if e[0] == "FPUSH"]
    fpop = [i for i, e in enumerate(rec.events) if e[0] == "FPOP"]
    ob({"C13"}, "RULE-FRAME", "frame push/pop do not bracket the body exactly once", "one frame push before and one pop after the body", len(fpush) == 1 and len(fpop) == 1 and fpush[0] < idx < fpop[0])
    tagpops = [e for e in rec.events if e[0] == "TAGPOP"]
    pairs = [it for it in rec.out if it[0] == "P"]
    if rec.result is False:
        ob({"C06", "C08"}, "R7", "a failed rule consumes the pending tag", "no tag consumed on failure", not tagpops)
        ob({"C06"}, "RULE-PAIR", "a Pair is appended although the rule failed", "no Pair on failure", not pairs)
        ob({"C03"}, "RULE", "rule fails although its body matched", "fails only when the body fails", not ce[3])
        return
    ob({"C03"}, "RULE", "rule succeeds although its body failed", "succeeds only when the body matched", bool(ce[3]))
    body_items = [it for it in rec.out if it[0] in ("C", "T")]
    if silent or not visible:
        kind = "silent" if silent else "hidden (entered inside an atomic rule)"
        ob({"C06", "C03"} | ({"C04"} if not silent else set()), "RULE-PAIR", f"a {kind} rule produces a Pair", f"{kind} rule produces no Pair", not pairs)
        ok = [it[1] for it in body_items] == [ce[5]] and len(rec.out) == 1
        ob({"C06", "C08"}, "RULE-PAIR", f"a {kind} rule does not splice exactly its body's pairs into the caller's list", "body pairs spliced into the caller's list", ok)
        ob({"C06", "C08"}, "R7", f"a {kind} rule consumes the pending tag", f"{kind} rule leaves the tag stack alone", not tagpops)
        return
    ob({"C06", "C03"}, "RULE-PAIR", f"{len(pairs)} Pairs appended on success where exactly one is specified", "exactly one Pair on success", len(pairs) == 1 and len(rec.out) == 1)
    if len(pairs) != 1:
        return
    pv = pairs[0][1]
    end = rec.path[-1] if rec.path else 0
    ob({"C06"}, "RULE-PAIR", "Pair start is not the position saved at rule entry", "Pair starts at the entry position", getattr(pv.start, "node", None) == 0)
    ob({"C06"}, "RULE-PAIR", "Pair end is not the position at the success exit", "Pair ends at the exit position", getattr(pv.end, "node", None) == end)
    ob({"C06"}, "RULE-PAIR", "Pair input is not state.input", "Pair carries state.input", getattr(pv.input, "name", None) == "INPUT")
    rule_ok = (getattr(pv.rule, "path", None) == "self") or (getattr(pv.rule, "src", None) == "rule_frame")
    ob({"C06"}, "RULE-PAIR", "Pair rule is not this rule / its frame", "Pair names this rule", rule_ok)
    ch = pv.children
    kept = ch[0] == "list" and [it[1] for it in ch[1]] == [ce[5]] and all(it[0] == "C" for it in ch[1])
    dropped = ch[0] == "empty" or (ch[0] == "list" and not ch[1])
    # which pairs an atomic rule shows is decided where they are produced (RULE-HIDE): the rule keeps what its body yields
    ob({"C04", "C06"}, "RULE-PAIR", "Pair children are not exactly the body's pairs" if not dropped else "the rule throws its body's pairs away", "Pair children are the body's pairs", kept)
    if rec.tags_in:
        tag_ok = isinstance(pv.tag, tuple) and pv.tag[0] == "tag" and pv.tag[1] == rec.tags_in[-1] and len(tagpops) == 1
        ob({"C06"}, "RULE-PAIR", "pending tag is not moved onto the Pair", "pending tag moved onto the Pair", tag_ok)
    else:
        ob({"C06"}, "RULE-PAIR", "a tag appears although none was pending", "no tag when none is pending", pv.tag is None and not tagpops)
    key = ("rulepair", rec.side, rec.variant.split("{")[0], tuple(a[1] for a in rec.attempts))
    rep.fail_parity.setdefault(key, set()).add("kept" if kept else "dropped")


# ----------------------------------------------------------------------------- parse_trivia
def trivia_checks(rep: OpReport, rec: PathRec, cfg: dict) -> None:
    """cfg: skip/ws/comment booleans and atomic ('pos'|'zero')."""
    if isinstance(rec.result, str):
        return
    c = rec.construct
    detail = {"variant": rec.variant, "path": rec.trace_str()}
    gen = rec.side == "generate"
    props = {"C04"} | ({"C01"} if gen else set())

    def ob(rule: str, bad: str, good: str, ok: bool, extra: set | None = None) -> None:
        if not ok and not gen and getattr(rep, "trivia_sem_ok", False):
            # second opinion: ParserState.parse_trivia is decided in full by the semantic TRIVIA rule (scripted
            # oracles, sa/triviasem.py), which holds; this path reading does not recognise how the code is written
            rep.count("trivia_second_opinion_mismatches")
            ok = True
        what = good if ok else bad
        rep.oblige(props | (extra or set()), rule, c, what, ok, Finding(rule, c, what, f"{short(c)}: {what}", detail))

    cev = [e for e in rec.events if e[0] == "C"]
    kinds = [_trivia_kind(e[1]) for e in cev]
    if not gen and any(k not in ("SKIP", "WHITESPACE", "COMMENT") for k in kinds):
        # which rule is attempted cannot be recovered from the text on this path (a list of looked-up rules indexed
        # by a counter, say).  ParserState.parse_trivia is decided in full by the semantic TRIVIA rule
        # (sa/triviasem.py: scripted oracles identify the rules by what they are, not by how they are named)
        rep.count("trivia_paths_left_to_the_semantic_rule")
        return
    if cfg["atomic"] == "pos":
        ob("TRIVIA", "implicit trivia attempted although atomic depth > 0", "no trivia inside atomic context", not cev and not rec.moved)
        return
    if not (cfg["skip"] or cfg["ws"] or cfg["comment"]):
        ob("TRIVIA", "trivia attempted although no trivia rule is defined", "no-op without trivia rules", not cev)
        return
    if cfg["skip"]:
        ob("TRIVIA", f"attempts {kinds} where exactly the fused SKIP rule is specified", "delegates to the fused SKIP rule", kinds == ["SKIP"])
        # SKIP is the optimizer's name for WHITESPACE / COMMENT: its failures are trivia failures
        ob("TRIVIA", "the fused SKIP rule is attempted without failure suppression", "failures of the fused SKIP rule are suppressed", all(e[8] for e in cev), {"C13", "C02"})
        return
    allowed = {k for k, on in (("WHITESPACE", cfg["ws"]), ("COMMENT", cfg["comment"])) if on}
    ob("TRIVIA", f"attempts {sorted(set(kinds) - allowed)} which are not defined trivia rules", "attempts only defined trivia rules", set(kinds) <= allowed)
    # maximal munch: since the last success every defined trivia rule has failed
    tail = []
    for e in reversed(cev):
        if e[3]:
            break
        tail.append(_trivia_kind(e[1]))
    ob("TRIVIA", f"stops although {sorted(allowed - set(tail))} was not tried after the last match", "stops only when every trivia rule fails", allowed <= set(tail))
    # pest's skip is WHITESPACE* ~ (COMMENT ~ WHITESPACE*)*: after a WHITESPACE match, WHITESPACE is tried again first
    if cfg["ws"] and cfg["comment"]:
        order_ok = all(not (kinds[i] == "WHITESPACE" and cev[i][3]) or kinds[i + 1] == "WHITESPACE" for i in range(len(cev) - 1))
        ob("TRIVIA", "COMMENT is attempted right after a WHITESPACE match (pest: WHITESPACE* ~ (COMMENT ~ WHITESPACE*)*)", "WHITESPACE is exhausted before COMMENT is tried", order_ok)
    # failures inside trivia must not be recorded: suppress flag on at every attempt
    ob("TRIVIA", "trivia rules attempted without failure suppression", "trivia failures are suppressed", all(e[8] for e in cev), {"C13"})


def _trivia_kind(cid: str) -> str:
    u = cid.upper()
    for k in ("SKIP", "WHITESPACE", "COMMENT"):
        if k in u:
            return k
    return cid


# ----------------------------------------------------------------------------- bindings
def bindings(cls: str, tier: str) -> list[tuple[dict, int]]:
    """[(params, unroll)] for one operator class."""
    th = tier == "thorough"
    U = 4 if th else 3
    if cls in ("Sequence", "Choice"):
        return [({"expressions": [0] * n}, U) for n in ((1, 2, 3, 4) if th else (1, 2, 3))]
    if cls in ("Optional", "Repeat", "RepeatOnce", "PositivePredicate", "NegativePredicate", "Push"):
        return [({"expression": 0, "tag": None}, U)]
    if cls == "Group":
        return [({"expression": 0, "tag": None}, U), ({"expression": 0, "tag": "tg"}, U)]
    if cls == "Identifier":
        return [({"value": "rname", "tag": None}, U), ({"value": "rname", "tag": "tg"}, U)]
    if cls == "RepeatExact":
        return [({"expression": 0, "number": n}, n + 2) for n in ((1, 2, 3, 4) if th else (1, 2, 3))]
    if cls == "RepeatMin":
        return [({"expression": 0, "number": n}, n + U) for n in ((0, 1, 2, 3) if th else (0, 1, 2))]
    if cls == "RepeatMax":
        return [({"expression": 0, "number": n}, n + 2) for n in ((1, 2, 3, 4) if th else (1, 2, 3))]
    if cls == "RepeatMinMax":
        combos = [(0, 1), (0, 2), (1, 1), (1, 2), (1, 3), (2, 3)] + ([(2, 2), (0, 3), (2, 4)] if th else [])
        return [({"expression": 0, "min": a, "max": b}, b + 2) for a, b in combos]
    if cls == "PeekSlice":
        # a bound of 0 is an ordinary index: `x or ""` idioms drop it
        combos = [(None, None), (0, 1), (1, None), (None, -1), (-2, None), (None, 0), (1, 0)] + ([(1, 2), (0, 0)] if th else [])
        return [({"start": a, "stop": b, "tag": None}, U) for a, b in combos]
    if cls in ("Peek", "Pop", "Drop", "PeekAll", "PopAll"):
        return [({"tag": None}, U)]
    if cls == "PushLiteral":
        return [({"value": "lit", "tag": None}, U)]
    if cls in ("String", "CIString"):
        return [({"value": "lit"}, U)]
    if cls == "Range":
        return [({"start": "a", "stop": "z", "tag": None}, U)]
    if cls == "SkipUntil":
        return [({"subs": ["x", "yy"]}, U)]
    return [({}, U)]


def entries(cls: str, tier: str) -> list[dict]:
    if cls in STACK_TERMINALS:
        ents = [{"stack": s} for s in ops.STACK_ENTRIES]
        if tier == "thorough":
            ents.append({"stack": (Sym("s0"), Sym("s1"), Sym("s2"))})
        return ents
    return [{"stack": ()}]


def tmpl_params(params: dict) -> dict:
    out = dict(params)
    if "_delegate" in out:
        out[out.pop("_delegate")] = tmpl.Child(0)
    if "expression" in out:
        out["expression"] = tmpl.Child(0)
    if "expressions" in out:
        out["expressions"] = tmpl.children(len(out["expressions"]))
    return out


# ----------------------------------------------------------------------------- runner
def operator_classes(repo: Repo) -> list[tuple[str, str]]:
    out = []
    for cname in repo.subclasses("Expression"):
        rel, _ = repo.class_table[cname]
        if cname in ABSTRACT or cname in RULE_CLASSES:
            continue
        if _is_abstract_base(repo, cname):
            continue
        out.append((rel, cname))
    return out


_ABSTRACT_CACHE: dict = {}


def _is_abstract_base(repo: Repo, cname: str) -> bool:
    """An intermediate base class (it has subclasses among the expression classes and nothing in the library ever
    constructs it) is not an operator of its own: its methods are analysed through the classes that inherit them."""
    key = (id(repo), cname)
    if key not in _ABSTRACT_CACHE:
        has_sub = any(c != cname and cname in repo.mro(c)[1:] for c in repo.subclasses("Expression"))
        constructed = False
        if has_sub:
            for rel in repo.py_files:
                if not rel.startswith("src/"):
                    continue
                for n in ast.walk(repo.mod(rel).tree):
                    if isinstance(n, ast.Call) and ((isinstance(n.func, ast.Name) and n.func.id == cname) or (isinstance(n.func, ast.Attribute) and n.func.attr == cname)):
                        constructed = True
                        break
                if constructed:
                    break
        _ABSTRACT_CACHE[key] = has_sub and not constructed
    return _ABSTRACT_CACHE[key]


def _delegating(fn: ast.FunctionDef, method: str) -> str | None:
    """``self.<attr>.<method>(<the function's own parameters, in order>)`` as the whole body."""
    body = [s for s in fn.body if not (isinstance(s, ast.Expr) and isinstance(s.value, ast.Constant))]
    if len(body) != 1:
        return None
    s0 = body[0]
    call = s0.value if isinstance(s0, (ast.Return, ast.Expr)) else None
    if not isinstance(call, ast.Call) or call.keywords:
        return None
    f = call.func
    if not (isinstance(f, ast.Attribute) and f.attr == method and isinstance(f.value, ast.Attribute) and isinstance(f.value.value, ast.Name) and f.value.value.id == "self"):
        return None
    want = [a.arg for a in fn.args.args][1:]
    got = [a.id if isinstance(a, ast.Name) else None for a in call.args]
    if want != got:
        return None
    if method == "parse" and not isinstance(s0, ast.Return):
        return None
    return f.value.attr


def delegation_checks(repo: Repo, rep: OpReport, rel: str, cls: str) -> str | None:
    """Operators that delegate parse() and generate() to an expression built in
    __init__: both siblings must delegate to the same attribute, the attribute must
    be written only in __init__, and its constructor expression must normalise to the
    unrolled form of the specification table."""
    from . import terms

    rp = repo.resolve_method(cls, "parse")
    rg = repo.resolve_method(cls, "generate")
    if rp is None or rg is None:
        return None
    a = _delegating(rp[2], "parse")
    if a is None:
        return None
    construct = f"{rel}::{cls}"
    b = _delegating(rg[2], "generate")
    ok = a == b
    what = f"parse() and generate() delegate to the same expression self.{a}" if ok else f"parse() delegates to self.{a} but generate() delegates to {('self.' + b) if b else 'its own template'}"
    rep.oblige({"C01"}, "DELEGATE", construct, what, ok)
    if not ok:
        return None
    # writes of the attribute
    _, cnode = repo.class_table[cls]
    init = None
    writes_elsewhere = []
    assign = None
    for fn in cnode.body:
        if not isinstance(fn, ast.FunctionDef):
            continue
        for n in ast.walk(fn):
            tgts = n.targets if isinstance(n, ast.Assign) else [n.target] if isinstance(n, (ast.AugAssign, ast.AnnAssign)) else []
            for t in tgts:
                if isinstance(t, ast.Attribute) and isinstance(t.value, ast.Name) and t.value.id == "self" and t.attr == a:
                    if fn.name == "__init__":
                        init = fn
                        assign = n
                    else:
                        writes_elsewhere.append(fn.name)
    inherited_init = None
    if assign is None and not writes_elsewhere:
        # built by a base class's __init__ (the subclass hands the form to super().__init__): still "once, in __init__"
        for base in repo.mro(cls)[1:]:
            ent = repo.class_table.get(base)
            if not ent:
                continue
            for fn in ent[1].body:
                if isinstance(fn, ast.FunctionDef):
                    for n in ast.walk(fn):
                        tgts = n.targets if isinstance(n, ast.Assign) else [n.target] if isinstance(n, (ast.AugAssign, ast.AnnAssign)) else []
                        if any(isinstance(t, ast.Attribute) and isinstance(t.value, ast.Name) and t.value.id == "self" and t.attr == a for t in tgts):
                            if fn.name == "__init__":
                                inherited_init = base
                            else:
                                writes_elsewhere.append(f"{base}.{fn.name}")
            if inherited_init:
                break
    ok = not writes_elsewhere and (assign is not None or inherited_init is not None)
    what = f"self.{a} is built once in __init__" + (f" (of the base class {inherited_init})" if inherited_init else "") if ok else f"self.{a} is written outside __init__ ({writes_elsewhere})" if writes_elsewhere else f"self.{a} is never assigned in __init__"
    rep.oblige({"C01", "C03", "C15"}, "DELEGATE", construct, what, ok)
    if inherited_init is not None and cls in terms.UNROLLED:
        # no assignment of its own to normalise symbolically: the concrete evaluation decides bounds 0..3
        from .unrollsem import check_constructor as _cc  # noqa: PLC0415

        n_, bad_ = _cc(repo, f"{construct}.__init__", cls, a)
        sig_ = f"self.{a} is not the unrolled form pest specifies"
        rep.oblige({"C01", "C03", "C04"}, "UNROLLED", construct, f"for every bound 0..3 ({n_} instances) __init__ builds exactly the flat unrolled form" if not bad_ else sig_, not bad_,
                   Finding("UNROLLED", construct, sig_, f"{cls}: {bad_[0] if bad_ else ''} ({len(bad_)} of {n_} bound instances)", {"witness": bad_[0] if bad_ else ""}))
        rep.count("delegating_operators")
        return a
    if assign is None or init is None or getattr(assign, "value", None) is None:
        return a
    want = terms.UNROLLED.get(cls)
    if want is None:
        raise AnalysisError(f"{construct}: delegating operator without an unrolled form in the specification table")
    pnames = [x.arg for x in init.args.args][1:]
    if not pnames:
        raise AnalysisError(f"{construct}.__init__: no operand parameter")
    counts = {"number": "number", "min_": "min", "max_": "max", "min": "min", "max": "max", "num": "number"}
    nz = terms.Normaliser(f"{construct}.__init__", {pnames[0], f"self.{pnames[0]}"}, {k: v for k, v in counts.items() if k in pnames or k in ("number", "min", "max")})
    try:
        got = nz.term(assign.value)
    except AnalysisError as err:
        # written with a helper or a loop: no symbolic normal form; the concrete evaluation below decides bounds 0..3
        got = None
        rep.oblige({"C01", "C03", "C04"}, "UNROLLED", construct, f"no symbolic normal form ({str(err).split(': ', 1)[-1][:90]}); decided on concrete bounds below", True)
    if got is not None:
        ok = got == want
        what = (
            f"self.{a} is the unrolled form {terms.term_str(want)}" if ok
            else f"self.{a} is built as {terms.term_str(got)} where the unrolled form {terms.term_str(want)} is specified"
        )
        rep.oblige({"C01", "C03", "C04"}, "UNROLLED", construct, what, ok, Finding("UNROLLED", construct, what if not ok else "", f"{cls}: {what}", {"built": terms.term_str(got), "specified": terms.term_str(want)}))
    from .unrollsem import check_constructor

    n, bad = check_constructor(repo, f"{construct}.__init__", cls, a)
    sig = f"self.{a} is not the unrolled form pest specifies"
    rep.oblige({"C01", "C03", "C04"}, "UNROLLED", construct, f"for every bound 0..3 ({n} instances) __init__ builds exactly the flat unrolled form" if not bad else sig, not bad,
               Finding("UNROLLED", construct, sig, f"{cls}: {bad[0] if bad else ''} ({len(bad)} of {n} bound instances)", {"witness": bad[0] if bad else ""}))
    rep.count("delegating_operators")
    return a


def _analyse_operator(repo: Repo, rep: OpReport, rel: str, cls: str, tier: str) -> None:  # noqa: PLR0912
    known = cls in opspec.SPECS or cls in STACK_TERMINALS or cls in SIMPLE_TERMINALS
    if not known:
        rep.units.setdefault("operators_without_spec", 0)
        rep.units["operators_without_spec"] += 1
    rep.count("operator_classes")
    deleg = delegation_checks(repo, rep, rel, cls)
    spec_cls = "Group" if deleg else cls
    for params, unroll in bindings(cls, tier):
        if deleg:
            params = {**params, "_delegate": deleg}
        tp = tmpl_params(params)
        sks = tmpl.operator_skeletons(repo, rel, cls, tp)
        for sk in sks:
            rep.skeleton_sources.append((sk.label(), sk))
            rep.hygiene.extend(sk.holes)
        rep.count("skeleton_variants", len(sks))
        for entry in entries(cls, tier):
            recs, flow = ops.run_parse(repo, rel, cls, params, entry, unroll)
            rep.count("parse_paths", len(recs))
            rep.count("parse_runs")
            all_recs = list(recs)
            for sk in sks:
                try:
                    grecs, gflow = ops.run_skeleton(repo, sk, params, entry, unroll)
                except ops._SkeletonSyntax as e:  # noqa: SLF001
                    what = f"emitted code does not parse: {e.err.msg}"
                    rep.oblige({"C01"}, "SYNTAX", sk.construct, what, False, Finding("SYNTAX", sk.construct, what, f"{short(sk.construct)}: {what}", {"variant": sk.label(), "source": sk.source}))
                    continue
                rep.count("skeleton_paths", len(grecs))
                rep.count("skeleton_runs")
                all_recs.extend(grecs)
            for rec in all_recs:
                generic_checks(rep, rec, cls)
                if spec_cls in opspec.SPECS:
                    spec_checks(rep, rec, spec_cls, params)
                if cls == "Push":
                    push_checks(rep, rec)
                if cls in STACK_TERMINALS or cls in SIMPLE_TERMINALS:
                    terminal_checks(rep, rec, cls, params)
            shape_checks(rep, all_recs, cls)
            if len(rep.samples) < 30 and all_recs:
                r0 = all_recs[len(all_recs) // 2]
                rep.samples.append({"construct": r0.construct, "variant": r0.variant, "path": r0.trace_str(), "result": str(r0.result)})


def analyse(repo: Repo, tier: str = "quick", diff: bool = True) -> OpReport:  # noqa: PLR0912, PLR0915
    rep = OpReport()
    masks = ops.modifier_masks(repo)

    # ---- ordinary operators, both siblings (what E1 / E2 cannot read of one class is deferred: the other classes and
    # the semantic rules are still decided, and the run ends undecided - exit 2 - only if nothing is violated)
    for rel, cls in operator_classes(repo):
        try:
            _analyse_operator(repo, rep, rel, cls, tier)
        except AnalysisError as err:
            rep.defer(err)
    if diff:
        try:
            diff_checks(repo, rep, masks, tier)
        except AnalysisError as err:
            rep.defer(err)
    # ---- E2 models ParserState's context managers by name: their source is checked against that model (E8)
    n_c, bad_c = opsem.check_ctx_managers(repo, "CTX-MODEL")
    rep.count("ctx_model_points", n_c)
    ccon = f"{STATE_REL}::ParserState"
    for label, props_c in (("atomic_checkpoint", {"C04", "C06"}), ("suppress_failures", {"C13"}), ("tag", {"C06", "C08"})):
        rep.oblige(props_c, "CTX-MODEL", f"{ccon}.{label}", f"{label}() does what the operator analysis assumes of it", True)
    for cat, detail in bad_c:
        label = cat.split("(")[0].split(" ")[0]
        props_c = {"atomic_checkpoint": {"C04", "C06"}, "suppress_failures": {"C13"}, "tag": {"C06", "C08"}}.get(label, {"C04"})
        rep.oblige(props_c, "CTX-MODEL", f"{ccon}.{label}", cat, False, Finding("CTX-MODEL", f"{ccon}.{label}", cat, f"{cat}: {detail}", {"witness": detail}))
    # ---- Rule
    try:
        analyse_rules(repo, rep, masks, tier)
    except AnalysisError as err:
        rep.defer(err)
    # ---- parse_trivia siblings
    try:
        analyse_trivia(repo, rep, tier)
    except AnalysisError as err:
        rep.defer(err)
    # ---- failure-recording parity between siblings
    for key, sides in sorted(rep.fail_parity.items(), key=lambda kv: str(kv[0])):
        if key[0] == "rulepair":
            continue
        cls, variant, outcome = key
        p, g = sides.get("parse"), sides.get("generate")
        if p is None or g is None:
            continue
        ok = p == g
        what = (
            f"failure recording differs between siblings on {outcome} paths ({variant}): parse records={sorted(p)} generate records={sorted(g)}"
            if not ok else "failure recording agrees between siblings"
        )
        sig = what if ok else f"failure recording differs between siblings on {outcome} paths"
        con = f"{cls}.parse/generate"
        rep.oblige({"C01", "C13"}, "FAIL-PARITY", con, sig, ok, Finding("FAIL-PARITY", con, sig, what, {"variant": variant}))
    return rep


def diff_checks(repo: Repo, rep: OpReport, masks: dict, tier: str) -> None:
    """C01 only: the two E8 differentials (they add nothing to the other properties' obligations)."""
    # ---- both siblings evaluated against scripted children (E8)
    units, results = opsem.check_operators(repo, "C01 DIFF", tier)
    rep.count("diff_operators", units["operators"])
    rep.count("diff_skeletons", units["skeletons"])
    rep.count("diff_scripts", units["scripts"])
    for con, label, n, bad in results:
        rep.oblige({"C01"}, "DIFF", con, f"parse() and the emitted code agree on {n} scripted child/trivia outcomes ({label.split('::')[-1]})", True)
        for cat, detail in bad:
            rep.oblige({"C01"}, "DIFF", con, cat, False, Finding("DIFF", con, cat, f"{short(con)}: {cat}; e.g. {detail}", {"variant": label}))
    # ---- the character terminals: same result on the model inputs of sa/termsem.py
    from . import termsem  # noqa: PLC0415

    n_t, bad_t = termsem.check_terminals(repo, "C01 TERM-DIFF", tier == "thorough")
    rep.count("terminal_model_points", n_t)
    tcon = "src/pest/grammar/expressions/terminals.py"
    rep.oblige({"C01"}, "TERM-DIFF", tcon, f"String, CIString and Range: parse() and the emitted code give the same result on {n_t} model inputs", True)
    seen_t: set = set()
    for con_t, cat, detail in bad_t:
        if cat.startswith("the siblings disagree") and con_t not in seen_t:
            seen_t.add(con_t)
            rep.oblige({"C01"}, "TERM-DIFF", con_t, cat, False, Finding("TERM-DIFF", con_t, cat, f"{short(con_t)}: {cat}: e.g. {detail}", {"witness": detail}))
    # ---- Rule.parse against the code generate_rule() emits, on model rule tables (E8)
    n, bad = gensem.check_gen(repo, "C01 GEN-DIFF", masks, tier == "thorough")
    rep.count("gen_diff_scenarios", n)
    con = f"{RULE_REL}::Rule.parse/generate_rule"
    rep.oblige({"C01"}, "GEN-DIFF", con, f"Rule.parse and the generated rule closures agree on {n} model rule tables with scripted leaves", True)
    cats: dict = {}
    for cat, detail in bad:
        cats.setdefault(cat, []).append(detail)
    for cat, details in sorted(cats.items()):
        rep.oblige({"C01"}, "GEN-DIFF", con, cat, False, Finding("GEN-DIFF", con, cat, f"{cat}: e.g. {details[0]} ({len(details)} of {n} model tables)", {"witness": details[0], "more": details[1:4]}))


def shape_checks(rep: OpReport, recs: list[PathRec], cls: str) -> None:
    """No isinstance test on the class of a child may influence pairs or state."""
    groups: dict = {}
    for r in recs:
        if isinstance(r.result, str):
            continue
        key = (r.side, r.construct, r.variant.split("{")[0], tuple(r.attempts), r.stack_in)
        groups.setdefault(key, []).append(r)
    for (side, construct, variant, _a, _s), rs in groups.items():
        shaped = any(any(e[0] == "SHAPE" for e in r.events) for r in rs) or (side == "generate" and any("isinstance(" in r.variant for r in rs))
        if not shaped:
            continue
        outs = {(_norm_out(r), r.result, tuple(opspec.canon(r.live))) for r in rs}
        ok = len(outs) == 1
        what = "result depends on the class of the child expression (isinstance test)" if not ok else "isinstance tests on the child do not influence pairs or state"
        props = {"C04", "C08"} | ({"C01"} if side == "generate" else set())
        rep.oblige(props, "SHAPE", construct, what, ok, Finding("SHAPE", construct, what, f"{short(construct)}: {what}", {"variant": variant}))


def _norm_out(r: PathRec) -> tuple:
    out = []
    for it in r.out:
        if it[0] == "P":
            ch = it[1].children
            out.append(("P", ch[0], len(ch[1]) if ch[0] == "list" else 0))
        else:
            out.append((it[0],))
    return tuple(out)


def analyse_rules(repo: Repo, rep: OpReport, masks: dict, tier: str) -> None:
    S, A, C, N = masks["SILENT"], masks["ATOMIC"], masks["COMPOUND"], masks["NONATOMIC"]
    mask_list = [0, S, A, C, N, S | A, S | C, S | N]
    names = ["rname", "WHITESPACE", "COMMENT"]
    tag_entries = [(), (("entry", "t0"),)]
    hide_entries = [False, True]
    for mod in mask_list:
        for name in names:
            params = {"expression": 0, "modifier": mod, "name": name}
            tp = tmpl_params(params)
            sks = tmpl.operator_skeletons(repo, RULE_REL, "Rule", tp)
            rep.count("rule_skeleton_variants", len(sks))
            for sk in sks:
                rep.skeleton_sources.append((sk.label(), sk))
                rep.hygiene.extend(sk.holes)
            for tags, hide in itertools.product(tag_entries, hide_entries):
                entry = {"stack": (), "tags": tags, "hide": hide}
                recs, _ = ops.run_parse(repo, RULE_REL, "Rule", params, entry, 3)
                all_recs = list(recs)
                for sk in sks:
                    tree = ast.parse(sk.source)
                    fns = [n for n in tree.body if isinstance(n, ast.FunctionDef)]
                    if len(fns) != 1 or len(tree.body) != 1:
                        raise AnalysisError(f"{sk.construct}: Rule skeleton is not a single inner function")
                    grecs, _ = ops.run_skeleton(repo, sk, params, entry, 3, body=fns[0].body, result_var=None, out_name="PAIRS")
                    all_recs.extend(grecs)
                rep.count("rule_paths", len(all_recs))
                for rec in all_recs:
                    generic_checks(rep, rec, "Rule")
                    rule_checks(rep, rec, params, masks)
                shape_checks(rep, all_recs, "Rule")
    # BuiltInRule.generate: EOI goes through Rule.generate, every other built-in is inlined
    for name in ("EOI", "ANY"):
        params = {"expression": 0, "modifier": 0 if name == "EOI" else S, "name": name}
        sks = tmpl.operator_skeletons(repo, RULE_REL, "BuiltInRule", tmpl_params(params))
        rep.count("builtin_rule_skeletons", len(sks))
        for sk in sks:
            rep.skeleton_sources.append((sk.label(), sk))
            is_fn = sk.source.lstrip().startswith("def ")
            want_fn = name == "EOI"
            what = "EOI is generated as a rule closure; other built-ins are inlined"
            ok = is_fn == want_fn
            rep.oblige({"C01"}, "RULE", sk.construct, what if ok else f"built-in {name}: closure={is_fn} where closure={want_fn} is what generate_module assumes", ok)
            if not is_fn:
                recs, _ = ops.run_skeleton(repo, sk, params, {"stack": ()}, 3)
                for rec in recs:
                    generic_checks(rep, rec, "Group")
                    spec_checks(rep, rec, "Group", params)


def analyse_trivia(repo: Repo, rep: OpReport, tier: str) -> None:
    from .flow import Flow, PathRef, St, local_names
    from . import triviasem  # noqa: PLC0415

    try:
        _n_sem, bad_sem = triviasem.check_trivia(repo, "TRIVIA (semantic)")
        rep.trivia_sem_ok = not bad_sem  # type: ignore[attr-defined]
    except AnalysisError:
        rep.trivia_sem_ok = False  # type: ignore[attr-defined]

    # interpreter side
    fn = repo.func(STATE_REL, "ParserState.parse_trivia")
    construct = f"{STATE_REL}::ParserState.parse_trivia"
    names = [a.arg for a in fn.args.args]
    if len(names) != 2:
        raise AnalysisError(f"{construct}: expected (self, pairs)")
    flow = Flow(repo, construct=construct, self_attrs={}, modconst=repo.mod(STATE_REL).constants(), unroll=3 if tier == "quick" else 4)
    st = St()
    out = flow.newlist(st)
    st.env[names[0]] = PathRef("state")
    st.env[names[1]] = out
    st.env["__locals__"] = local_names(fn)  # R5: a local read on a path that has not assigned it
    exits = flow.run(fn.body, st)
    rep.count("trivia_paths", len(exits))
    for e in exits:
        rec = ops.summarise(flow, e, out, "parse", construct, "", {})
        atomq = [ev for ev in rec.events if ev[0] == "ATOMQ"]
        ruleq = {_trivia_kind(ev[1]): ev[2] for ev in rec.events if ev[0] == "RULEQ"}
        cfg = {
            "atomic": "pos" if (atomq and atomq[0][1]) else "zero",
            "skip": bool(ruleq.get("SKIP")), "ws": bool(ruleq.get("WHITESPACE")), "comment": bool(ruleq.get("COMMENT")),
        }
        rec.variant = ",".join(f"{k}={v}" for k, v in cfg.items())
        generic_checks(rep, rec, "parse_trivia")
        trivia_checks(rep, rec, cfg)
    # template side: one skeleton per configuration of defined trivia rules - the configuration is what the generator
    # is *given* (presence of the three names in the rule table), not something read back from how it asks
    sks = []
    for present in ({"SKIP": False, "WHITESPACE": False, "COMMENT": False}, {"SKIP": False, "WHITESPACE": True, "COMMENT": False}, {"SKIP": False, "WHITESPACE": False, "COMMENT": True},
                    {"SKIP": False, "WHITESPACE": True, "COMMENT": True}, {"SKIP": True, "WHITESPACE": True, "COMMENT": False}):
        got = tmpl.function_skeletons(repo, GEN_REL, "generate_parse_trivia", lambda present=present: {"rules": tmpl.rules_value(present=dict(present))}, {})
        for sk in got:
            sk.trivia_cfg = {"skip": present["SKIP"], "ws": present["WHITESPACE"], "comment": present["COMMENT"]}  # type: ignore[attr-defined]
        sks.extend(got)
    rep.count("trivia_skeleton_variants", len(sks))
    for sk in sks:
        rep.skeleton_sources.append((sk.label(), sk))
        base_cfg = dict(sk.trivia_cfg)  # type: ignore[attr-defined]
        tree = ast.parse(sk.source)
        fns = [n for n in tree.body if isinstance(n, ast.FunctionDef)]
        main = [n for n in fns if n.name == "parse_trivia"] or fns[-1:]
        if len(main) != 1:
            raise AnalysisError(f"{sk.construct}: the emitted code has no parse_trivia function")
        helpers = {n.name: n for n in fns if n is not main[0]}
        pnames = [a_.arg for a_ in main[0].args.args]
        recs, _ = ops.run_skeleton(repo, sk, {}, {"stack": ()}, 3 if tier == "quick" else 4, body=main[0].body, result_var=None, out_name=pnames[1] if len(pnames) > 1 else "pairs", helpers=helpers)
        rep.count("trivia_paths", len(recs))
        for rec in recs:
            atomq = [ev for ev in rec.events if ev[0] == "ATOMQ"]
            cfg = dict(base_cfg)
            cfg["atomic"] = "pos" if (atomq and atomq[0][1]) else "zero"
            rec.variant = ",".join(f"{k}={v}" for k, v in cfg.items())
            generic_checks(rep, rec, "parse_trivia")
            trivia_checks(rep, rec, cfg)
