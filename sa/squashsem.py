"""C02 SQUASH-SEMANTICS — what `squash_choice` returns matches exactly what the ordered
choice it replaces matches.

The pass is evaluated from its syntax tree (sa/objmodel.py) — squash_choice, squash,
OptimizedChoice.update, is_order_independent, build_optimized_pattern,
_optimize_char_class — on every ordered choice of two (thorough: also three, and nested)
model alternatives: sensitive and insensitive literals of length 0..2 and ranges over a
small alphabet with cased and uncased characters.  These languages are finite, so the
emitted pattern and the ordered choice are compared on *every* string over the alphabet
up to one character longer than the longest literal: a complete comparison for the
model.  The pattern is run by the standard library's `re` (alternation is ordered there
as in the `regex` module the library uses).  Where the pass declines (returns the Choice
unchanged) nothing is claimed.
"""

from __future__ import annotations

import itertools
import re

from . import rxoracle

from .core import AnalysisError
from .objmodel import ClassModel
from .ordabs import ModelRaise, Obj, Sym
from .repo import Repo

RELS = [
    "src/pest/grammar/expression.py", "src/pest/grammar/expressions/terminals.py", "src/pest/grammar/expressions/choice.py",
    "src/pest/grammar/expressions/sequence.py", "src/pest/grammar/expressions/prefix.py", "src/pest/grammar/expressions/postfix.py",
    "src/pest/grammar/expressions/group.py", "src/pest/grammar/rule.py", "src/pest/grammar/optimizers/squash_choice.py",
    "src/pest/grammar/optimizers/skippers.py", "src/pest/grammar/optimizers/inliners.py", "src/pest/grammar/optimizers/unroller.py",
    "src/pest/grammar/rules/unicode.py",
]


KINDS: dict[str, str] = {}


def _ci_matcher(ci: Obj, v: str):  # noqa: ANN202
    """What the unoptimized `^"..."` node matches: its own compiled pattern and flags, read from the model object
    CIString.__init__ built (C12's CASE rule pins those flags to re.I | re.A)."""
    pats = [x for x in ci.__dict__.values() if isinstance(x, Obj) and isinstance(x.__dict__.get("pattern"), str) and isinstance(x.__dict__.get("flags"), int)]
    if not pats:
        # no compiled pattern on the node (e.g. a comparison of case-mapped text): the reference is the definition,
        # which C12's TERM-SEM rule decides for the node itself
        def m_def(w: str) -> int | None:
            return len(v) if _ascii_fold(w[: len(v)]) == _ascii_fold(v) and len(w) >= len(v) else None

        return m_def
    pat = pats[0]
    flags = pat.flags
    rx = rxoracle.compile_(pat.pattern, flags)  # the engine the repository uses, with its own flag values

    def m(w: str) -> int | None:
        r = rx.match(w)
        return r.end() if r else None

    return m


def _ascii_fold(t: str) -> str:
    """pest's `^"..."` ignores the case of ASCII letters only (CASE rule of C12 pins CIString to that)."""
    return "".join(c.lower() if c.isascii() else c for c in t)


def category(desc: str, w: str, want: int | None, got: int | None) -> str:
    """A signature for a mismatch that does not depend on the concrete characters."""
    alts = [a.strip(" ()") for a in desc.replace("(", "").replace(")", "").split(" | ")]
    kinds = sorted({KINDS.get(a, "range" if ".." in a else "class") for a in alts})
    effect = "the pattern fails where the choice matches" if got is None else "the pattern matches where the choice fails" if want is None else "the pattern consumes more" if got > want else "the pattern consumes less"
    third = False
    for a in alts:
        if a.startswith('^"'):
            for l_ in a[2:-1]:
                for c in w:
                    if c.lower() == l_.lower() and c not in (l_.lower(), l_.upper()):
                        third = True
    if third and got is None and any(k == "insensitive literal of length 1" for k in kinds):
        # one phenomenon whatever the other alternatives are: the single character was written into a class as
        # its upper() and lower() forms only
        return "the pattern fails where the choice matches, on a third member of a case-folding class [insensitive literal of length 1]"
    return f"{effect}{' on a third member of a case-folding class' if third else ''} [{'; '.join(kinds)}]"


def program(repo: Repo, where: str) -> ClassModel:
    rels = [r for r in RELS if r in repo.py_files]
    for need in ("src/pest/grammar/optimizers/squash_choice.py", "src/pest/grammar/expressions/choice.py", "src/pest/grammar/expressions/terminals.py"):
        if need not in rels:
            raise AnalysisError(f"anchor vanished: {need}")
    restub = Obj("re", **rxoracle.FLAGS)
    cm = ClassModel(repo, rels, where, {"re": restub, "ChoiceCase": Sym("ChoiceCase")}, max_steps=200000)
    cm._cache[("re", "compile")] = lambda _s, pat, flags=0: Obj("Pattern", pattern=pat, flags=flags)  # noqa: SLF001
    cm._cache[("re", "escape")] = lambda _s, x: rxoracle.escape(x)  # noqa: SLF001
    return cm


def leaves(cm: ClassModel, alphabet: list[str], max_len: int) -> list[tuple[str, Obj, object]]:
    """(description, model expression, reference matcher: w -> consumed length or None)."""
    out: list[tuple[str, Obj, object]] = []
    values = [""]
    for k in range(1, max_len + 1):
        values.extend("".join(p) for p in itertools.product(alphabet, repeat=k))
    for v in values:
        out.append((f'"{v}"', cm.new("String", v), (lambda w, v=v: len(v) if w.startswith(v) else None)))
        ci = cm.new("CIString", v)
        out.append((f'^"{v}"', ci, _ci_matcher(ci, v)))
        KINDS[f'"{v}"'] = "sensitive literal of length " + ("0" if not v else "1" if len(v) == 1 else "2+")
        KINDS[f'^"{v}"'] = "insensitive literal of length " + ("0" if not v else "1" if len(v) == 1 else "2+")
    order = sorted(alphabet)
    for i, a in enumerate(order):
        for b in order[i:]:
            out.append((f"'{a}'..'{b}'", cm.new("Range", a, b), (lambda w, a=a, b=b: 1 if w and a <= w[0] <= b else None)))
    # a stand-in for a Unicode class: the pass only carries its pattern along; here the "class" is the first
    # two characters of the alphabet, written as a pattern the standard library can run
    if "UnicodePropertyRule" in cm.classes:
        members = order[:2]
        pat = "[" + "".join(re.escape(c) for c in members) + "]"
        out.append(("LETTERLIKE", cm.new("UnicodePropertyRule", pat, "LETTERLIKE"), (lambda w, members=tuple(members): 1 if w and w[0] in members else None)))
    return out


def ordered(ms: list) -> object:
    def m(w: str) -> int | None:
        for f in ms:
            r = f(w)
            if r is not None:
                return r
        return None

    return m


def check_squash(repo: Repo, where: str, alphabet: list[str], max_len: int, triples: bool) -> tuple[int, int, list[tuple[str, str]]]:
    cm = program(repo, where)
    lv = leaves(cm, alphabet, max_len)
    inputs = [""]
    for k in range(1, max_len + 2):
        inputs.extend("".join(p) for p in itertools.product(alphabet, repeat=k))
    squash_choice = cm.env.get("squash_choice")
    if squash_choice is None:
        raise AnalysisError("anchor vanished: squash_choice")
    bad: list[tuple[str, str]] = []
    n = squashed = 0

    def one(desc: str, expr: Obj, ref) -> None:  # noqa: ANN001
        nonlocal n, squashed
        n += 1
        try:
            res = squash_choice(expr, {})
        except ModelRaise as err:
            bad.append(("squash_choice raises", f"{desc}: squash_choice raises {err}"))
            return
        if res is expr:
            return
        if not (isinstance(res, Obj) and "OptimizedChoice" in res.kinds):
            bad.append(("squash_choice returns neither its argument nor an OptimizedChoice", f"{desc}: squash_choice returns {res!r}"))
            return
        squashed += 1
        try:
            # what parse() matches with: the (lazily compiled, cached) pattern property
            compiled = cm.call(res, "pattern")
            built = cm.call(res, "build_optimized_pattern")
        except ModelRaise as err:
            bad.append(("build_optimized_pattern raises", f"{desc}: build_optimized_pattern raises {err}"))
            return
        if not (isinstance(compiled, Obj) and isinstance(compiled.__dict__.get("pattern"), str)):
            raise AnalysisError("anchor vanished: OptimizedChoice.pattern no longer returns a compiled pattern")
        pat = compiled.pattern
        # global flags on the compiled pattern are O13's subject (they cannot be reproduced with the standard library)
        if pat != built:
            bad.append(("the pattern parse() uses is not the one generate() emits", f"{desc}: parse() matches with `{pat}`, generate() emits `{built}`"))
            return
        try:
            rx = rxoracle.compile_(pat)
        except (re.error, rxoracle.error) as err:
            bad.append(("the emitted pattern does not compile", f"{desc}: emitted pattern `{pat}` does not compile ({err})"))
            return
        for w in inputs:
            m = rx.match(w)
            got = m.end() if m else None
            want = ref(w)
            if got != want:
                bad.append((category(desc, w, want, got), f"{desc} -> `{pat}`: on {w!r} the ordered choice " + (f"consumes {want}" if want is not None else "fails") + ", the pattern " + (f"consumes {got}" if got is not None else "fails")))
                return

    for (da, ea, fa), (db, eb, fb) in itertools.product(lv, repeat=2):
        one(f"{da} | {db}", cm.new("Choice", ea, eb), ordered([fa, fb]))
    # a choice whose first alternative has been squashed before (and used: its compiled pattern is cached)
    few = lv[:: max(1, len(lv) // (9 if triples else 4))]
    for (da, ea, fa), (db, eb, fb), (dc, ec, fc) in itertools.product(few, few, few):
        try:
            inner = squash_choice(cm.new("Choice", ea, eb), {})
        except ModelRaise:
            continue
        if not (isinstance(inner, Obj) and "OptimizedChoice" in inner.kinds):
            continue
        try:
            cm.call(inner, "pattern")
        except ModelRaise:
            continue
        before = list(inner.choices)
        one(f"({da} | {db}) | {dc}", cm.new("Choice", inner, ec), ordered([fa, fb, fc]))
        if list(inner.choices) != before:
            bad.append(("squash_choice modifies a node of the tree it was given", f"({da} | {db}) | {dc}: the already squashed first alternative was extended in place"))
    # an alternative that is a rule object whose body is a choice (a built-in such as NEWLINE that has not been inlined:
    # the pass looks through it), first and last
    if "BuiltInRule" in cm.classes:
        silent = repo.mod("src/pest/grammar/rule.py").constants().get("SILENT", 0)
        for (da, ea, fa), (db, eb, fb), (dc, ec, fc) in itertools.product(few, few, few):
            try:
                rule = cm.new("BuiltInRule", "NL", cm.new("Choice", ea, eb), silent)
            except ModelRaise:
                continue
            one(f"NL[{da} | {db}] | {dc}", cm.new("Choice", rule, ec), ordered([fa, fb, fc]))
            one(f"{dc} | NL[{da} | {db}]", cm.new("Choice", ec, rule), ordered([fc, fa, fb]))
    if triples:
        small = [x for x in lv if len(x[0]) <= 5][:: max(1, len(lv) // 14)]
        for (da, ea, fa), (db, eb, fb), (dc, ec, fc) in itertools.product(small, repeat=3):
            one(f"{da} | {db} | {dc}", cm.new("Choice", ea, eb, ec), ordered([fa, fb, fc]))
            one(f"{da} | ({db} | {dc})", cm.new("Choice", ea, cm.new("Choice", eb, ec)), ordered([fa, fb, fc]))
    return n, squashed, bad


def check_inline_silent(repo: Repo, where: str) -> tuple[int, list[tuple[str, str]]]:
    """inline_silent_rules on every (modifier, rule name, tagged?) combination of a reference.

    Replacing a reference by the rule's body is invisible iff entering the rule has no effect besides running the
    body: the rule produces no pair (silent), changes no atomicity (no @ $ ! bit, and not WHITESPACE / COMMENT, which
    Rule.parse and the templates run atomically whatever their modifier says), and the reference carries no tag.
    """
    cm = program(repo, where)
    fn = cm.env.get("inline_silent_rules")
    if fn is None:
        raise AnalysisError("anchor vanished: inline_silent_rules")
    consts = repo.mod("src/pest/grammar/rule.py").constants()
    bits = {k: consts[k] for k in ("SILENT", "ATOMIC", "COMPOUND", "NONATOMIC")}
    mods = {"": 0, "_": bits["SILENT"], "@": bits["ATOMIC"], "$": bits["COMPOUND"], "!": bits["NONATOMIC"],
            "_@": bits["SILENT"] | bits["ATOMIC"], "_$": bits["SILENT"] | bits["COMPOUND"], "_!": bits["SILENT"] | bits["NONATOMIC"]}
    bad: list[tuple[str, str]] = []
    n = 0
    for mname, mod in mods.items():
        for rname in ("x", "WHITESPACE", "COMMENT"):
            for tag in (None, "t"):
                n += 1
                body = cm.new("String", "body")
                rule = cm.new("Rule", rname, body, mod)
                ref = cm.new("Identifier", rname, tag=tag) if tag else cm.new("Identifier", rname)
                try:
                    res = fn(ref, {rname: rule})
                except ModelRaise as err:
                    bad.append(("inline_silent_rules raises", f"{rname} = {mname}{{ ... }}: raises {err}"))
                    continue
                invisible = mod == bits["SILENT"] and rname not in ("WHITESPACE", "COMMENT") and tag is None
                desc = f"{'#t = ' if tag else ''}{rname} with {rname} = {mname}{{ ... }}"
                if res is body and not invisible:
                    why = "a tagged reference" if tag else "a trivia rule, which always runs atomically" if rname in ("WHITESPACE", "COMMENT") else "a rule that changes atomicity" if mod & ~bits["SILENT"] else "a rule that produces a pair"
                    bad.append((f"inlines {why}", f"{desc} is replaced by the rule's body"))
                elif res is not body and res is not ref:
                    bad.append(("returns neither the reference nor the rule's body", f"{desc}: returns {res!r}"))
    # alias chains and alias cycles (legal grammars until they are parsed with: a = _{ b }, b = _{ a }): the pass must
    # come back, and with something that is still a reference into the cycle or a body of it
    from .ordabs import Unsupported

    SIL = bits["SILENT"]
    tables = {
        "a = _{ b }, b = _{ \"x\" } (a chain)": {"a": ("b", SIL), "b": (None, SIL)},
        "a = _{ a } (self reference)": {"a": ("a", SIL)},
        "a = _{ b }, b = _{ a } (a cycle of two)": {"a": ("b", SIL), "b": ("a", SIL)},
        "a = _{ b }, b = _{ c }, c = _{ a } (a cycle of three)": {"a": ("b", SIL), "b": ("c", SIL), "c": ("a", SIL)},
    }
    for desc, tab in tables.items():
        n += 1
        rules = {name: cm.new("Rule", name, cm.new("Identifier", tgt) if tgt else cm.new("String", "x"), mod) for name, (tgt, mod) in tab.items()}
        ref = cm.new("Identifier", "a")
        saved_steps = cm.max_steps
        cm.max_steps = 40000  # a two-rule table needs a few hundred steps
        try:
            fn(ref, rules)
        except ModelRaise as err:
            bad.append(("inline_silent_rules raises", f"{desc}: raises {err}"))
        except Unsupported as err:
            if "does not terminate" in str(err):
                bad.append(("inline_silent_rules does not come back on a table of silent aliases", f"{desc}: no result within 40000 evaluation steps"))
            else:
                raise
        finally:
            cm.max_steps = saved_steps
    n += 1
    ref = cm.new("Identifier", "nowhere")
    try:
        if fn(ref, {}) is not ref:
            bad.append(("rewrites a reference to an undefined rule", "nowhere (undefined)"))
    except ModelRaise as err:
        bad.append(("inline_silent_rules raises", f"undefined rule: raises {err}"))
    return n, bad


def check_inline_builtin(repo: Repo, where: str) -> tuple[int, list[tuple[str, str]]]:
    """inline_builtin: a built-in is replaced by its body only if it is silent (EOI produces a pair)."""
    cm = program(repo, where)
    fn = cm.env.get("inline_builtin")
    if fn is None:
        raise AnalysisError("anchor vanished: inline_builtin")
    consts = repo.mod("src/pest/grammar/rule.py").constants()
    silent = consts["SILENT"]
    bad: list[tuple[str, str]] = []
    n = 0
    for name, mod in (("ANY", silent), ("ASCII_DIGIT", silent), ("SOI", silent), ("EOI", 0)):  # the library's built-ins: all silent except EOI
        n += 1
        body = cm.new("String", "body")
        rule = cm.new("BuiltInRule", name, body, mod)
        try:
            res = fn(rule, {})
        except ModelRaise as err:
            bad.append(("inline_builtin raises", f"{name}: raises {err}"))
            continue
        if res is body and not (mod & silent):
            bad.append(("inlines a built-in that produces a pair", f"{name} (not silent) is replaced by its body"))
        elif res is not body and res is not rule:
            bad.append(("returns neither the built-in nor its body", f"{name}: returns {res!r}"))
    for desc, expr in (("a literal", cm.new("String", "x")), ("a grammar rule", cm.new("Rule", "x", cm.new("String", "b"), silent)), ("a reference", cm.new("Identifier", "x"))):
        n += 1
        try:
            if fn(expr, {}) is not expr:
                bad.append(("rewrites a node that is not a built-in", f"{desc} is not returned unchanged"))
        except ModelRaise as err:
            bad.append(("inline_builtin raises", f"{desc}: raises {err}"))
    return n, bad
