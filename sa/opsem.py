"""C01 DIFF — interpreter and emitted code of an operator agree on scripted children.

For one operator and one binding, `parse()` (evaluated from its syntax tree on a real
ParserState / Stack / SnapshottingInt instance, sa/objmodel.py) and the code skeleton
E1 extracted from `generate()` (evaluated as it stands, `CHILD_i` / `parse_trivia` being
placeholders) are run against *oracle* children and an oracle WHITESPACE rule that follow
the same scripts of outcomes on both sides:

    S1  succeeds, consumes one character, yields one pair
    S0  succeeds, consumes nothing, yields nothing
    Fc  fails and leaves everything as it was
    Fd  fails after moving the cursor, pushing on the user stack and appending a pair

(contract K allows a failing expression to leave such dirt; its callers restore).  The
two sides must return the same result; on success also the same position, user stack,
pair list, rule-stack depth, atomic depth, predicate depth and tag stack; on either
result the checkpoints they took must be closed and the depth counters back.  What the
operator does depends on its children only through these outcomes, so the scripts of
bounded length (one outcome per child of a sequence or choice, up to three for the child
of a repetition) are the abstract domain of the assume/guarantee step E2 also uses; this
is a second, independent reading of both siblings, not a test of the library.
"""

from __future__ import annotations

import ast
import itertools
import re

from .core import AnalysisError
from .objmodel import ClassModel, install_re, new_parser_state, counter_value, open_checkpoints, stack_items
from .ordabs import Ev, ModelRaise, Obj, Sym, Unsupported
from .repo import Repo

RELS = [
    "src/pest/state.py", "src/pest/stack.py", "src/pest/checkpoint_int.py", "src/pest/pairs.py",
    "src/pest/grammar/expression.py", "src/pest/grammar/expressions/terminals.py", "src/pest/grammar/expressions/choice.py",
    "src/pest/grammar/expressions/sequence.py", "src/pest/grammar/expressions/prefix.py", "src/pest/grammar/expressions/postfix.py",
    "src/pest/grammar/expressions/group.py", "src/pest/grammar/rule.py", "src/pest/grammar/rules/special.py",
]
OUTCOMES = ("S1", "S0", "Fc", "Fd")
INPUT = "abcdefghij"


def program(repo: Repo, where: str) -> ClassModel:
    rels = [r for r in RELS if r in repo.py_files]
    restub = Obj("re")
    cm = ClassModel(repo, rels, where, {"re": restub, "Generic": None, "ChoiceCase": Sym("ChoiceCase")}, max_steps=60000)
    install_re(cm)
    cm._cache[("OracleExpr", "__str__")] = lambda o: "CHILD"  # noqa: SLF001
    for need in ("ParserState", "Stack", "SnapshottingInt"):
        if need not in cm.classes:
            raise AnalysisError(f"anchor vanished: class {need}")
    return cm


class Oracle:
    def __init__(self, name: str, script: list[str], log: list):
        self.name, self.script, self.log = name, list(script), log
        self.calls = 0

    def __call__(self, state: Obj, pairs: list) -> bool:
        self.calls += 1
        out = self.script.pop(0) if self.script else "Fc"
        self.log.append((self.name, out, state.pos))
        if out in ("S1", "S1p"):
            pairs.append(f"{self.name}#{self.calls}@{state.pos}")
            state.pos += 1
            if out == "S1p":  # a success with an effect on the user stack (trivia rules may PUSH)
                state.user_stack.__dict__["items"].append(f"pushed-{self.name}")
            return True
        if out == "S0":
            return True
        if out == "Fd":
            pairs.append(f"junk-{self.name}#{self.calls}")
            state.pos += 1
            state.user_stack.__dict__["items"].append(f"dirt-{self.name}")
        return False


class PosOracle:
    """A leaf whose outcome is a function of the position alone, as a terminal's is: it matches one character at the
    positions in ``at`` (optionally pushing on the user stack) and fails clean elsewhere.  With such leaves a
    rewrite that cannot change the meaning of a grammar must not change the result (sa/rewritesem.py)."""

    def __init__(self, name: str, at: frozenset, log: list, push: bool = False):
        self.name, self.at, self.log, self.push = name, frozenset(at), log, push
        self.calls = 0

    def __call__(self, state: Obj, pairs: list) -> bool:
        self.calls += 1
        hit = state.pos in self.at
        self.log.append((self.name, "S1" if hit else "Fc", state.pos))
        if not hit:
            return False
        pairs.append(f"{self.name}@{state.pos}")
        state.pos += 1
        if self.push:
            state.user_stack.__dict__["items"].append(f"pushed-{self.name}@{state.pos - 1}")
        return True


def make_oracle(name: str, script: object, log: list) -> "Oracle | PosOracle":
    """A scripted leaf (a list of outcomes, consumed per call) or a position-determined one (a set of positions;
    a tuple ("push", set) for one that also pushes on the user stack)."""
    if isinstance(script, (set, frozenset)):
        return PosOracle(name, frozenset(script), log)
    if isinstance(script, tuple) and len(script) == 2 and script[0] == "push":
        return PosOracle(name, frozenset(script[1]), log, push=True)
    return Oracle(name, script, log)  # type: ignore[arg-type]


def observe(state: Obj, pairs: list, result: object) -> dict:
    return {
        "result": result, "pos": state.pos, "stack": stack_items(state, state.user_stack), "pairs": [str(p) if not isinstance(p, Obj) else f"Pair({p.__dict__.get('name')},{p.__dict__.get('start')},{p.__dict__.get('end')})" for p in pairs],
        "frames": len(stack_items(state, state.rule_stack)), "atomic": counter_value(state, state.atomic_depth), "negdepth": state.neg_pred_depth,
        "tags": list(state.tag_stack), "open_checkpoints": open_checkpoints(state), "suppress": bool(state.__dict__.get("_suppress_failures")),
    }


def fresh_state(cm: ClassModel, entry_stack: tuple, ws_script: list[str], log: list) -> tuple[Obj, Oracle | None]:
    ws = Oracle("WS", ws_script, log) if ws_script is not None else None
    rules = {}
    if ws is not None:
        r = Obj("Rule", name="WHITESPACE")
        r.__dict__["parse"] = ws
        rules["WHITESPACE"] = r
    parser = Obj("Parser", rules=rules)
    state = new_parser_state(cm, INPUT, 1, parser, "C01 DIFF")
    for item in entry_stack:
        cm.call(state.user_stack, "push", item)
    # operators run inside the frame of the rule that contains them (RULE-FRAME obligation)
    cm.call(state.rule_stack, "push", cm.new("RuleFrame", "outer", 0))
    return state, ws


def child_obj(oracle: Oracle) -> Obj:
    o = Obj(("OracleExpr", "Expression"), tag=None)
    o.__dict__["parse"] = oracle
    return o


def scripts_for(cls: str, n_children: int, quick: bool) -> list[list[list[str]]]:
    outs = ("S1", "Fd", "S0") if quick else OUTCOMES
    if n_children == 0:
        return [[]]
    if cls in ("Repeat", "RepeatOnce"):
        seqs = [list(s) for k in (1, 2, 3) for s in itertools.product(outs, repeat=k) if all(x.startswith("S") for x in s[:-1])]
        return [[s] for s in seqs]
    return [[[o] for o in combo] for combo in itertools.product(outs, repeat=n_children)]


def diff_operator(cm: ClassModel, cls: str, ctor_args: list, ctor_kwargs: dict, n_children: int, skeleton_src: str, constants: list[tuple[str, str]], entry_stacks: list[tuple], where: str, quick: bool) -> tuple[int, list[tuple[str, str]]]:
    bad: list[tuple[str, str]] = []
    n = 0
    try:
        tree = ast.parse(skeleton_src)
    except SyntaxError:
        return 0, []  # reported by the SYNTAX rule
    for entry_stack in entry_stacks:
        for child_scripts in scripts_for(cls, n_children, quick):
            for ws_script in (([], ["S1p"]) if quick else ([], ["S1"], ["S1p"])) if n_children else ([],):
                n += 1
                desc = f"children {child_scripts}, trivia {ws_script}, entry stack {list(entry_stack)}"
                # --- interpreter
                log_i: list = []
                st_i, _ = fresh_state(cm, entry_stack, list(ws_script), log_i)
                oracles_i = [Oracle(f"c{i}", s, log_i) for i, s in enumerate(child_scripts)]
                args = [child_obj(oracles_i[a[1]]) if isinstance(a, tuple) and a[0] == "child" else a for a in ctor_args]
                if args and isinstance(args[0], list):
                    args = [[child_obj(oracles_i[a[1]]) for a in args[0]]] + args[1:]
                pairs_i: list = []
                try:
                    node = cm.new(cls, *(args if not (args and isinstance(args[0], list) and cls in ("Sequence", "Choice")) else args[0]), **ctor_kwargs)
                    res_i = cm.call(node, "parse", st_i, pairs_i)
                    obs_i = observe(st_i, pairs_i, res_i)
                except ModelRaise as err:
                    obs_i = {"raises": str(err).split(":")[0]}
                # --- emitted code
                log_g: list = []
                st_g, _ = fresh_state(cm, entry_stack, list(ws_script), log_g)
                oracles_g = [Oracle(f"c{i}", s, log_g) for i, s in enumerate(child_scripts)]
                pairs_g: list = []
                env = dict(cm.env)
                env.update({"state": st_g, "PAIRS": pairs_g, "parse_trivia": (lambda s, p: cm.call(s, "parse_trivia", p))})
                for i, o in enumerate(oracles_g):
                    env[f"CHILD_{i}"] = o
                ev = Ev(env, where, cm, 60000)
                try:
                    for cname, cexpr in constants:
                        env[cname] = ev.ev(ast.parse(cexpr, mode="eval").body)
                    ev.run(tree.body)
                    obs_g = observe(st_g, pairs_g, env.get("MATCHED"))
                except ModelRaise as err:
                    obs_g = {"raises": str(err).split(":")[0]}
                # --- compare
                if "raises" in obs_i or "raises" in obs_g:
                    if obs_i.get("raises") != obs_g.get("raises"):
                        bad.append(("one sibling raises where the other does not", f"{desc}: parse() {obs_i.get('raises') or 'returns'}, emitted code {obs_g.get('raises') or 'returns'}"))
                    continue
                if bool(obs_i["result"]) != bool(obs_g["result"]):
                    bad.append(("the siblings disagree on success", f"{desc}: parse() returns {obs_i['result']}, emitted code sets {obs_g['result']}"))
                    continue
                for side, obs in (("parse()", obs_i), ("emitted code", obs_g)):
                    if obs["open_checkpoints"]:
                        bad.append((f"{side} leaves a checkpoint open", desc))
                    if (obs["frames"], obs["atomic"], obs["negdepth"], obs["suppress"]) != (1, 0, 0, False):
                        bad.append((f"{side} does not put the depth counters back", f"{desc}: frames {obs['frames']}, atomic {obs['atomic']}, predicate depth {obs['negdepth']}, suppress {obs['suppress']}"))
                if obs_i["result"]:
                    for key, what in (("pos", "position"), ("stack", "user stack"), ("pairs", "pairs"), ("tags", "tag stack")):
                        if obs_i[key] != obs_g[key]:
                            bad.append((f"the siblings succeed with a different {what}", f"{desc}: parse() {obs_i[key]}, emitted code {obs_g[key]}"))
                            break
                    else:
                        if [x[:2] for x in log_i] != [x[:2] for x in log_g]:
                            bad.append(("the siblings attempt their children and trivia in a different order", f"{desc}: parse() {[x[0] + ':' + x[1] for x in log_i]}, emitted code {[x[0] + ':' + x[1] for x in log_g]}"))
    return n, bad


COMBINATORS = ("Sequence", "Choice", "Optional", "Repeat", "RepeatOnce", "Group", "PositivePredicate", "NegativePredicate", "Push")
STACK_OPS = ("Peek", "Pop", "Drop", "PeekAll", "PopAll", "PeekSlice", "PushLiteral")
PLAIN = ("String", "_Any", "_EOI", "_SOI")
STACKS = [(), ("a",), ("x",), ("",), ("c", "ab"), ("b", "a"), ("b", "x"), ("bc", "", "a")]


def construct_args(cm: ClassModel, cls: str, params: dict, n_children: int) -> tuple[list, dict]:
    init = cm._resolve(cls, "__init__")  # noqa: SLF001
    if init is None:
        return [], {}
    args: list = []
    alias = {"min_": "min", "max_": "max"}
    for a in init.args.args[1:]:
        if a.arg == "expression":
            args.append(("child", 0))
        elif alias.get(a.arg, a.arg) in params:
            v = params[alias.get(a.arg, a.arg)]
            if isinstance(v, int) and a.annotation is not None and "str" in ast.unparse(a.annotation) and "int" not in ast.unparse(a.annotation):
                v = str(v)  # the constructor takes the token text (PeekSlice)
            args.append(v)
        elif a.arg == "tag":
            args.append(None)
        else:
            raise AnalysisError(f"C01 DIFF: no binding for parameter {a.arg} of {cls}.__init__")
    if init.args.vararg is not None:
        args.extend(("child", i) for i in range(n_children))
    return args, {}


def check_operators(repo: Repo, where: str, tier: str) -> tuple[dict, list[tuple[str, str, int, list]]]:
    from . import opcheck, tmpl  # noqa: PLC0415

    cm = program(repo, where)
    quick = tier != "thorough"
    units = {"operators": 0, "skeletons": 0, "scripts": 0, "skipped": []}
    results: list[tuple[str, str, int, list]] = []
    for rel, cls in opcheck.operator_classes(repo):
        if opcheck.delegation_checks(repo, opcheck.OpReport(), rel, cls):
            units["skipped"].append(f"{cls}: delegates both siblings to one rewritten expression (UNROLLED rule)")
            continue
        if cls not in COMBINATORS + STACK_OPS + PLAIN:
            units["skipped"].append(f"{cls}: regex terminal or delegate, decided by other rules")
            continue
        if cls not in cm.classes:
            raise AnalysisError(f"{where}: operator class {cls} ({rel}) is outside the program model")
        units["operators"] += 1
        for params, _ in opcheck.bindings(cls, tier):
            if cls == "String":
                params = {**params, "value": "ab"}
            if cls == "PushLiteral":
                params = {**params, "value": "q"}
            n_children = len(params["expressions"]) if "expressions" in params else (1 if "expression" in params else 0)
            if quick and n_children > 2 and cls in ("Sequence", "Choice"):
                continue
            sks = tmpl.operator_skeletons(repo, rel, cls, opcheck.tmpl_params(params))
            for sk in sks:
                if any(d for _, d in sk.decisions):
                    units["skipped"].append(f"{sk.label()}: variant for a child of a special kind")
                    continue
                if any("<" in c for _, c in sk.constants):
                    units["skipped"].append(f"{sk.label()}: constant with a placeholder")
                    continue
                args, kwargs = construct_args(cm, cls, params, n_children)
                stacks = STACKS if cls in STACK_OPS else [(), ("a",)]
                if quick and cls not in STACK_OPS:
                    stacks = [("a",)]
                n, b = diff_operator(cm, cls, args, kwargs, n_children, sk.source, sk.constants, stacks, where, quick)
                units["skeletons"] += 1
                units["scripts"] += n
                seen: dict = {}
                for cat, detail in b:
                    seen.setdefault(cat, detail)
                results.append((sk.construct.replace(".generate", ".parse/generate"), sk.label(), n, sorted(seen.items())))
    return units, results


def check_ctx_managers(repo: Repo, where: str) -> tuple[int, list[tuple[str, str]]]:
    """CTX-MODEL: E2 (sa/flow.py) models ParserState's context managers by name - atomic_checkpoint saves the atomic
    depth and the pair-visibility flag and puts both back, suppress_failures switches failure recording off and on
    again, tag pushes a tag and removes it if it is still there.  Here the managers are evaluated from their
    syntax trees on a model ParserState, for every combination of entry values and of what the body does, and
    compared with that model."""
    cm = program(repo, where)
    bad: list[tuple[str, str]] = []
    n = 0
    has_hide = "hide_pairs" in ast.unparse(cm.classes["ParserState"])

    def run(src: str, state: Obj) -> None:
        env = dict(cm.env)
        env["state"] = state
        Ev(env, where, cm, 20000).run(ast.parse(src).body)

    for depth0 in (0, 2):
        for hide0 in ((False, True) if has_hide else (False,)):
            for body in ("state.atomic_depth += 1", "state.atomic_depth.zero()", "pass"):
                for hide_w in ((None, True, False) if has_hide else (None,)):
                    n += 1
                    st, _ = fresh_state(cm, (), None, [])
                    for _ in range(depth0):
                        run("state.atomic_depth += 1", st)
                    if has_hide:
                        st.hide_pairs = hide0
                    src = "with state.atomic_checkpoint():\n    " + body + ("\n    state.hide_pairs = " + repr(hide_w) if hide_w is not None else "") + "\n    INSIDE = (state.atomic_depth > 0, getattr_hide)\n".replace("getattr_hide", "state.hide_pairs" if has_hide else "False")
                    desc = f"atomic depth {depth0}, hide_pairs {hide0}; body: {body}" + (f"; hide_pairs = {hide_w}" if hide_w is not None else "")
                    try:
                        run(src, st)
                    except ModelRaise as err:
                        bad.append(("atomic_checkpoint raises", f"{desc}: {err}"))
                        continue
                    got = (counter_value(st, st.atomic_depth), st.__dict__.get("hide_pairs", False))
                    if got[0] != depth0:
                        bad.append(("atomic_checkpoint does not put the atomic depth back", f"{desc}: depth {got[0]} afterwards"))
                    if has_hide and got[1] != hide0:
                        bad.append(("atomic_checkpoint does not put pair visibility back", f"{desc}: hide_pairs {got[1]} afterwards"))
    for before in (False, True):
        # nested use is real: implicit trivia is parsed under it, and a trivia rule may itself parse trivia
        n += 1
        st, _ = fresh_state(cm, (), None, [])
        try:
            env = dict(cm.env)
            env["state"] = st
            ev = Ev(env, where, cm, 20000)
            src = "with state.suppress_failures():\n    INSIDE = state._suppress_failures\nAFTER = state._suppress_failures"
            if before:
                src = "with state.suppress_failures():\n    with state.suppress_failures():\n        INSIDE = state._suppress_failures\n    AFTER = state._suppress_failures\nOUT = state._suppress_failures"
            ev.run(ast.parse(src).body)
            if env.get("INSIDE") is not True or env.get("AFTER") is not before or (before and env.get("OUT") is not False):
                bad.append(("suppress_failures does not switch failure recording off inside and back to what it was after", f"{'nested: ' if before else ''}inside {env.get('INSIDE')}, after {env.get('AFTER')}" + (f", after the outer one {env.get('OUT')}" if before else "")))
        except ModelRaise as err:
            bad.append(("suppress_failures raises", str(err)))
    for consumed in (False, True):
        n += 1
        st, _ = fresh_state(cm, (), None, [])
        try:
            env = dict(cm.env)
            env["state"] = st
            ev = Ev(env, where, cm, 20000)
            ev.run(ast.parse("with state.tag('t'):\n    INSIDE = list(state.tag_stack)\n" + ("    state.tag_stack.pop()\n" if consumed else "") + "AFTER = list(state.tag_stack)").body)
            if env.get("INSIDE") != ["t"] or env.get("AFTER") != []:
                bad.append(("tag() does not push its tag for the body and leave the tag stack as it found it", f"consumed inside: {consumed}; inside {env.get('INSIDE')}, after {env.get('AFTER')}"))
        except ModelRaise as err:
            bad.append(("tag() raises", f"consumed inside: {consumed}: {err}"))
    return n, bad


def check_checkpoint_cover(repo: Repo, where: str) -> tuple[int, list[tuple[str, str]]]:
    """COVER (semantic): ParserState.checkpoint / ok / restore, evaluated from their syntax trees on a model state
    whose backtrackable components are recorders: checkpoint() must take exactly one snapshot of each of
    user_stack, rule_stack and atomic_depth and save the position; ok() must release exactly those and keep the
    position; restore() must reinstate each and the saved position - for empty and non-empty components alike
    (a component saved only when non-empty pairs the wrong snapshots later)."""
    cm = program(repo, where)
    bad: list[tuple[str, str]] = []
    n = 0
    want = {
        "checkpoint": {"user_stack": ["snapshot"], "rule_stack": ["snapshot"], "atomic_depth": ["snapshot"]},
        "ok": {"user_stack": ["drop_snapshot"], "rule_stack": ["drop_snapshot"], "atomic_depth": ["drop"]},
        "restore": {"user_stack": ["restore"], "rule_stack": ["restore"], "atomic_depth": ["restore"]},
    }

    def recorder(name: str, nonempty: bool, log: dict) -> Obj:
        kinds = ("SnapshottingInt",) if name == "atomic_depth" else ("Stack",)
        o = Obj(kinds + ("Recorder",))
        for m in ("snapshot", "drop_snapshot", "restore", "drop"):
            o.__dict__[m] = (lambda m=m: log.setdefault(name, []).append(m))
        o.__dict__["__len__"] = lambda: 2 if nonempty else 0
        o.__dict__["__bool__"] = lambda: nonempty
        o.__dict__["empty"] = lambda: not nonempty
        o.__dict__["items"] = ["x", "y"] if nonempty else []
        o.__dict__["_value"] = 1 if nonempty else 0
        return o

    cm._cache[("Recorder", "__len__")] = lambda o: o.__dict__["__len__"]()  # noqa: SLF001
    cm._cache[("Recorder", "__bool__")] = lambda o: o.__dict__["__bool__"]()  # noqa: SLF001
    for nonempty in (False, True):
        for meth in ("checkpoint", "ok", "restore"):
            n += 1
            log: dict = {}
            st, _ = fresh_state(cm, (), None, [])
            for comp in ("user_stack", "rule_stack", "atomic_depth"):
                st.__dict__[comp] = recorder(comp, nonempty, log)
            st.pos = 3
            desc = f"{meth}() with {'non-empty' if nonempty else 'empty'} components"
            try:
                if meth != "checkpoint":
                    cm.call(st, "checkpoint")
                    log.clear()
                    st.pos = 7
                cm.call(st, meth)
            except ModelRaise as err:
                bad.append((f"{meth}() raises", f"{desc}: {err}"))
                continue
            for comp, ops_ in want[meth].items():
                got = log.get(comp, [])
                if got != ops_:
                    how = "does not apply" if not got else "applies"
                    bad.append((f"{meth}() {how} {'/'.join(got) or ops_[0]} to {comp} where exactly one '{ops_[0]}' is specified", f"{desc}: operations on {comp}: {got}"))
            if meth == "ok" and st.pos != 7:
                bad.append(("ok() does not discard exactly the saved position, or moves the position", f"{desc}: position {st.pos} after ok() (was 7)"))
            if meth == "restore" and st.pos != 3:
                bad.append(("restore() does not reinstate the saved position", f"{desc}: position {st.pos} (saved 3)"))
        # the position under nested checkpoints, by behaviour alone (whatever holds the saved positions): checkpoint()
        # saves exactly one position, ok() discards exactly that one and keeps the cursor, restore() reinstates it
        for inner in ("ok", "restore"):
            for outer in ("ok", "restore"):
                n += 1
                log = {}
                st, _ = fresh_state(cm, (), None, [])
                for comp in ("user_stack", "rule_stack", "atomic_depth"):
                    st.__dict__[comp] = recorder(comp, nonempty, log)
                desc = f"position 3, checkpoint(), position 7, checkpoint(), position 9, {inner}(), {outer}() with {'non-empty' if nonempty else 'empty'} components"
                try:
                    st.pos = 3
                    cm.call(st, "checkpoint")
                    st.pos = 7
                    cm.call(st, "checkpoint")
                    st.pos = 9
                    cm.call(st, inner)
                    p1 = st.pos
                    cm.call(st, outer)
                    p2 = st.pos
                except ModelRaise as err:
                    bad.append(("checkpoint / ok / restore raise under nested checkpoints", f"{desc}: {err}"))
                    continue
                w1 = 9 if inner == "ok" else 7
                w2 = 3 if outer == "restore" else w1
                if (p1, p2) != (w1, w2):
                    if inner == "restore" and p1 != w1 or outer == "restore" and p2 != w2:
                        which = "checkpoint() does not save the position" if (inner, outer) == ("restore", "restore") and p1 == 9 else "restore() does not reinstate the saved position"
                    else:
                        which = "ok() does not discard exactly the saved position, or moves the position"
                    bad.append((which, f"{desc}: position {p1} after {inner}() (specified {w1}), {p2} after {outer}() (specified {w2})"))
    # the pending tags: a rule takes the top tag for its pair (Rule.parse pops it), so an abandoned attempt must give
    # it back - restore() reinstates the tag stack of the checkpoint, ok() keeps what the attempt left, nested
    # checkpoints pair up (whatever the representation of the saved copies)
    for t0 in ([], ["t1"], ["t1", "t2"]):
        for inner in ("ok", "restore"):
            for outer in ("ok", "restore"):
                n += 1
                st, _ = fresh_state(cm, (), None, [])
                tags = st.__dict__.get("tag_stack")
                if not isinstance(tags, list):
                    raise AnalysisError(f"{where}: anchor vanished: ParserState.tag_stack is no longer a list")
                tags[:] = list(t0)
                desc = f"tags {t0}: checkpoint, take/push a tag, checkpoint, take/push a tag, {inner}(), {outer}()"
                try:
                    cm.call(st, "checkpoint")
                    if tags:
                        tags.pop()
                    tags.append("a")
                    t1 = list(tags)
                    cm.call(st, "checkpoint")
                    tags.pop()
                    tags.append("b")
                    tags.append("c")
                    t2 = list(tags)
                    cm.call(st, inner)
                    after_inner = list(st.__dict__["tag_stack"])
                    cm.call(st, outer)
                    after_outer = list(st.__dict__["tag_stack"])
                except ModelRaise as err:
                    bad.append(("checkpoint / ok / restore raise with pending tags", f"{desc}: {err}"))
                    continue
                want_inner = t2 if inner == "ok" else t1
                want_outer = list(t0) if outer == "restore" else want_inner
                if after_inner != want_inner or after_outer != want_outer:
                    which = "restore() does not give back the tags an abandoned attempt took" if "restore" in (inner, outer) and (after_inner != want_inner if inner == "restore" else after_outer != want_outer) else "ok() changes the pending tags"
                    bad.append((which, f"{desc}: tags after {inner}() {after_inner} (specified {want_inner}), after {outer}() {after_outer} (specified {want_outer})"))
    return n, bad
