"""C10 FRONT-END — scanner and token parser together, on model grammar *texts*.

`tokenize()` (the scanner's state machine, its regular expressions run by the repository's
engine) and the token parser are evaluated from their syntax trees (sa/objmodel.py) on
texts rendered from the case table of sa/tokparse.py: every term form, prefix / postfix
operator and pair, tag position, repetition form, PEEK slice, infix arrangement and rule
header - each under five placements of trivia between *every* two tokens (none where
the tokens cannot merge, one blank, a line break, a block comment, a line comment), which
is what the meta-grammar's normal rules allow.  The rule built must be the one the text
denotes.  A second family - each of a handful of malformed shapes (dangling, doubled or
leading infix operator, unbalanced parentheses, empty braces, tag without `=`, broken
slice, half a range) - must end in a grammar syntax error: not in a Parser, and not in
another exception.

This replaces, as the deciding rule, the hand-derived structural facts over the
scanner's source (SYNTAX, DISPATCH, the trivia typestate): those read the shape of the
code and misread a restructured scanner; they are kept as a second opinion and reported
only when this rule fails too.
"""

from __future__ import annotations

from .core import AnalysisError
from .objmodel import ClassModel, install_re
from .ordabs import ModelRaise, Obj
from .repo import Repo
from . import tokparse

RELS = ["src/pest/grammar/scanner.py"] + tokparse.RELS

PUNCT = {"LBRACE", "RBRACE", "LPAREN", "RPAREN", "LBRACKET", "RBRACKET", "ASSIGN_OP", "SEQUENCE_OP", "CHOICE_OP", "OPTION_OP", "REPEAT_OP", "REPEAT_ONCE_OP", "RANGE_OP", "COMMA",
         "POSITIVE_PREDICATE", "NEGATIVE_PREDICATE", "MODIFIER"}
SEPARATORS = {"no trivia": "", "one blank": " ", "a line break": "\n", "a block comment": " /* c */ ", "a line comment": " // c\n"}


def program(repo: Repo, where: str) -> ClassModel:
    rels = [r for r in RELS if r in repo.py_files]
    cm = ClassModel(repo, rels, where, {"re": Obj("re"), "Never": None, "TypeAlias": None, "ChoiceCase": tokparse.Sym("ChoiceCase")}, max_steps=600000)
    install_re(cm)
    for need in ("Scanner", "Parser", "Token"):
        if need not in cm.classes:
            raise AnalysisError(f"{where}: anchor vanished: class {need} of the grammar front end")
    if "tokenize" not in cm.env:
        raise AnalysisError(f"{where}: anchor vanished: tokenize()")
    return cm


def lexeme(kind: str, value: str) -> str:
    if kind == "STRING":
        return '"' + value.replace("\\", "\\\\").replace('"', '\\"').replace("\n", "\\n") + '"'
    if kind == "STRING_CI":
        return '^"' + value.replace("\\", "\\\\").replace('"', '\\"').replace("\n", "\\n") + '"'
    return value


def may_touch(a: str, b: str) -> bool:
    """Two lexemes can be written without anything between them if the scanner cannot read them as one."""
    if not a or not b:
        return True
    wordy = lambda c: c.isalnum() or c == "_"  # noqa: E731
    if wordy(a[-1]) and wordy(b[0]):
        return False
    if a[-1] == "." or b[0] == ".":
        return a[-1] != b[0]
    if (a[-1], b[0]) in {("/", "/"), ("/", "*"), ("*", "/"), ("-", "0"), ("^", "\""), ("#", "_")}:
        return False
    return not (a[-1] == "-" and b[0].isdigit())


def render(lexemes: list[str], sep: str) -> str:
    out = lexemes[0]
    for prev, cur in zip(lexemes, lexemes[1:]):
        s = sep
        if s == "" and not may_touch(prev, cur):
            s = " "
        out += s + cur
    return out


def _untagged(t):  # noqa: ANN001, ANN202
    if isinstance(t, tuple):
        return tuple(_untagged(x) for x in t if not (isinstance(x, tuple) and len(x) == 2 and x[0] == "#"))
    return t


def check_front_end(repo: Repo, where: str, thorough: bool = False, only=None) -> tuple[int, list[tuple[str, str]]]:  # noqa: ANN001
    """``only``: a predicate on token lists; just the matching expression cases are evaluated (C12 takes the literal ones)."""
    cm = program(repo, where)
    any_rule = cm.new("BuiltInRule", "ANY", cm.new("String", "<any>"), 2)
    builtins = {"ANY": any_rule}
    bad: list[tuple[str, str]] = []
    n = 0
    seps = SEPARATORS if thorough else {k: SEPARATORS[k] for k in ("no trivia", "one blank", "a block comment", "a line comment")}

    def front(text: str) -> dict:
        tokens = cm.env["tokenize"](text)
        parser = cm.new("Parser", tokens, builtins)
        res = cm.call(parser, "parse")
        return res[0] if isinstance(res, tuple) else res

    for desc, toks, want in tokparse.cases():
        if only is not None and not only(toks):
            continue
        lexs = ["r", "=", "{"] + [lexeme(k, v) for k, v in toks] + ["}"]
        for sname, sep in seps.items():
            n += 1
            text = render(lexs, sep)
            if sname == "a line comment":
                text += "\n"
            try:
                rules = front(text)
            except ModelRaise as err:
                kind = str(err).split(":")[0]
                cat = "a valid grammar text is refused" if "Pest" in kind else f"a valid grammar text ends in {kind}"
                bad.append((f"{cat} ({sname} between the tokens)", f"{text!r}: {err}"))
                continue
            r = rules.get("r") if isinstance(rules, dict) else None
            got = tokparse.tree(r.__dict__.get("expression")) if isinstance(r, Obj) else None
            if only is not None:
                # (the literal clause: which node carries which tag is C10's, not this selection's)
                got, want_ = _untagged(got), _untagged(want)
            else:
                want_ = want
            if got != want_:
                bad.append((f"the rule built is not the one the text denotes ({sname} between the tokens)", f"{text!r} builds {got}, denoted {want_}"))
    if only is not None:
        return n, bad
    # a keyword is a whole word: a longer identifier that begins with one is an identifier (identifier = @{ !"PUSH" ~
    # ("_" | alpha) ~ ("_" | alpha_num)* } excludes the PUSH prefix only), and the longer keyword wins over the shorter
    for kw in ("POP", "POP_ALL", "PEEK", "PEEK_ALL", "DROP", "ANY"):
        for suffix in ("x", "_", "1", "_ALLx", "S"):
            n += 1
            word = kw + suffix
            text = f"r = {{ {word} ~ a }}"
            try:
                rules = front(text)
            except ModelRaise as err:
                bad.append(("an identifier that begins with a keyword is refused", f"{text!r}: {err}"))
                continue
            r = rules.get("r") if isinstance(rules, dict) else None
            got = tokparse.tree(r.__dict__.get("expression")) if isinstance(r, Obj) else None
            want = ("Sequence", ("Identifier", word), ("Identifier", "a"))
            if got != want:
                bad.append(("a keyword claims the first letters of a longer identifier", f"{text!r} builds {got}, denoted {want}"))
    # rule headers, documentation lines, several rules
    for sym in ("", "_", "@", "$", "!"):
        for sname, sep in seps.items():
            n += 1
            text = "//! top\n/// one\n" + render(["r", "=", *([sym] if sym else []), "{", "a", "}"], sep) + ("\n" if "comment" in sname else " ") + render(["s", "=", "{", '"v"', "}"], sep) + "\n"
            try:
                rules = front(text)
            except ModelRaise as err:
                bad.append((f"a valid grammar text is refused ({sname} between the tokens)", f"{text!r}: {err}"))
                continue
            if not (isinstance(rules, dict) and list(rules) == ["r", "s"]):
                bad.append(("rules are not recorded under their names in order", f"{text!r}: {list(rules) if isinstance(rules, dict) else rules!r}"))
                continue
            if tokparse.tree(rules["r"].__dict__.get("expression")) != ("Identifier", "a") or tokparse.tree(rules["s"].__dict__.get("expression")) != ("String", "v"):
                bad.append(("a rule's body is not the expression between its braces", f"{text!r}"))
            if list(rules["r"].__dict__.get("doc") or []) != ["one"]:
                bad.append(("a rule's documentation is not its /// lines", f"{text!r}: {rules['r'].__dict__.get('doc')!r}"))
    # documentation text ends at the line break, whichever kind (newline = _{ "\n" | "\r\n" })
    for nl in ("\n", "\r\n"):
        n += 1
        text = f"//! top{nl}//! more{nl}/// one{nl}/// two{nl}r = {{ a }}{nl}"
        try:
            tokens = cm.env["tokenize"](text)
            parser = cm.new("Parser", tokens, builtins)
            res = cm.call(parser, "parse")
        except ModelRaise as err:
            bad.append(("a valid grammar text is refused (documentation comments)", f"{text!r}: {err}"))
            continue
        rules_, gdoc = res if isinstance(res, tuple) and len(res) == 2 else (res, None)
        rdoc = list(rules_["r"].__dict__.get("doc") or []) if isinstance(rules_, dict) and "r" in rules_ else None
        if list(gdoc or []) != ["top", "more"] or rdoc != ["one", "two"]:
            bad.append(("documentation text is not the rest of the line", f"{text!r}: grammar doc {list(gdoc or [])!r}, rule doc {rdoc!r}"))
    # a doc comment may end the text (inner_doc = (!newline ~ ANY)* ends at EOI as well)
    for tail in ("//! top", "r = { a }\n/// end", "/// only"):
        n += 1
        try:
            front(tail)
        except ModelRaise as err:
            bad.append(("a documentation comment that ends the text is refused", f"{tail!r}: {err}"))
    # block comments nest, and every opener needs its own closer (block_comment = "/*" ~ (block_comment | !"*/" ~ ANY)* ~ "*/")
    for text, valid in (("r = { a } /* x /* y */ z */", True), ("r = { a } /**/", True), ("r = { a } /* * / */", True), ("/* c */ r = { a }", True), ("r = { a /* in /* side */ */ }", True),
                        ("r = { a } /* x /* y */", False), ("r = { a } /* disabled: /* old */ s = { b } /* end */ t = { a }", False), ("r = { a } /* x", False), ("r = { a } */", False)):
        n += 1
        try:
            rules = front(text)
        except ModelRaise as err:
            if valid or "PestGrammar" not in str(err).split(":")[0]:
                bad.append(("a grammar text with a well-formed block comment is refused" if valid else f"an unterminated block comment ends in {str(err).split(':')[0]}", f"{text!r}: {err}"))
            continue
        if not valid:
            bad.append(("a grammar text with an unterminated block comment is accepted", f"{text!r}: rules {list(rules) if isinstance(rules, dict) else rules!r}"))
        elif not (isinstance(rules, dict) and list(rules) == ["r"]):
            bad.append(("a block comment swallows or splits rules", f"{text!r}: rules {list(rules) if isinstance(rules, dict) else rules!r}"))
    # comments inside comments: a line comment is not recognised inside a block comment (its "*/" closes the block), a
    # block opener or closer inside a line comment is text, and what follows a nested block comment is still inside
    # the outer one
    for text, names in (("/* /* a */ // */\nr = { a }\n// */\ns = { a }", ["r", "s"]), ("/* // */ r = { a }", ["r"]), ("// /* \nr = { a }\n// */\ns = { a }", ["r", "s"]),
                        ("/* x */ // /* y\nr = { a }", ["r"]), ("/* /* a */ b */ r = { a } // */ c", ["r"]), ("r = { a } /* /* a */ // */\n/* */ s = { a }", ["r", "s"])):
        n += 1
        try:
            rules = front(text)
        except ModelRaise as err:
            bad.append(("a grammar text with comments inside comments is refused", f"{text!r}: {err}"))
            continue
        if not (isinstance(rules, dict) and list(rules) == names):
            bad.append(("comments inside comments swallow or split rules", f"{text!r}: rules {list(rules) if isinstance(rules, dict) else rules!r}, denoted {names}"))
    # malformed shapes: a syntax error, nothing else
    malformed = ["r = { a ~ }", "r = { ~ a }", "r = { a ~ ~ b }", "r = { a | }", "r = { (a }", "r = { a) }", "r = { }", "r = { #t a }", "r = { PEEK[1.] }", "r = { 'a'.. }", "r = { a{,} }",
                 "r = { a{ } }", "r = a }", "r { a }", "= { a }", "r = { a } }", "r = { \"a }", "r = { ^ a }", "r = { PUSH a }", "r = { PUSH_LITERAL(a) }", "r = { & }"]
    for text in malformed:
        n += 1
        try:
            front(text)
        except ModelRaise as err:
            kind = str(err).split(":")[0]
            if "PestGrammar" not in kind:
                bad.append((f"a malformed grammar text ends in {kind}, not in a grammar error", f"{text!r}: {err}"))
            continue
        bad.append(("a malformed grammar text is accepted", f"{text!r}"))
    return n, bad
