"""Receiver types for expressions, from mypy run as a library on /repo/src/pest.

mypy is used because the repository's own environment ships it (dev dependency).
The result is a position-keyed table  (file, line, col, end_line, end_col) -> type
string(s), cached under /verif/.cache by digest of the analysed sources.  If mypy
cannot be imported or reports a crash, ``load`` returns None and callers fall back
to the name-based receiver table (and say so in their evidence).
"""

from __future__ import annotations

import json
import os
from pathlib import Path

from .core import VERIF
from .repo import Repo

CACHE = VERIF / ".cache"


def _type_names(t: object) -> list[str]:
    from mypy.types import AnyType, CallableType, Instance, LiteralType, NoneType, TupleType, TypeType, TypeVarType, UnionType, get_proper_type

    t = get_proper_type(t)  # type: ignore[arg-type]
    if isinstance(t, Instance):
        return [t.type.fullname]
    if isinstance(t, UnionType):
        out: list[str] = []
        for x in t.items:
            out.extend(_type_names(x))
        return out
    if isinstance(t, NoneType):
        return ["None"]
    if isinstance(t, TupleType):
        return ["tuple#" + str(len(t.items))]
    if isinstance(t, LiteralType):
        return _type_names(t.fallback)
    if isinstance(t, TypeVarType):
        return _type_names(t.upper_bound)
    if isinstance(t, TypeType):
        return ["type:" + ",".join(_type_names(t.item))]
    if isinstance(t, CallableType):
        if t.is_type_obj():
            return ["type:" + t.type_object().fullname]
        return ["callable"]
    if isinstance(t, AnyType):
        return ["Any"]
    return [type(t).__name__]


def build(repo: Repo) -> dict | None:
    try:
        from mypy import build as mbuild
        from mypy.find_sources import create_source_list
        from mypy.nodes import Expression
        from mypy.options import Options
    except Exception:  # noqa: BLE001
        return None
    if repo.overlay:
        return None
    cwd = os.getcwd()
    os.chdir(repo.root)
    try:
        opts = Options()
        opts.preserve_asts = True
        opts.export_types = True
        opts.incremental = False
        opts.cache_dir = os.devnull
        opts.mypy_path = ["src"]
        opts.namespace_packages = True
        opts.python_version = (3, 12)
        opts.follow_imports = "silent"
        sources = create_source_list(["src/pest"], opts)
        res = mbuild.build(sources, opts)
    except Exception:  # noqa: BLE001
        os.chdir(cwd)
        return None
    finally:
        os.chdir(cwd)
    table: dict[str, list[str]] = {}
    file_of: dict[str, str] = {}
    for name, st in res.graph.items():
        if st.path and st.tree is not None and "src/pest" in st.path.replace("\\", "/"):
            file_of[name] = st.path
    # node -> module: walk each tree collecting expression nodes
    from mypy.traverser import TraverserVisitor  # noqa: F401  (not subclassed: see guidance)

    node_file: dict[int, str] = {}
    # syntactic children only: never follow reference links into other modules
    skip = {"node", "info", "def_var", "type", "unanalyzed_type", "original_def", "var", "names", "type_annotation", "unanalyzed_type"}
    attr_cache: dict[type, list[str]] = {}

    def attrs_of(n: object) -> list[str]:
        t = type(n)
        if t not in attr_cache:
            out = []
            for a in dir(t):
                if a.startswith("_") or a in skip:
                    continue
                try:
                    v = getattr(n, a)
                except Exception:  # noqa: BLE001
                    continue
                if callable(v) and not hasattr(v, "accept"):
                    continue
                out.append(a)
            attr_cache[t] = out
        return attr_cache[t]

    def is_node(x: object) -> bool:
        return hasattr(x, "line") and hasattr(x, "accept") and not isinstance(x, type)

    def collect(node: object, rel: str, seen: set[int]) -> None:
        stack = [node]
        while stack:
            n = stack.pop()
            if id(n) in seen:
                continue
            seen.add(id(n))
            if isinstance(n, Expression):
                node_file.setdefault(id(n), rel)
            for attr in attrs_of(n):
                try:
                    v = getattr(n, attr)
                except Exception:  # noqa: BLE001
                    continue
                if isinstance(v, (list, tuple)):
                    for x in v:
                        if is_node(x):
                            stack.append(x)
                        elif isinstance(x, (list, tuple)):
                            stack.extend(y for y in x if is_node(y))
                elif is_node(v):
                    stack.append(v)

    for name, path in file_of.items():
        rel = path.replace("\\", "/")
        collect(res.graph[name].tree, rel, set())
    for expr, typ in res.types.items():
        rel = node_file.get(id(expr))
        if rel is None or expr.line < 0:
            continue
        key = f"{rel}:{expr.line}:{expr.column}:{expr.end_line}:{expr.end_column}"
        names = _type_names(typ)
        table[key] = names
    return {"errors": len(res.errors), "types": table, "modules": len(file_of)}


def load(repo: Repo) -> dict | None:
    rels = repo.py_files
    digest = repo.digest(rels)
    CACHE.mkdir(exist_ok=True)
    path = CACHE / f"types-{digest}.json"
    scratch = bool(os.environ.get("SA_REPO"))  # a self-test variant: never touch the shared cache (runs in parallel)
    if path.exists() and not repo.overlay:
        try:
            return json.loads(path.read_text())
        except Exception:  # noqa: BLE001
            pass
    data = build(repo)
    if data is not None and not repo.overlay and not scratch:
        for old in CACHE.glob("types-*.json"):
            old.unlink(missing_ok=True)
        tmp = path.with_suffix(f".{os.getpid()}.tmp")
        tmp.write_text(json.dumps(data))
        os.replace(tmp, path)
    return data


class Types:
    def __init__(self, repo: Repo):
        self.data = load(repo)
        self.available = self.data is not None
        self.table = self.data["types"] if self.data else {}

    def of(self, rel: str, node) -> list[str] | None:
        if not self.available:
            return None
        key = f"{rel}:{node.lineno}:{node.col_offset}:{node.end_lineno}:{node.end_col_offset}"
        return self.table.get(key)
