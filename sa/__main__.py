"""Entry point:  /venv/bin/python -m sa <Cxx> [--tier quick|thorough]  (cwd /verif)."""

from __future__ import annotations

import argparse
import os
import sys

from .core import finish, run_guarded


def main() -> int:
    ap = argparse.ArgumentParser(prog="sa")
    ap.add_argument("prop")
    ap.add_argument("--tier", default=os.environ.get("VERIF_TIER", "quick"), choices=["quick", "thorough"])
    ap.add_argument("--replay", default=None, help="print a stored violation report and re-run its rule")
    args = ap.parse_args()

    def body() -> int:
        from .props import load

        if args.replay:
            import json

            rep = json.load(open(args.replay))
            print(json.dumps(rep, indent=1))
        mod = load(args.prop.upper())
        check = mod.run(args.tier)
        if args.tier == "thorough" and not os.environ.get("SA_REPO"):
            from . import selftest

            selftest.run(check)
        return finish(check)

    rc = run_guarded(body)
    sys.stdout.flush()
    return rc


if __name__ == "__main__":
    # skip interpreter teardown (mypy's is slow); evidence is already on disk
    rc = main()
    sys.stdout.flush()
    sys.stderr.flush()
    os._exit(rc)
