"""UNROLLED (concrete bounds) — the expression a bounded repetition delegates to is pest's
unrolled form, decided by building it: the operator's __init__ (or the optimizer's
unroll pass) is evaluated from its syntax tree on a model operand for every bound
0..B (sa/objmodel.py), and the resulting tree is compared, node by node, with

    e{n}   = e ~ ... ~ e (n)            e{n,} = e ~ ... ~ e (n) ~ e*
    e{,n}  = e? ~ ... ~ e? (n)          e{m,n} = e (m) ~ e? (n - m)          e+ = e ~ e*

as *flat* sequences: pest skips implicit trivia between the elements of a sequence, so a
nested `(e ~ (e ~ e?)?)?` is a different expression even where it accepts the same
trivia-free text.  The symbolic normaliser (sa/terms.py) proves the same for all bounds
when the constructor is written in its algebra; this evaluation also follows helper
functions and loops, for the bounds the operator analysis enumerates anyway.
"""

from __future__ import annotations

from .core import AnalysisError
from .ordabs import ModelRaise, Obj
from .squashsem import program


def to_term(o: object, e: Obj) -> object:
    if o is e:
        return "e"
    if not isinstance(o, Obj):
        return ("?", repr(o))
    k = o.kinds[0]
    if k == "Sequence":
        return ("seq", [to_term(x, e) for x in o.expressions])
    if k == "Optional":
        return ("opt", to_term(o.expression, e))
    if k == "Repeat":
        return ("star", to_term(o.expression, e))
    if k == "Group" and o.__dict__.get("tag") is None:
        return to_term(o.expression, e)
    return (k, {a: to_term(v, e) for a, v in o.__dict__.items() if isinstance(v, Obj) and a != "kinds"})


def norm(t: object) -> object:
    """Sequence(x) behaves like x, and a sequence directly inside a sequence can be flattened (trivia is skipped at
    the same places); nothing else is identified."""
    if isinstance(t, tuple) and t[0] == "seq":
        items: list = []
        for x in t[1]:
            x = norm(x)
            if isinstance(x, tuple) and x[0] == "seq":
                items.extend(x[1])
            else:
                items.append(x)
        return items[0] if len(items) == 1 else ("seq", items)
    if isinstance(t, tuple) and t[0] in ("opt", "star"):
        return (t[0], norm(t[1]))
    return t


def show(t: object) -> str:
    if t == "e":
        return "e"
    if isinstance(t, tuple) and t[0] == "seq":
        return "(" + " ~ ".join(show(x) for x in t[1]) + ")" if t[1] else "ε"
    if isinstance(t, tuple) and t[0] == "opt":
        return show(t[1]) + "?"
    if isinstance(t, tuple) and t[0] == "star":
        return show(t[1]) + "*"
    return str(t)


def spec(cls: str, args: tuple) -> object:
    if cls == "RepeatExact":
        return ("seq", ["e"] * args[0])
    if cls == "RepeatMin":
        return ("seq", ["e"] * args[0] + [("star", "e")])
    if cls == "RepeatMax":
        return ("seq", [("opt", "e")] * args[0])
    if cls == "RepeatMinMax":
        return ("seq", ["e"] * args[0] + [("opt", "e")] * max(args[1] - args[0], 0))
    if cls == "RepeatOnce":
        return ("seq", ["e", ("star", "e")])
    raise AnalysisError(f"no unrolled form specified for {cls}")


def bounds(cls: str, top: int) -> list[tuple]:
    if cls == "RepeatOnce":
        return [()]
    if cls == "RepeatMinMax":
        return [(a, b) for a in range(top + 1) for b in range(a, top + 1)]
    return [(n,) for n in range(top + 1)]


def check_constructor(repo, where: str, cls: str, attr: str, top: int = 3) -> tuple[int, list[str]]:
    cm = program(repo, where)
    if cls not in cm.classes:
        raise AnalysisError(f"anchor vanished: class {cls}")
    bad: list[str] = []
    n = 0
    for args in bounds(cls, top):
        n += 1
        e = cm.new("String", "e")
        try:
            node = cm.new(cls, e, *args)
        except ModelRaise as err:
            bad.append(f"{cls}(e, {', '.join(map(str, args))}) raises {err}")
            continue
        built = node.__dict__.get(attr)
        if built is None:
            raise AnalysisError(f"{where}: {cls}.__init__ does not set self.{attr}")
        got, want = norm(to_term(built, e)), norm(spec(cls, args))
        if got != want:
            bad.append(f"{cls}(e, {', '.join(map(str, args))}) builds {show(got)} where {show(want)} is specified")
    return n, bad


def check_unroll_pass(repo, where: str, top: int = 3) -> tuple[int, list[str]]:
    """The optimizer's unroll pass on every bounded repetition with bounds 0..B: the rewritten node is the same flat
    unrolled form (so optimized and unoptimized parsers run the same expression)."""
    cm = program(repo, where)
    fn = cm.env.get("unroll")
    if fn is None:
        raise AnalysisError("anchor vanished: unroll")
    bad: list[str] = []
    n = 0
    for cls in ("RepeatExact", "RepeatMin", "RepeatMax", "RepeatMinMax", "RepeatOnce"):
        if cls not in cm.classes:
            raise AnalysisError(f"anchor vanished: class {cls}")
        for args in bounds(cls, top):
            n += 1
            e = cm.new("String", "e")
            try:
                node = cm.new(cls, e, *args)
                res = fn(node, {})
            except ModelRaise as err:
                bad.append(f"unroll({cls}(e, {', '.join(map(str, args))})) raises {err}")
                continue
            if res is node:
                continue  # declined: nothing claimed
            got, want = norm(to_term(res, e)), norm(spec(cls, args))
            if got != want:
                bad.append(f"unroll({cls}(e, {', '.join(map(str, args))})) = {show(got)} where {show(want)} is specified")
    return n, bad
