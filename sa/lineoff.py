"""LINE-OFFSET — offsets are mapped to line/column only over a partition of the text.

A function that finds the line containing offset p by accumulating the lengths of the
pieces of `text.splitlines(...)` is right for every text only if the pieces partition
the text, i.e. `keepends=True`.  Without it each line break is assumed to be exactly as
long as the constant that is added back (`len(line) + 1`), which is false for "\\r\\n":
the reported line:column then drifts by one per preceding line and can name a position
that does not exist.  The rule is a def-use check: the result of a `splitlines` call
without keepends must not flow, element by element, into `len()` inside an accumulation.
"""

from __future__ import annotations

import ast

from .repo import Module, qualname_of


def _keepends(call: ast.Call) -> bool:
    for k in call.keywords:
        if k.arg == "keepends":
            return isinstance(k.value, ast.Constant) and k.value.value is True
    if call.args:
        a = call.args[0]
        return isinstance(a, ast.Constant) and a.value is True
    return False


def splitlines_sites(m: Module) -> list[tuple[str, ast.Call, bool, bool]]:
    """(qualname, call, keepends, lengths_accumulated) for each .splitlines() call."""
    out = []
    for fn in [n for n in ast.walk(m.tree) if isinstance(n, (ast.FunctionDef, ast.AsyncFunctionDef))]:
        calls = [c for c in ast.walk(fn) if isinstance(c, ast.Call) and isinstance(c.func, ast.Attribute) and c.func.attr == "splitlines"]
        for call in calls:
            if qualname_of(m, call).split(".")[-1] != fn.name:
                continue  # belongs to a nested function
            # names bound to the pieces
            line_lists: set[str] = set()
            for n in ast.walk(fn):
                if isinstance(n, (ast.Assign, ast.AnnAssign)) and n.value is not None and any(c is call for c in ast.walk(n.value)):
                    tgt = n.targets[0] if isinstance(n, ast.Assign) else n.target
                    if isinstance(tgt, ast.Name):
                        line_lists.add(tgt.id)
            elems: set[str] = set()
            for n in ast.walk(fn):
                it = None
                if isinstance(n, ast.For):
                    it, tg = n.iter, n.target
                elif isinstance(n, ast.comprehension):
                    it, tg = n.iter, n.target
                if it is None:
                    continue
                uses = any(c is call for c in ast.walk(it)) or any(isinstance(x, ast.Name) and x.id in line_lists for x in ast.walk(it))
                if uses:
                    for x in ast.walk(tg):
                        if isinstance(x, ast.Name):
                            elems.add(x.id)
            accumulated = False
            for n in ast.walk(fn):
                # len(piece) used additively: `total += len(line)`, `end = start + len(line) + 1`, sum(len(l) ...)
                val = None
                if isinstance(n, ast.AugAssign) and isinstance(n.op, ast.Add):
                    val = n.value
                elif isinstance(n, ast.Call) and isinstance(n.func, ast.Name) and n.func.id == "sum" and n.args:
                    val = n.args[0]
                elif isinstance(n, ast.BinOp) and isinstance(n.op, ast.Add):
                    val = n
                if val is None:
                    continue
                for c in ast.walk(val):
                    if isinstance(c, ast.Call) and isinstance(c.func, ast.Name) and c.func.id == "len" and c.args:
                        a = c.args[0]
                        if (isinstance(a, ast.Name) and a.id in elems) or (isinstance(a, ast.Subscript) and isinstance(a.value, ast.Name) and a.value.id in line_lists):
                            accumulated = True
            out.append((qualname_of(m, call), call, _keepends(call), accumulated))
    return out


def mixed_notions(m: Module) -> list[tuple[str, str]]:
    """(qualname, description) where a line number obtained by counting "\\n" indexes the list made by splitlines():
    the two disagree after a trailing newline (count + 1 lines, splitlines() one fewer) and on \\r, \\x0b, \\x0c,
    \\x1c-\\x1e, \\x85, \\u2028, \\u2029, which only splitlines() treats as line breaks."""
    out = []
    for fn in [n for n in ast.walk(m.tree) if isinstance(n, (ast.FunctionDef, ast.AsyncFunctionDef))]:
        line_lists: set[str] = set()
        counted: set[str] = set()
        for n in ast.walk(fn):
            if isinstance(n, (ast.Assign, ast.AnnAssign)) and n.value is not None:
                tg = n.targets[0] if isinstance(n, ast.Assign) else n.target
                names = [t.id for t in ast.walk(tg) if isinstance(t, ast.Name)]
                calls = [c for c in ast.walk(n.value) if isinstance(c, ast.Call) and isinstance(c.func, ast.Attribute)]
                if any(c.func.attr == "splitlines" for c in calls):
                    line_lists.update(names)
                if any(c.func.attr == "count" and c.args and isinstance(c.args[0], ast.Constant) and c.args[0].value in ("\n", "\r\n") for c in calls):
                    counted.update(names)
        # propagate one step: x = counted - 1
        for _ in range(2):
            for n in ast.walk(fn):
                if isinstance(n, ast.Assign) and isinstance(n.targets[0], ast.Name) and any(isinstance(x, ast.Name) and x.id in counted for x in ast.walk(n.value)):
                    counted.add(n.targets[0].id)
        for n in ast.walk(fn):
            if isinstance(n, ast.Subscript) and isinstance(n.value, ast.Name) and n.value.id in line_lists and not isinstance(n.slice, ast.Slice):
                if any(isinstance(x, ast.Name) and x.id in counted for x in ast.walk(n.slice)):
                    out.append((qualname_of(m, n), ast.unparse(n)))
    return out


def apply(check, repo, rule: str, rels: list[str], floor: int) -> None:
    from .core import AnalysisError, Finding

    n = 0
    for rel in rels:
        m = repo.mod(rel)
        for q, call, keep, acc in splitlines_sites(m):
            n += 1
            construct = f"{rel}::{q}"
            ok = keep or not acc
            sig = "line lengths are accumulated over splitlines() without keepends: line breaks are assumed to be one character long"
            good = "offset -> line over a partition of the text (splitlines(keepends=True))" if keep else "splitlines() pieces are not used for offset arithmetic"
            check.oblige(rule, construct, good if ok else sig, ok,
                         finding=Finding(rule, construct, sig, f"{q}: `{ast.unparse(call)}` drops the line terminators but the lengths of its pieces are summed to locate an offset; with \"\\r\\n\" the computed line:column drifts by one per preceding line", {}))
    for rel in rels:
        m = repo.mod(rel)
        for q, expr in mixed_notions(m):
            construct = f"{rel}::{q}"
            sig = "a line number counted with count(\"\\n\") indexes the list made by splitlines()"
            check.oblige(rule, construct, sig, False, finding=Finding(rule, construct, sig, f"{q}: `{expr}` — after a trailing newline count(\"\\n\") + 1 names a line splitlines() does not return (IndexError), and the two disagree on which characters end a line", {}))
    check.count("splitlines_sites", n)
    if n < floor:
        raise AnalysisError(f"anchor vanished: expected at least {floor} splitlines() offset computations in {rels}, found {n}")
