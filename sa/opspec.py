"""Operator specification table (DESIGN §3.2) as replayable reference semantics.

Each spec is a generator over *abstract* child outcomes: it yields requests

    ('C', k)   attempt child k now          -> receives True/False
    ('T',)     implicit trivia here
    ('MARK',) / ('COMMIT',) / ('REWIND',)   checkpoint bracket of the live trace
    ('PUSH',)  one user-stack push of the text matched since entry

and returns the operator's result.  ``replay`` feeds it the outcome sequence of
one abstract implementation path and reports the first divergence.  The specs are
transcribed from the property texts (C03/C04/C05): sequence = trivia between
elements only; ordered choice; e* = C (T C)* with the trivia before a failing
attempt given back; bounded repetitions = their unrolled sequences.
"""

from __future__ import annotations


def spec_sequence(p):
    n = p["n"]
    for i in range(n):
        ok = yield ("C", i)
        if not ok:
            return False
        if i < n - 1:
            yield ("T",)
    return True


def spec_choice(p):
    for i in range(p["n"]):
        yield ("MARK",)
        ok = yield ("C", i)
        if ok:
            yield ("COMMIT",)
            return True
        yield ("REWIND",)
    return False


def spec_optional(p):
    yield ("MARK",)
    ok = yield ("C", 0)
    yield ("COMMIT",) if ok else ("REWIND",)
    return True


def _star():
    first = True
    while True:
        yield ("MARK",)
        if not first:
            yield ("T",)
        ok = yield ("C", 0)
        if not ok:
            yield ("REWIND",)
            return True
        yield ("COMMIT",)
        first = False


def spec_repeat(p):
    return (yield from _star())


def _seq_of(parts):
    """Sequence of sub-generators with trivia between them."""
    for i, g in enumerate(parts):
        ok = yield from g
        if not ok:
            return False
        if i < len(parts) - 1:
            yield ("T",)
    return True


def _one():
    ok = yield ("C", 0)
    return ok


def _opt():
    yield ("MARK",)
    ok = yield ("C", 0)
    yield ("COMMIT",) if ok else ("REWIND",)
    return True


def spec_repeat_once(p):
    return (yield from _seq_of([_one(), _star()]))


def spec_repeat_exact(p):
    return (yield from _seq_of([_one() for _ in range(p["number"])]))


def spec_repeat_min(p):
    return (yield from _seq_of([_one() for _ in range(p["number"])] + [_star()]))


def spec_repeat_max(p):
    return (yield from _seq_of([_opt() for _ in range(p["number"])]))


def spec_repeat_min_max(p):
    m, n = p["min"], p["max"]
    return (yield from _seq_of([_one() for _ in range(m)] + [_opt() for _ in range(max(n - m, 0))]))


def spec_pos_pred(p):
    yield ("MARK",)
    ok = yield ("C", 0)
    yield ("REWIND",)
    return ok


def spec_neg_pred(p):
    yield ("MARK",)
    ok = yield ("C", 0)
    yield ("REWIND",)
    return not ok


def spec_transparent(p):
    ok = yield ("C", 0)
    return ok


def spec_push(p):
    ok = yield ("C", 0)
    if ok:
        yield ("PUSH",)
    return ok


SPECS = {
    "Sequence": spec_sequence,
    "Choice": spec_choice,
    "Optional": spec_optional,
    "Repeat": spec_repeat,
    "RepeatOnce": spec_repeat_once,
    "RepeatExact": spec_repeat_exact,
    "RepeatMin": spec_repeat_min,
    "RepeatMax": spec_repeat_max,
    "RepeatMinMax": spec_repeat_min_max,
    "PositivePredicate": spec_pos_pred,
    "NegativePredicate": spec_neg_pred,
    "Group": spec_transparent,
    "Identifier": spec_transparent,
    "Push": spec_push,
}

# operators whose specification involves trivia placement
TRIVIA_OPS = {"Sequence", "Repeat", "RepeatOnce", "RepeatExact", "RepeatMin", "RepeatMax", "RepeatMinMax"}
BACKTRACKING_OPS = {"Choice", "Optional", "Repeat", "RepeatOnce", "RepeatExact", "RepeatMin", "RepeatMax", "RepeatMinMax", "PositivePredicate", "NegativePredicate"}


def canon(live: list) -> list:
    """Canonical live trace: only C/T/PUSH events, ``T T`` collapsed."""
    out: list = []
    for e in live:
        if e[0] not in ("C", "T", "PUSH"):
            continue
        if e[0] == "T" and out and out[-1][0] == "T":
            continue
        out.append(tuple(e))
    return out


def _fmt(e) -> str:
    if e is None:
        return "END"
    if e[0] == "C":
        return f"C{e[1]}"
    return e[0]


def replay(spec, params: dict, attempts: list, max_attempts: int | None = None):
    """Replay one implementation path's child outcomes through the spec.

    Returns (divergence | None, expected_live, expected_result).  ``divergence``
    is a (kind, signature, message) triple describing the *first* difference in
    the sequence of attempts."""
    gen = spec(params)
    live: list = []
    marks: list[int] = []
    it = iter(attempts)
    used = 0
    prev = "start"
    result = None
    try:
        req = next(gen)
        while True:
            if req[0] == "C":
                a = next(it, None)
                if a is None:
                    return (
                        ("attempt", f"impl=END spec=C{req[1]} after {prev}",
                         f"stops after {prev} where the specification attempts child {req[1]}"),
                        canon(live), None,
                    )
                used += 1
                k, ok = a
                if k != req[1]:
                    return (
                        ("attempt", f"impl=C{k} spec=C{req[1]} after {prev}",
                         f"attempts child {k} where the specification attempts child {req[1]} (after {prev})"),
                        canon(live), None,
                    )
                live.append(("C", k) if ok else ("DIRTY", k))
                prev = f"C{k}:{'ok' if ok else 'fail'}"
                req = gen.send(ok)
            else:
                if req[0] == "T":
                    live.append(("T",))
                elif req[0] == "MARK":
                    marks.append(len(live))
                elif req[0] == "COMMIT":
                    marks.pop()
                elif req[0] == "REWIND":
                    del live[marks.pop() :]
                elif req[0] == "PUSH":
                    live.append(("PUSH",))
                req = next(gen)
    except StopIteration as e:
        result = e.value
    extra = next(it, None)
    if extra is not None:
        return (
            ("attempt", f"impl=C{extra[0]} spec=END after {prev}",
             f"attempts child {extra[0]} after {prev} where the specification has finished with result {result}"),
            canon(live), result,
        )
    return None, canon(live), result


def first_live_diff(impl: list, spec: list):
    """First difference between canonical live traces (or None)."""
    for i in range(max(len(impl), len(spec))):
        a = impl[i] if i < len(impl) else None
        b = spec[i] if i < len(spec) else None
        if a != b:
            prev = _fmt(impl[i - 1]) if i > 0 else "start"
            return f"impl={_fmt(a)} spec={_fmt(b)} prev={prev}", _fmt(a), _fmt(b), prev
    return None
