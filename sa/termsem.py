"""C12 TERM-SEM — what the character terminals denote, interpreter and generated code.

String, CIString and Range are built on the program model (sa/objmodel.py) for a family of
parameters; both siblings are followed to the pattern they compile:

  interpreter   the constructor is evaluated from its syntax tree; the pattern and flags it
                hands to re.compile are captured;
  generator     generate() is evaluated with the repository's own Builder; the constant it
                registers (`re.compile(<pattern>, <flags>)`) is read back from the emitted text.

A captured pattern must be a plain sequence of literals / classes; its denotation - one
set of code points per position, over all 1,114,112 code points - is computed from the
regex syntax tree (re._parser), with case-insensitive matching expanded the way sre
defines it (ASCII partners under re.A; the full simple-folding classes, including the
special cases K / U+212A, s / U+017F, otherwise).  It is compared, exactly, with the
definition: a range is [start, stop] (empty when reversed), case sensitive; a `^"..."`
literal ignores the case of ASCII letters and of nothing else; a plain literal is itself.
Terminals that do not go through a pattern (String uses startswith; a variant may compare
lowered text) are evaluated on a family of inputs chosen by relation to the literal:
equal, ASCII case partner, non-ASCII case partner, special fold partner, expanding fold,
unrelated, shorter, end of input.  On top of the denotation, position handling is
checked on both siblings: a match advances by the matched length, a failure leaves the
position and records the failure.
"""

from __future__ import annotations

import ast
import re
import re._casefix as _cf  # type: ignore[import-not-found]
import re._constants as sc  # type: ignore[import-not-found]
import re._parser as sp  # type: ignore[import-not-found]

import _sre

from .core import AnalysisError
from .gensem import gen_program
from .objmodel import ClassModel, model_attr, new_parser_state
from .ordabs import Ev, ModelRaise, Obj
from .relang import norm
from .repo import Repo

_INV: dict[int, list[int]] | None = None


def _unicode_partners(cp: int) -> set[int]:
    global _INV  # noqa: PLW0603
    if _INV is None:
        _INV = {}
        for d in range(0x110000):
            _INV.setdefault(_sre.unicode_tolower(d), []).append(d)
    lo = _sre.unicode_tolower(cp)
    targets = {lo, *_cf._EXTRA_CASES.get(lo, ())}  # noqa: SLF001
    out: set[int] = set()
    for t in targets:
        out.update(_INV.get(t, ()))
    return out


def _fold(iv: tuple, ignorecase: bool, ascii_only: bool) -> tuple:
    if not ignorecase:
        return norm(list(iv))
    out = list(iv)
    for lo, hi in iv:
        if ascii_only:
            for a, b, delta in ((65, 90, 32), (97, 122, -32)):
                x, y = max(lo, a), min(hi, b)
                if x <= y:
                    out.append((x + delta, y + delta))
        else:
            # sre: a character matches when its simple lower-case form is in the set of lower-case forms of the
            # class (plus the listed special cases)
            if hi - lo > 0x30000:
                raise AnalysisError("TERM-SEM: case-insensitive class too wide to expand")
            _unicode_partners(lo)  # builds the inverse table
            lows: set[int] = set()
            for c in range(lo, hi + 1):
                l_ = _sre.unicode_tolower(c)
                lows.add(l_)
                lows.update(_cf._EXTRA_CASES.get(l_, ()))  # noqa: SLF001
            assert _INV is not None
            out.extend((d, d) for l_ in lows for d in _INV.get(l_, ()))
    return norm(out)


def denotation(pattern: str, flags: int, where: str) -> list[tuple] | None:
    """Per-position sets of code points; None = matches nothing; raises if not a plain literal/class sequence."""
    from . import rxoracle  # noqa: PLC0415

    try:
        parsed = sp.parse(pattern, 0)
    except re.error as err:
        raise AnalysisError(f"{where}: pattern {pattern!r} does not compile: {err}") from err
    inline = parsed.state.flags  # global inline flags, in the standard library's numbering
    g_ic = bool(flags & rxoracle.I) or bool(inline & re.I)
    g_asc = bool(flags & rxoracle.A) or bool(inline & re.A)
    # the `regex` module ignores a *scoped* ASCII flag for case folding ((?ai:k) still matches U+212A there);
    # the standard library honours it
    scoped_ascii_counts = rxoracle.ENGINE == "re"

    def walk(items: list, ic: bool, asc: bool) -> list[tuple] | None:
        out: list[tuple] = []
        for op, av in items:
            if op is sc.LITERAL:
                out.append(_fold(((av, av),), ic, asc))
            elif op is sc.IN:
                iv = []
                for iop, iav in av:
                    if iop is sc.LITERAL:
                        iv.append((iav, iav))
                    elif iop is sc.RANGE:
                        iv.append(tuple(iav))
                    else:
                        raise AnalysisError(f"{where}: class item {iop} in {pattern!r} is outside the terminal model")
                out.append(_fold(tuple(iv), ic, asc))
            elif op is sc.SUBPATTERN:
                _g, add, dele, sub = av
                sub_asc = (asc or (scoped_ascii_counts and bool(add & re.A))) and not (scoped_ascii_counts and dele & re.A)
                sub_out = walk(list(sub.data), (ic or bool(add & re.I)) and not dele & re.I, sub_asc)
                if sub_out is None:
                    return None
                out.extend(sub_out)
            elif op is sc.ASSERT_NOT and av[0] == 1 and not list(av[1].data):
                return None  # (?!) matches nothing
            else:
                raise AnalysisError(f"{where}: {op} in {pattern!r} is outside the terminal model")
        return out

    return walk(list(parsed.data), g_ic, g_asc)


def _patterns_of(obj: object) -> list[Obj]:
    return [v for v in getattr(obj, "__dict__", {}).values() if isinstance(v, Obj) and "Pattern" in v.kinds]


def expected_ci(value: str) -> list[tuple]:
    out = []
    for ch in value:
        c = ord(ch)
        iv = [(c, c)]
        if 65 <= c <= 90:
            iv.append((c + 32, c + 32))
        elif 97 <= c <= 122:
            iv.append((c - 32, c - 32))
        out.append(norm(iv))
    return out


def show(sets: list[tuple] | None) -> str:
    if sets is None:
        return "nothing"
    def one(iv: tuple) -> str:
        return "{" + ",".join(f"U+{a:04X}" if a == b else f"U+{a:04X}-U+{b:04X}" for a, b in iv[:6]) + (",…" if len(iv) > 6 else "") + "}"
    return " ".join(one(iv) for iv in sets) or "the empty string"


# class-special characters, characters the engine's escape() prefixes with a backslash (U+005C) although they need none
# outside a class ("-", "~", " ", "#"), and plain characters on both sides of U+005C: an endpoint test made on escaped
# text instead of on code points goes wrong exactly for a pair with one escaped and one plain endpoint around U+005C
SPECIAL = ["[", "\\", "]", "^", "-", "a", "z", "A", "~", " ", "0", "\0", "\n", "\U0001F600", "é"]
QUICK = 11
CI_VALUES = ["k", "K", "s", "é", "ß", "ab", "a.b", "Z9", "\\", "[k"]
STR_VALUES = ["ab", "a.b", "k", "é", ""]


def related_inputs(value: str) -> list[str]:
    """Texts by relation to the literal (docstring)."""
    outs = {value, value.swapcase(), value.upper(), value.lower(), value[:-1], "", value + "x", "x" + value}
    for i, ch in enumerate(value):
        for p in sorted(_unicode_partners(ord(ch)))[:6]:
            outs.add(value[:i] + chr(p) + value[i + 1:])
        outs.add(value[:i] + "#" + value[i + 1:])
    if "ß" in value:
        outs.update({value.replace("ß", "ss"), value.replace("ß", "SS")})
    if "." in value:
        outs.add(value.replace(".", "x"))
    return sorted(outs)


def run_interpreter(cm: ClassModel, node: Obj, text: str, pos: int, where: str) -> tuple:
    state = new_parser_state(cm, text, pos, Obj("Parser", rules={}), where)
    cm.call(state.rule_stack, "push", cm.new("RuleFrame", "outer", 0))
    try:
        res = cm.call(node, "parse", state, [])
    except ModelRaise as err:
        return ("raises", str(err).split(":")[0])
    return (bool(res), state.pos, model_attr(cm, state, "furthest_pos") if not res else None)


def emitted(cm: ClassModel, node: Obj) -> tuple[str, list[tuple[str, str]]]:
    gen = cm.new("Builder", {})
    cm.call(node, "generate", gen, "matched", "pairs")
    return "\n".join(gen.lines), list(gen.rule_constants) + list(gen.module_constants)


def run_generated(cm: ClassModel, src: str, consts: list[tuple[str, str]], text: str, pos: int, where: str) -> tuple:
    state = new_parser_state(cm, text, pos, None, where)
    cm.call(state.rule_stack, "push", cm.new("RuleFrame", "outer", 0))
    env = dict(cm.env)
    env.update({"state": state, "pairs": []})
    ev = Ev(env, where, cm, 50000)
    try:
        for name, expr in consts:
            env[name] = ev.ev(ast.parse(expr, mode="eval").body)
        ev.run(ast.parse(src).body)
    except ModelRaise as err:
        return ("raises", str(err).split(":")[0])
    except SyntaxError as err:
        raise AnalysisError(f"{where}: emitted code does not parse: {err.msg}") from err
    res = env.get("matched")
    return (bool(res), state.pos, model_attr(cm, state, "furthest_pos") if not res else None)


def check_terminals(repo: Repo, where: str, thorough: bool = False) -> tuple[int, list[tuple[str, str, str]]]:
    """[(construct, category, detail)]"""
    cm = gen_program(repo, where)
    bad: list[tuple[str, str, str]] = []
    n = 0
    T = "src/pest/grammar/expressions/terminals.py"

    def compare_den(cls: str, desc: str, pats: list[Obj], want: list[tuple] | None, side: str) -> None:
        for p in pats:
            got = denotation(p.pattern, p.flags if isinstance(p.flags, int) else 0, f"{T}::{cls}")
            if got != want:
                bad.append((f"{T}::{cls}", f"the pattern {side} does not denote the terminal's code points", f"{desc}: `{p.pattern}` (flags {p.flags}) denotes {show(got)}, the definition is {show(want)}"))

    def both(cls: str, args: tuple, desc: str, want_sets: list[tuple] | None, texts: list[str], ref) -> None:  # noqa: ANN001
        nonlocal n
        try:
            node = cm.new(cls, *args)
            src, consts = emitted(cm, node)
        except ModelRaise as err:
            bad.append((f"{T}::{cls}", "constructing or generating the terminal raises", f"{desc}: {err}"))
            return
        ipats = _patterns_of(node)
        env = dict(cm.env)
        ev = Ev(env, where, cm, 20000)
        gpats = []
        for _name, expr in consts:
            v = ev.ev(ast.parse(expr, mode="eval").body)
            if isinstance(v, Obj) and "Pattern" in v.kinds:
                gpats.append(v)
        compare_den(cls, desc, ipats, want_sets, "parse() compiles")
        compare_den(cls, desc, gpats, want_sets, "generate() emits")
        for text in texts:
            for pos, padded in ((0, text), (2, "zz" + text)):
                n += 1
                want_ok, want_len = ref(text)
                want = (True, pos + want_len, None) if want_ok else (False, pos, pos)
                gi, gg = run_interpreter(cm, node, padded, pos, where), run_generated(cm, src, consts, padded, pos, where)
                if gi != gg:
                    bad.append((f"{T}::{cls}", "the siblings disagree: parse() and the emitted code give different results", f"{desc} on {padded!r} at {pos}: parse() gives {gi}, the emitted code {gg}"))
                for side, got in (("parse()", gi), ("the emitted code", gg)):
                    if got != want:
                        cat = "accepts text outside the terminal's definition" if got[0] is True and not want_ok else "rejects text the terminal's definition accepts" if got[0] is False and want_ok else "raises" if got[0] == "raises" else "matches or fails with the wrong position / failure record"
                        bad.append((f"{T}::{cls}", f"{side} {cat}", f"{desc} on {padded!r} at {pos}: {side} gives {got}, the definition {want}"))

    # ---- ranges: every ordered pair of class-special and ordinary characters
    pairs = [(a, b) for a in SPECIAL for b in SPECIAL] if thorough else [(a, b) for a in SPECIAL[:QUICK] for b in SPECIAL[:QUICK]] + [("\0", "\n"), ("a", "\U0001F600"), ("é", "é"), ("z", "a")]
    for a, b in pairs:
        want = None if a > b else [((ord(a), ord(b)),)]
        near = {a, b, chr(max(0, ord(a) - 1)), chr(min(0x10FFFF, ord(b) + 1)), a.swapcase()[:1] or a, ""}
        if a <= b:
            near.add(chr((ord(a) + ord(b)) // 2))
        both("Range", (a, b), f"'{a!r}'..'{b!r}'", want, sorted(near), lambda t, a=a, b=b: (bool(t) and a <= t[0] <= b, 1))
    # ---- case-insensitive literals
    for v in CI_VALUES:
        exp = expected_ci(v)

        def ref_ci(t: str, v: str = v, exp: list = exp) -> tuple[bool, int]:
            ok = len(t) >= len(v) and all(any(lo <= ord(t[i]) <= hi for lo, hi in exp[i]) for i in range(len(v)))
            return ok, len(v)

        both("CIString", (v,), f'^"{v}"', exp, related_inputs(v), ref_ci)
    # ---- plain literals
    for v in STR_VALUES:
        both("String", (v,), f'"{v}"', [((ord(c), ord(c)),) for c in v], related_inputs(v) if v else ["", "x"], lambda t, v=v: (t.startswith(v), len(v)))
    return n, bad
