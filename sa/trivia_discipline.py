"""C10 TRIVIA-DISCIPLINE — a typestate over the scanner's recursive descent.

Every syntactic production of pest's meta-grammar from `grammar_rule` down to
`postfix_operator` is a *normal* rule, so implicit trivia is allowed between any two
adjacent tokens; tokens themselves (identifier, string, character, number, tag) are
atomic and are scanned by one regex / one string loop.  Hence, on every non-error path
of the scanner's syntactic functions, **a token may only be consumed in the state
"trivia has just been skipped"**.  The state machine has two states (S = after
`skip_trivia()` or at a point where the caller guarantees it, C = a token was just
consumed); paths are enumerated over the AST of each function (branches both ways,
loops unrolled twice), calls to sibling functions use summaries computed to a fixpoint.
The dual rule: no `skip_trivia()` inside the compound-atomic documentation comments.
"""

from __future__ import annotations

import ast

from .core import AnalysisError

ATOMIC_CONSUMERS = {"accept_string", "accept_ci_string"}  # scan one atomic literal; require S, leave C
SYNTACTIC = ["scan_grammar_rule", "accept_expression", "accept_term", "accept_terminal", "accept_postfix_op"]


class Summary:
    def __init__(self) -> None:
        self.requires_s = False  # may consume before any skip
        self.exits: set = set()  # {(returned True/False/None, state)}
        self.violations: list = []


class Analyzer:
    def __init__(self, cls: ast.ClassDef, where: str):
        self.where = where
        self.methods = {n.name: n for n in cls.body if isinstance(n, ast.FunctionDef)}
        for need in SYNTACTIC:
            if need not in self.methods:
                raise AnalysisError(f"anchor vanished: {where}::Scanner.{need}")
        self.summaries: dict[str, Summary] = {}
        self.paths = 0

    # events -----------------------------------------------------------------
    def is_skip(self, n: ast.AST) -> bool:
        return isinstance(n, ast.Call) and ast.unparse(n.func) == "self.skip_trivia"

    def consumes(self, n: ast.AST) -> str | None:
        """A direct consumption inside expression ``n`` (not via a sibling call)."""
        for c in ast.walk(n):
            if isinstance(c, ast.Call):
                f = ast.unparse(c.func)
                if f == "self.next":
                    return "next()"
                if f in ("self.scan",):
                    return f"scan({ast.unparse(c.args[0]) if c.args else ''})"
        return None

    def sibling_call(self, n: ast.AST) -> str | None:
        for c in ast.walk(n):
            if isinstance(c, ast.Call) and isinstance(c.func, ast.Attribute) and isinstance(c.func.value, ast.Name) and c.func.value.id == "self":
                if c.func.attr in self.methods and (c.func.attr.startswith("accept_") or c.func.attr.startswith("scan_")) and c.func.attr not in ("scan", "scan_until"):
                    return c.func.attr
        return None

    # analysis ---------------------------------------------------------------
    def analyse(self) -> dict[str, Summary]:
        # optimistic start: nothing required, exits in S
        for name in SYNTACTIC:
            s = Summary()
            s.exits = {(None, "S")}
            self.summaries[name] = s
        for name in ATOMIC_CONSUMERS:
            s = Summary()
            s.requires_s = True
            s.exits = {(True, "C"), (False, "same")}
            self.summaries[name] = s
        for _ in range(6):
            changed = False
            for name in SYNTACTIC:
                new = self.run(name)
                old = self.summaries[name]
                if new.requires_s != old.requires_s or new.exits != old.exits:
                    changed = True
                self.summaries[name] = new
            if not changed:
                break
        return self.summaries

    def run(self, name: str) -> Summary:
        fn = self.methods[name]
        summ = Summary()
        # state: (st, first) where st in {'S','C'} and first = no event seen yet
        # a state function is entered right after the previous one consumed its last token
        entry = ("C", False) if name.startswith("scan_") else ("S", True)
        for st0 in (entry,):
            for rest in self.block(fn.body, [st0], summ, name, depth=0):
                if isinstance(rest[0], str) and rest[0].startswith("#"):
                    continue
                summ.exits.add((None, rest[0]))  # falls off the end
        return summ

    def block(self, stmts: list[ast.stmt], states: list, summ: Summary, fname: str, depth: int) -> list:
        cur = states
        for s in stmts:
            nxt: list = []
            for stt in cur:
                nxt.extend(self.stmt(s, stt, summ, fname, depth))
            cur = list(dict.fromkeys(nxt))
            if not cur:
                break
        return cur

    def consume(self, stt, what: str, summ: Summary, fname: str, node: ast.AST):
        st, first = stt
        if first:
            summ.requires_s = True
        elif st == "C":
            summ.violations.append((fname, what, ast.unparse(node)[:70]))
        return ("C", False)

    def call(self, stt, callee: str, summ: Summary, fname: str, node: ast.AST) -> list:
        st, first = stt
        cs = self.summaries.get(callee)
        if cs is None:
            return [stt]
        if cs.requires_s:
            if first:
                summ.requires_s = True
            elif st == "C":
                summ.violations.append((fname, f"{callee}()", ast.unparse(node)[:70]))
        out = []
        for ret, ex in cs.exits:
            if ex == "same":
                out.append((ret, (st, first)))
            else:
                out.append((ret, (ex, False if (cs.requires_s or ex == "C") else first and ex == "S" and False)))
        return out

    def stmt(self, s: ast.stmt, stt, summ: Summary, fname: str, depth: int) -> list:  # noqa: PLR0911, PLR0912
        self.paths += 1
        if isinstance(s, ast.Return):
            val = None
            if s.value is not None:
                t = ast.unparse(s.value)
                if "self.error(" in t:
                    return []
                if isinstance(s.value, ast.Constant):
                    val = s.value.value
                else:
                    callee = self.sibling_call(s.value)
                    if callee and not isinstance(s.value, ast.Attribute):
                        # `return self.scan_grammar_rule` (a state function reference) is not a call
                        if isinstance(s.value, ast.Call):
                            for _ret, st2 in self.call(stt, callee, summ, fname, s):
                                summ.exits.add((None, st2[0]))
                            return []
            summ.exits.add((val if isinstance(val, bool) else None, stt[0]))
            return []
        if isinstance(s, ast.Expr):
            v = s.value
            if isinstance(v, ast.Constant):
                return [stt]
            if self.is_skip(v):
                return [("S", False if not stt[1] else False)] if True else []
            t = ast.unparse(v)
            if "self.error(" in t:
                return []
            callee = self.sibling_call(v)
            if callee and isinstance(v, ast.Call) and ast.unparse(v.func) == f"self.{callee}":
                return [st2 for _r, st2 in self.call(stt, callee, summ, fname, s)]
            c = self.consumes(v)
            if c:
                return [self.consume(stt, c, summ, fname, s)]
            return [stt]
        if isinstance(s, ast.AugAssign) and ast.unparse(s.target) == "self.pos":
            return [self.consume(stt, "self.pos += ...", summ, fname, s)]
        if isinstance(s, (ast.Assign, ast.AnnAssign)):
            v = s.value
            if v is not None:
                c = self.consumes(v)
                if c:
                    return [self.consume(stt, c, summ, fname, s)]
            return [stt]
        if isinstance(s, ast.If):
            test = s.test
            out: list = []
            callee = self.sibling_call(test)
            if callee:
                # `if self.accept_terminal():` / `if self.accept_string() or self.accept_ci_string():`
                names = [c.func.attr for c in ast.walk(test) if isinstance(c, ast.Call) and isinstance(c.func, ast.Attribute) and c.func.attr in self.summaries]
                cur = [stt]
                for nm in names:
                    nxt = []
                    for st_ in cur:
                        for ret, st2 in self.call(st_, nm, summ, fname, s):
                            if ret is True or ret is None:
                                out.extend(self.block(s.body, [st2], summ, fname, depth))
                            if ret is False or ret is None:
                                nxt.append(st2 if ret is False else st_)
                    cur = nxt
                for st_ in cur:
                    out.extend(self.block(s.orelse, [st_], summ, fname, depth))
                return out
            if any(isinstance(c, ast.Call) and ast.unparse(c.func) == "self.scan" for c in ast.walk(test)):
                c = self.consumes(test) or "scan"
                t_state = self.consume(stt, c, summ, fname, test)
                out.extend(self.block(s.body, [t_state], summ, fname, depth))
                out.extend(self.block(s.orelse, [stt], summ, fname, depth))
                return out
            out.extend(self.block(s.body, [stt], summ, fname, depth))
            out.extend(self.block(s.orelse, [stt], summ, fname, depth))
            return out
        if isinstance(s, ast.While):
            # unroll 0..2 iterations; `break` leaves, `continue` re-enters
            results: list = []
            cur = [stt]
            for _ in range(3):
                nxt: list = []
                for st_ in cur:
                    if not (isinstance(s.test, ast.Constant) and s.test.value is True):
                        results.append(st_)  # condition false
                    body_out = self.loop_body(s.body, st_, summ, fname, depth, results)
                    nxt.extend(body_out)
                cur = list(dict.fromkeys(nxt))
                if not cur:
                    break
            return list(dict.fromkeys(results))
        if isinstance(s, ast.Pass):
            return [stt]
        if isinstance(s, (ast.Break, ast.Continue)):
            return [("#" + type(s).__name__, stt)]  # type: ignore[list-item]
        return [stt]

    def loop_body(self, stmts: list[ast.stmt], stt, summ: Summary, fname: str, depth: int, results: list) -> list:
        cur = [stt]
        cont: list = []
        for s in stmts:
            nxt: list = []
            for st_ in cur:
                for r in self.stmt_in_loop(s, st_, summ, fname, depth):
                    if isinstance(r[0], str) and r[0].startswith("#"):
                        if r[0] == "#Break":
                            results.append(r[1])
                        elif r[0] == "#Continue":
                            cont.append(r[1])
                        else:
                            nxt.append(r[1])
                    else:
                        nxt.append(r)
            cur = list(dict.fromkeys(nxt))
            if not cur:
                break
        return cont + cur

    def stmt_in_loop(self, s: ast.stmt, stt, summ: Summary, fname: str, depth: int) -> list:
        if isinstance(s, ast.If):
            out: list = []
            test = s.test
            if any(isinstance(c, ast.Call) and ast.unparse(c.func) == "self.scan" for c in ast.walk(test)):
                c = self.consumes(test) or "scan"
                t_state = self.consume(stt, c, summ, fname, test)
                out.extend(self._seq_in_loop(s.body, t_state, summ, fname, depth))
                out.extend(self._seq_in_loop(s.orelse, stt, summ, fname, depth))
                return out
            out.extend(self._seq_in_loop(s.body, stt, summ, fname, depth))
            out.extend(self._seq_in_loop(s.orelse, stt, summ, fname, depth))
            return out
        return self.stmt(s, stt, summ, fname, depth)

    def _seq_in_loop(self, stmts: list[ast.stmt], stt, summ: Summary, fname: str, depth: int) -> list:
        cur: list = [stt]
        done: list = []
        for s in stmts:
            nxt: list = []
            for st_ in cur:
                for r in self.stmt_in_loop(s, st_, summ, fname, depth):
                    if isinstance(r[0], str) and r[0].startswith("#"):
                        done.append(r)
                    else:
                        nxt.append(r)
            cur = nxt
            if not cur:
                break
        return done + cur


def check_scanner(cls: ast.ClassDef, where: str) -> tuple[list, dict, int]:
    an = Analyzer(cls, where)
    summ = an.analyse()
    violations = []
    for name in SYNTACTIC:
        for v in summ[name].violations:
            if v not in violations:
                violations.append(v)
    # dual rule: no trivia inside the compound-atomic doc comments
    doc_skips = []
    for name in ("scan_grammar_doc_inner", "scan_rule_doc_inner"):
        fn = an.methods.get(name)
        if fn is None:
            raise AnalysisError(f"anchor vanished: {where}::Scanner.{name}")
        if any(an.is_skip(n) for n in ast.walk(fn)):
            doc_skips.append(name)
    return violations, {k: (v.requires_s, sorted(map(str, v.exits))) for k, v in summ.items()}, an.paths, doc_skips  # type: ignore[return-value]
