"""C18 PRATT (semantic) — PrattParser.parse_expr builds the tree the tables denote.

Every decision of a Pratt loop compares the declared precedence of the operator at hand
with the bound set by at most one enclosing operator (or the initial bound) and, for
infix operators, consults one associativity flag.  A stream with up to three operators
contains every configuration (enclosing, current, next) of operator kinds, and the
outcome of the comparisons depends only on the order type of the precedences involved.
parse_expr is evaluated from its syntax tree (sa/objmodel.py, following helpers) with the
four abstract builders replaced by tuple constructors, for every well-formed stream with
at most three operators over two prefix, one postfix and three infix operators (two
left-, one right-associative), and every assignment of precedences 1..3 in which
operators of different kinds do not tie (the property leaves such ties open); the tree
is compared with the textbook precedence-climbing tree, and the stream must be consumed.
"""

from __future__ import annotations

import itertools

from .core import AnalysisError
from .objmodel import ClassModel
from .ordabs import ModelRaise, Obj
from .repo import Repo

PRE, POST, INF = ("n1", "n2"), ("f1",), ("a", "b", "c")
RIGHT = {"a": False, "b": False, "c": True}


def streams(max_ops: int):
    """Well-formed token streams: expr := prefix* primary postfix* (infix expr)?  with at most max_ops operators."""
    def expr(budget: int, k: int):
        for npre in range(budget + 1):
            for pres in itertools.product(PRE, repeat=npre):
                for npost in range(budget - npre + 1):
                    for posts in itertools.product(POST, repeat=npost):
                        head = list(pres) + [f"x{k}"] + list(posts)
                        left = budget - npre - npost
                        yield head
                        if left >= 1:
                            for i in INF:
                                for rest in expr(left - 1, k + 1):
                                    yield head + [i] + rest
    seen = set()
    for s in expr(max_ops, 0):
        t = tuple(s)
        if t not in seen:
            seen.add(t)
            yield list(s)


def tables(ops: list[str]):
    """Every order type of the precedences of the operators that occur in one stream (values 1..3 suffice for three
    operators); operators of different kinds, and infix operators of different associativity, do not tie."""
    kinds = {**{o: "pre" for o in PRE}, **{o: "post" for o in POST}, **{o: "inf" for o in INF}}
    for vals in itertools.product((1, 2, 3), repeat=len(ops)):
        prec = dict(zip(ops, vals))
        ok = True
        for x, y in itertools.combinations(ops, 2):
            if prec[x] == prec[y] and (kinds[x] != kinds[y] or (kinds[x] == "inf" and RIGHT[x] != RIGHT[y])):
                ok = False
        if ok:
            yield {**{o: 9 for o in PRE + POST + INF}, **prec}


def reference(tokens: list[str], prec: dict[str, int]) -> object:
    pos = 0

    def parse(min_prec: int) -> object:
        nonlocal pos
        t = tokens[pos]
        pos += 1
        if t in PRE:
            left: object = (t, parse(prec[t]))
        else:
            left = ("v", t)
        while pos < len(tokens):
            o = tokens[pos]
            if o in POST:
                if prec[o] < min_prec:
                    break
                pos += 1
                left = (left, o)
            elif o in INF:
                if prec[o] < min_prec:
                    break
                pos += 1
                rhs = parse(prec[o] + (0 if RIGHT[o] else 1))
                left = (left, o, rhs)
            else:
                break
        return left

    tree = parse(0)
    return tree, pos


def check_pratt(repo: Repo, where: str, max_ops: int = 3) -> tuple[int, list[tuple[str, str]]]:
    cm = ClassModel(repo, ["src/pest/pratt.py", "src/pest/pairs.py"], where, max_steps=100000)
    for need in ("PrattParser", "Stream"):
        if need not in cm.classes:
            raise AnalysisError(f"anchor vanished: class {need}")
    bad: list[tuple[str, str]] = []
    n = 0
    for toks in streams(max_ops):
        ops_in = sorted({t for t in toks if t in PRE + POST + INF})
        for prec in tables(ops_in):
            parser = Obj(("PrattParser",))
            parser.__dict__.update(
                PREFIX_OPS={o: prec[o] for o in PRE}, POSTFIX_OPS={o: prec[o] for o in POST}, INFIX_OPS={o: (prec[o], RIGHT[o]) for o in INF},
                LEFT_ASSOC=False, RIGHT_ASSOC=True,
                parse_primary=lambda pair: ("v", pair.name), parse_prefix=lambda op, rhs: (op.name, rhs),
                parse_postfix=lambda lhs, op: (lhs, op.name), parse_infix=lambda lhs, op, rhs: (lhs, op.name, rhs),
            )
            n += 1
            pairs = [Obj("Pair", name=t, children=[], start=i, end=i + 1) for i, t in enumerate(toks)]
            stream = cm.new("Stream", pairs)
            want, want_pos = reference(toks, prec)
            desc = f"{' '.join(toks)}  with " + ", ".join(f"{o}={prec[o]}{'R' if RIGHT.get(o) else ''}" for o in PRE + POST + INF if o in toks)
            try:
                got = cm.call(parser, "parse_expr", stream)
            except ModelRaise as err:
                bad.append(("parse_expr raises on a well-formed stream", f"{desc}: {err}"))
                continue
            if got != want:
                bad.append(("the tree built is not the one the declared precedences and associativities denote", f"{desc}: builds {got}, denoted {want}"))
            elif stream.__dict__.get("pos") != want_pos:
                bad.append(("the stream is not consumed as far as the expression reaches", f"{desc}: stops at {stream.__dict__.get('pos')} of {len(toks)}"))
    return n, bad
