"""C18 PRATT (semantic) — PrattParser.parse_expr builds the tree the tables denote.

Every decision of a Pratt loop compares the declared precedence of the operator at hand
with the bound set by at most one enclosing operator (or the initial bound) and, for
infix operators, consults one associativity flag.  A stream with up to three operators
contains every configuration (enclosing, current, next) of operator kinds, and the
outcome of the comparisons depends only on the order type of the precedences involved.
parse_expr is evaluated from its syntax tree (sa/objmodel.py, following helpers) with the
four abstract builders replaced by tuple constructors, for every well-formed stream with
at most three operators over two prefix, one postfix and three infix operators (two
left-, one right-associative), and every assignment of precedences 1..3 in which
operators of different kinds do not tie (the property leaves such ties open), each
also shifted to lie around and below zero (the loop's initial bound is one more
quantity the declared numbers are compared with: a table is any table of integers); the tree
is compared with the textbook precedence-climbing tree, and the stream must be consumed.
"""

from __future__ import annotations

import ast
import itertools

from .core import AnalysisError
from .objmodel import ClassModel
from .ordabs import ModelRaise, Obj
from .repo import Repo

PRE, POST, INF = ("n1", "n2"), ("f1",), ("a", "b", "c")
RIGHT = {"a": False, "b": False, "c": True}


def streams(max_ops: int, PRE: tuple = PRE, POST: tuple = POST, INF: tuple = INF):  # noqa: N803
    """Well-formed token streams: expr := prefix* primary postfix* (infix expr)?  with at most max_ops operators."""
    def expr(budget: int, k: int):
        for npre in range(budget + 1):
            for pres in itertools.product(PRE, repeat=npre):
                for npost in range(budget - npre + 1):
                    for posts in itertools.product(POST, repeat=npost):
                        head = list(pres) + [f"x{k}"] + list(posts)
                        left = budget - npre - npost
                        yield head
                        if left >= 1:
                            for i in INF:
                                for rest in expr(left - 1, k + 1):
                                    yield head + [i] + rest
    seen = set()
    for s in expr(max_ops, 0):
        t = tuple(s)
        if t not in seen:
            seen.add(t)
            yield list(s)


def tables(ops: list[str]):
    """Every order type of the precedences of the operators that occur in one stream (values 1..3 suffice for three
    operators); operators of different kinds, and infix operators of different associativity, do not tie."""
    kinds = {**{o: "pre" for o in PRE}, **{o: "post" for o in POST}, **{o: "inf" for o in INF}}
    for vals in itertools.product((1, 2, 3), repeat=len(ops)):
        prec = dict(zip(ops, vals))
        ok = True
        for x, y in itertools.combinations(ops, 2):
            if prec[x] == prec[y] and (kinds[x] != kinds[y] or (kinds[x] == "inf" and RIGHT[x] != RIGHT[y])):
                ok = False
        if ok:
            yield {**{o: 9 for o in PRE + POST + INF}, **prec}


def reference(tokens: list[str], prec: dict[str, int], pre: tuple = PRE, post: tuple = POST, inf: tuple = INF, right: dict | None = None) -> object:
    pos = 0
    PRE_, POST_, INF_, RIGHT_ = pre, post, inf, (RIGHT if right is None else right)

    def parse(min_prec: int) -> object:
        nonlocal pos
        t = tokens[pos]
        pos += 1
        if t in PRE_:
            left: object = (t, parse(prec[t]))
        else:
            left = ("v", t)
        while pos < len(tokens):
            o = tokens[pos]
            if o in POST_:
                if prec[o] < min_prec:
                    break
                pos += 1
                left = (left, o)
            elif o in INF_:
                if prec[o] < min_prec:
                    break
                pos += 1
                rhs = parse(prec[o] + (0 if RIGHT_[o] else 1))
                left = (left, o, rhs)
            else:
                break
        return left

    tree = parse(float("-inf"))  # the whole expression: no operator of the table is below the initial bound
    return tree, pos


def check_pratt(repo: Repo, where: str, max_ops: int = 3, shifts: tuple = (0, -2, -4)) -> tuple[int, list[tuple[str, str]]]:
    cm = ClassModel(repo, ["src/pest/pratt.py", "src/pest/pairs.py"], where, max_steps=100000)
    for need in ("PrattParser", "Stream"):
        if need not in cm.classes:
            raise AnalysisError(f"anchor vanished: class {need}")
    bad: list[tuple[str, str]] = []
    n = 0
    serial = itertools.count()

    def declare(prec: dict, base: str = "PrattParser") -> str:
        """A parser class as users write one: a subclass whose operator tables are *class* attributes (a fresh
        class per model point: what one class computed can only reach another through inheritance)."""
        name = f"Model{next(serial)}"
        cm.classes[name] = ast.parse(f"class {name}({base}):\n    pass").body[0]  # type: ignore[assignment]
        cm.class_rel[name] = cm.class_rel.get("PrattParser", cm.rel)
        cm.env[name] = cm._ctor(name)  # noqa: SLF001
        cm.set_class_attr(name, "PREFIX_OPS", {o: prec[o] for o in PRE if o in prec})
        cm.set_class_attr(name, "POSTFIX_OPS", {o: prec[o] for o in POST if o in prec})
        # associativity is declared with the library's own aliases where it has them (PrattParser.LEFT_ASSOC /
        # RIGHT_ASSOC, whatever their values are), with plain booleans for every third class
        aliases = {}
        for flag, alias in ((False, "LEFT_ASSOC"), (True, "RIGHT_ASSOC")):
            v = cm.class_attr("PrattParser", alias)
            aliases[flag] = flag if v is cm._NOATTR or next(serial) % 3 == 0 else v  # noqa: SLF001
        cm.set_class_attr(name, "INFIX_OPS", {o: (prec[o], aliases[RIGHT[o]]) for o in INF if o in prec})
        return name

    def instance(cname: str) -> Obj:
        parser = cm.new(cname)
        parser.__dict__.update(
            parse_primary=lambda pair: ("v", pair.name), parse_prefix=lambda op, rhs: (op.name, rhs),
            parse_postfix=lambda lhs, op: (lhs, op.name), parse_infix=lambda lhs, op, rhs: (lhs, op.name, rhs),
        )
        return parser

    def run(parser: Obj, toks: list[str], prec: dict, note: str = "", empty: tuple = ()) -> None:
        # (a pair may be empty - an operator written by juxtaposition, `juxt = { "" }` - and is a token like any other)
        pairs = [Obj("Pair", name=t, children=[], start=i, end=i if t in empty else i + 1) for i, t in enumerate(toks)]
        stream = cm.new("Stream", pairs)
        want, want_pos = reference(toks, prec)
        desc = f"{' '.join(toks)}  with " + ", ".join(f"{o}={prec[o]}{'R' if RIGHT.get(o) else ''}" for o in PRE + POST + INF if o in toks) + note
        try:
            got = cm.call(parser, "parse_expr", stream)
        except ModelRaise as err:
            bad.append(("parse_expr raises on a well-formed stream", f"{desc}: {err}"))
            return
        if got != want:
            bad.append(("the tree built is not the one the declared precedences and associativities denote" + (" (after another class of the hierarchy has parsed)" if note else ""), f"{desc}: builds {got}, denoted {want}"))
        elif stream.__dict__.get("pos") != want_pos:
            bad.append(("the stream is not consumed as far as the expression reaches", f"{desc}: stops at {stream.__dict__.get('pos')} of {len(toks)}"))

    for toks in streams(max_ops):
        ops_in = sorted({t for t in toks if t in PRE + POST + INF})
        for prec in tables(ops_in):
            # the initial bound of the loop is one more quantity the precedences are compared with: every order type
            # of the declared numbers is placed above it (1..3), around it (-1..1) and below it (-3..-1)
            for shift in shifts:
                full = {o: v + shift for o, v in {**{o: 1 for o in PRE + POST + INF}, **prec}.items()}
                n += 1
                run(instance(declare(full)), toks, full)
    # zero-width tokens: an infix, prefix or postfix operator that matches the empty string, and an empty operand
    for toks, empty in ((["x0", "a", "x1", "b", "x2"], ("a",)), (["x0", "a", "x1", "b", "x2"], ("a", "b")), (["n1", "x0", "a", "x1"], ("n1",)), (["x0", "f1", "a", "x1"], ("f1",)),
                        (["x0", "a", "x1"], ("x1",)), (["x0", "c", "x1", "c", "x2"], ("c", "x0"))):
        for prec in ({"a": 1, "b": 2, "c": 1, "n1": 3, "f1": 3}, {"a": 2, "b": 1, "c": 2, "n1": 1, "f1": 1}):
            full = {**{o: 3 for o in PRE + POST + INF}, **prec}
            n += 1
            run(instance(declare(full)), toks, full, f"; the tokens {list(empty)} are empty pairs", empty)
    # tables are declared per class: a subclass that overrides them is honoured whatever its base class (or another
    # instance) has parsed before, and the base class is not disturbed by the subclass
    hist = [(["x0", "a", "x1", "b", "x2"], {"a": 1, "b": 2}, {"a": 2, "b": 1}), (["n1", "x0", "a", "x1"], {"n1": 1, "a": 2}, {"n1": 2, "a": 1}),
            (["x0", "a", "x1", "f1"], {"a": 1, "f1": 2}, {"a": 2, "f1": 1}), (["x0", "c", "x1", "c", "x2"], {"c": 1}, {"c": 2})]
    for toks, p1, p2 in hist:
        f1, f2 = {**{o: 3 for o in PRE + POST + INF}, **p1}, {**{o: 3 for o in PRE + POST + INF}, **p2}
        base = declare(f1)
        sub = declare(f2, base)
        n += 3
        run(instance(base), toks, f1)
        run(instance(sub), toks, f2, "; declared on a subclass of a class that has just parsed with other tables")
        run(instance(base), toks, f1, "; after a subclass with other tables has parsed")
    return n, bad


CALC_LEVEL = {"add": 1, "sub": 1, "mul": 2, "div": 2, "pow": 3, "neg": 4, "fac": 5}
CALC_RIGHT = {"add": False, "sub": False, "mul": False, "div": False, "pow": True}


def check_calculator(repo: Repo, example_rel: str, cls: str, where: str, max_ops: int = 3) -> tuple[int, list[tuple[str, str]]]:
    """The example's parser class, as declared (its tables are evaluated from its class body: numbers, the library's
    associativity aliases, whatever they are), run through the library's parse_expr on every well-formed stream of up
    to three of its operators: the tree must be the one the calculator's intended order (add, sub < mul, div < pow <
    neg < fac; + - * / left, ^ right) denotes."""
    m = repo.mod(example_rel)
    names = sorted({n.attr for n in ast.walk(m.tree) if isinstance(n, ast.Attribute) and isinstance(n.value, ast.Name) and n.value.id == "Rule"})
    rule_enum = Obj("RuleNames")
    for nm in names:
        rule_enum.__dict__[nm] = nm.lower()
    cm = ClassModel(repo, ["src/pest/pratt.py", "src/pest/pairs.py", example_rel], where, {"Rule": rule_enum, "Generic": None}, max_steps=100000)
    if cls not in cm.classes:
        raise AnalysisError(f"{where}: anchor vanished: class {cls} in {example_rel}")
    pre, post, inf = ("neg",), ("fac",), ("add", "sub", "mul", "div", "pow")
    bad: list[tuple[str, str]] = []
    n = 0
    for toks in streams(max_ops, pre, post, inf):
        n += 1
        parser = cm.new(cls)
        parser.__dict__.update(
            parse_primary=lambda pair: ("v", pair.name), parse_prefix=lambda op, rhs: (op.name, rhs),
            parse_postfix=lambda lhs, op: (lhs, op.name), parse_infix=lambda lhs, op, rhs: (lhs, op.name, rhs),
        )
        pairs = [Obj("Pair", name=t, children=[], start=i, end=i + 1) for i, t in enumerate(toks)]
        stream = cm.new("Stream", pairs)
        want, want_pos = reference(toks, CALC_LEVEL, pre, post, inf, CALC_RIGHT)
        try:
            got = cm.call(parser, "parse_expr", stream)
        except ModelRaise as err:
            bad.append(("the calculator's parser raises on a well-formed stream", f"{' '.join(toks)}: {err}"))
            continue
        if got != want:
            bad.append(("the calculator groups an expression against its intended precedence or associativity", f"{' '.join(toks)}: builds {got}, intended {want}"))
        elif stream.__dict__.get("pos") != want_pos:
            bad.append(("the calculator does not consume the whole expression", f"{' '.join(toks)}: stops at {stream.__dict__.get('pos')} of {len(toks)}"))
    return n, bad
