"""C17 CALC-SEM — the three bundled calculators, as written, compute the same symbolic value.

For every well-formed expression with up to three operators (and a family with parenthesised operands) the text is
read with the checker's reference reading of the calculator's own .pest file (sa/pegref.py, sa/pestlang.py): that
gives the tree of pairs a correct engine hands the example.  The example's tree builder — `CalculatorParser` with
its own `parse_primary` / `parse_prefix` / `parse_postfix` / `parse_infix` through the library's `parse_expr`,
`prec_climber.parse_program`, `grammar_encoded_prec.parse_program` — is then evaluated from its syntax tree on model
`Pair` objects (sa/objmodel.py), and the syntax tree it returns is evaluated by `_ast.py`'s own `evaluate()` with
*symbolic* operators: every name the example imports from `operator` / `math` (and the built-in `pow`) stands for a
constructor of a tagged tuple, variables evaluate to themselves.  The symbolic value records which function is
applied to which operands in which grouping; two implementations that yield the same symbolic value compute the
same number for every assignment of the variables.  It is compared with the value the intended calculator denotes:
add, sub < mul, div < pow < neg < fac, `^` right-associative, the others left; `/` is integer division (floordiv),
`!` is math.factorial.

Nothing of python-pest or of the examples is imported or run; the generated parser modules are consulted only for
their `Rule` enumeration (names to strings, read from the syntax tree).
"""

from __future__ import annotations

import ast
from typing import Any

from .core import AnalysisError
from .objmodel import ClassModel
from .ordabs import ModelRaise, Obj
from .pegref import Node, PegRef
from .pestlang import read_pest
from .prattsem import CALC_LEVEL, CALC_RIGHT, reference, streams
from .repo import Repo

PRE, POST, INF = ("neg",), ("fac",), ("add", "sub", "mul", "div", "pow")
SPELL = {"neg": "-", "fac": "!", "add": "+", "sub": "-", "mul": "*", "div": "/", "pow": "^"}
INTENDED = {"add": "add", "sub": "sub", "mul": "mul", "div": "floordiv", "pow": "pow", "neg": "neg", "fac": "factorial"}
OPERANDS = ("x", "7", "yz", "10", "0")

IMPLEMENTATIONS = (
    # file, how the text reaches the tree builder, the generated parser module it imports, the grammar that module is generated from
    ("examples/calculator/pratt.py", "pratt", "examples/calculator/parser.py", "examples/calculator/calculator.pest"),
    ("examples/calculator/prec_climber.py", "function", "examples/calculator/parser.py", "examples/calculator/calculator.pest"),
    ("examples/calculator/grammar_encoded_prec.py", "function", "examples/calculator/grammar_encoded_prec_parser.py", "examples/calculator/grammar_encoded_prec.pest"),
)


def rule_enum(repo: Repo, rel: str, where: str) -> Obj:
    """`Rule` of a generated parser module: member name -> the string it stands for."""
    for n in repo.mod(rel).tree.body:
        if isinstance(n, ast.ClassDef) and n.name == "Rule":
            o = Obj("RuleNames")
            for s in n.body:
                if isinstance(s, ast.Assign) and isinstance(s.targets[0], ast.Name) and isinstance(s.value, ast.Constant) and isinstance(s.value.value, str):
                    o.__dict__[s.targets[0].id] = s.value.value
            return o
    raise AnalysisError(f"{where}: anchor vanished: class Rule in {rel}")


def symbolic_env(repo: Repo, rel: str) -> dict[str, Any]:
    """Every name imported from operator / math, and the built-in pow, as a constructor of a tagged tuple."""
    env: dict[str, Any] = {"pow": lambda *a: ("pow", *a)}
    for n in repo.mod(rel).tree.body:
        if isinstance(n, ast.ImportFrom) and n.module in ("operator", "math"):
            for a in n.names:
                env[a.asname or a.name] = (lambda name: lambda *args: (name, *args))(a.name)
    return env


def expressions(max_ops: int):
    """(tokens, text renderings): every well-formed stream of up to max_ops operators, operands taken in turn from
    OPERANDS; a second family replaces one operand by a parenthesised expression."""
    for toks in streams(max_ops, PRE, POST, INF):
        yield [t if t in SPELL else OPERANDS[int(t[1:]) % len(OPERANDS)] for t in toks]
    inner = [["x", "add", "7"], ["neg", "x"], ["x", "fac"], ["x", "pow", "7"], ["(", "x", ")"], ["x"]]
    outer = [["P", "mul", "yz"], ["yz", "sub", "P"], ["neg", "P", "fac"], ["P", "pow", "P"], ["yz", "pow", "P", "pow", "0"], ["P"], ["yz", "div", "P", "div", "10"]]
    for o in outer:
        for i in inner:
            out: list[str] = []
            for t in o:
                out.extend(["(", *i, ")"] if t == "P" else [t])
            yield out


def render(toks: list[str], sep: str) -> str:
    return sep.join(SPELL.get(t, t) for t in toks)


def intended(toks: list[str]) -> Any:
    """The symbolic value the intended calculator denotes (parentheses by recursion)."""
    # fold parenthesised groups into operands first
    flat: list[Any] = []
    stack: list[list[Any]] = [flat]
    for t in toks:
        if t == "(":
            stack.append([])
        elif t == ")":
            grp = stack.pop()
            stack[-1].append(("group", grp))
        else:
            stack[-1].append(t)

    def value(seq: list[Any]) -> Any:
        names = [f"#{i}" if not (isinstance(t, str) and t in SPELL) else t for i, t in enumerate(seq)]
        tree, pos = reference(names, CALC_LEVEL, PRE, POST, INF, CALC_RIGHT)
        if pos != len(names):
            raise AnalysisError("calcsem: the reference did not consume its own stream")

        def sym(t: Any) -> Any:
            if t[0] == "v":
                item = seq[int(t[1][1:])]
                if isinstance(item, tuple):
                    return value(item[1])
                return int(item) if item.isdigit() else ("var", item)
            if len(t) == 3:
                return (INTENDED[t[1]], sym(t[0]), sym(t[2]))
            if isinstance(t[0], str) and t[0] in PRE:
                return (INTENDED[t[0]], sym(t[1]))
            return (INTENDED[t[1]], sym(t[0]))

        return sym(tree)

    return value(flat)


class _Vars(dict):
    def __missing__(self, k: str) -> Any:
        return ("var", k)


def check(repo: Repo, where: str, max_ops: int = 3) -> tuple[dict[str, int], list[tuple[str, str, str]]]:
    """Returns ({implementation: points}, [(construct, message, detail)])."""
    bad: list[tuple[str, str, str]] = []
    counts: dict[str, int] = {}
    exprs = list(expressions(max_ops))
    for rel, how, parser_rel, pest_rel in IMPLEMENTATIONS:
        imports = {a.name for n in repo.mod(rel).tree.body if isinstance(n, ast.ImportFrom) and n.module and n.module.endswith(parser_rel.rsplit("/", 1)[1][:-3]) for a in n.names}
        if "parse" not in imports or "Rule" not in imports:
            raise AnalysisError(f"{where}: {rel} no longer takes parse and Rule from {parser_rel}")
        gen_src = repo.read("examples/calculator/generate.py")
        if pest_rel.rsplit("/", 1)[1] not in gen_src or parser_rel.rsplit("/", 1)[1] not in gen_src:
            raise AnalysisError(f"{where}: examples/calculator/generate.py no longer generates {parser_rel} from {pest_rel}")
        ref = PegRef(read_pest(repo.read(pest_rel), pest_rel), pest_rel)
        rules = rule_enum(repo, parser_rel, where)
        env = {"Rule": rules, "Generic": None, "abstractmethod": lambda f: f, **symbolic_env(repo, rel)}
        cm = ClassModel(repo, [rel, "examples/calculator/_ast.py", "src/pest/pratt.py", "src/pest/pairs.py"], f"{where} {rel}", env, max_steps=200000)
        text_now = [""]

        def materialise(n: Node) -> Obj:
            kids = [materialise(c) for c in n.children]
            return cm.new("Pair", text_now[0], n.start, n.end, Obj("Rule", name=n.name), kids if kids else None, None)

        def model_parse(rule: Any, text: str, start_pos: int = 0) -> Obj:
            r = ref.parse(str(rule), text, start_pos)
            if r is None:
                raise ModelRaise("PestParsingError (the reference reading of the grammar rejects the text)")
            text_now[0] = text
            return cm.new("Pairs", [materialise(n) for n in r[1]])

        cm.env["parse"] = model_parse
        n = 0
        for toks in exprs:
            want = intended(toks)
            for sep in (" ", ""):
                text = render(toks, sep)
                n += 1
                try:
                    if how == "pratt":
                        if "CalculatorParser" not in cm.classes:
                            raise AnalysisError(f"{where}: anchor vanished: CalculatorParser in {rel}")
                        tree = cm.call(cm.new("CalculatorParser"), "parse", text)
                    else:
                        if "parse_program" not in cm.functions:
                            raise AnalysisError(f"{where}: anchor vanished: parse_program in {rel}")
                        tree = cm.env["parse_program"](model_parse(rules.__dict__.get("PROGRAM", "program"), text))
                    got = cm.call(tree, "evaluate", _Vars())
                except ModelRaise as err:
                    bad.append((f"{rel}", "the calculator raises on a well-formed expression", f"{text!r}: {err}"))
                    continue
                if got != want:
                    bad.append((f"{rel}", "the calculator computes another value than the intended one (which function is applied to which operands, in which grouping)", f"{text!r}: computes {show(got)}, intended {show(want)}"))
        counts[rel] = n
    return counts, bad


def show(v: Any) -> str:
    if isinstance(v, tuple):
        if v[0] == "var":
            return str(v[1])
        return f"{v[0]}({', '.join(show(x) for x in v[1:])})"
    return repr(v)
