"""E3 — resolved call graph and exception-escape analysis.

For an entry point E and an allowed exception set A, computes which
(exception class, origin site) pairs can escape E, with one call chain each.
Callees are resolved through mypy receiver types (typed.py) with a name-based
fallback; virtual calls fan out to every override; functions whose reference is
taken as a value are treated as callable from the taking function.
"""

from __future__ import annotations

import ast
from dataclasses import dataclass, field

from .core import AnalysisError
from .repo import Repo, qualname_of
from .typed import Types

BUILTIN_EXC_PARENTS = {
    "IndexError": "LookupError", "KeyError": "LookupError", "LookupError": "Exception", "ValueError": "Exception",
    "UnicodeError": "ValueError", "UnicodeEncodeError": "UnicodeError", "UnicodeDecodeError": "UnicodeError",
    "TypeError": "Exception", "AssertionError": "Exception", "RuntimeError": "Exception", "RecursionError": "RuntimeError",
    "NotImplementedError": "RuntimeError", "AttributeError": "Exception", "StopIteration": "Exception",
    "OverflowError": "ArithmeticError", "ZeroDivisionError": "ArithmeticError", "ArithmeticError": "Exception",
    "SyntaxError": "Exception", "OSError": "Exception", "regex.error": "Exception", "Exception": "BaseException",
    "UnboundLocalError": "NameError", "NameError": "Exception",
}


@dataclass(frozen=True)
class Site:
    func: str  # rel::qual
    kind: str  # raise / assert / subscript / call / pop / unpack
    expr: str  # normalised source of the raising construct
    exc: str  # exception class name

    def key(self) -> str:
        return f"{self.func}|{self.kind}|{self.expr}|{self.exc}"


@dataclass
class FuncInfo:
    key: str
    rel: str
    qual: str
    cls: str | None
    node: ast.AST
    sites: list = field(default_factory=list)  # (Site, handlers-at-site)
    calls: list = field(default_factory=list)  # (callee keys, handlers-at-site, call text)


def _func_defs(tree: ast.Module):
    """Yield (qualname, class or None, FunctionDef) for module-level functions and methods."""
    for n in tree.body:
        if isinstance(n, ast.FunctionDef):
            yield n.name, None, n
        elif isinstance(n, ast.ClassDef):
            seen: dict[str, ast.FunctionDef] = {}
            for m in n.body:
                if isinstance(m, ast.FunctionDef):
                    seen[m.name] = m  # last definition wins (overload stubs)
            for name, m in seen.items():
                yield f"{n.name}.{name}", n.name, m


class Escape:
    def __init__(self, repo: Repo, rels: list[str] | None = None):
        self.repo = repo
        self.types = Types(repo)
        self.funcs: dict[str, FuncInfo] = {}
        self.by_class_method: dict[tuple[str, str], str] = {}
        self.mod_funcs: dict[tuple[str, str], str] = {}
        self.exc_parents = dict(BUILTIN_EXC_PARENTS)
        self.rels = rels or repo.py_files
        self.unresolved: list[str] = []
        self.resolved_calls = 0
        self.total_calls = 0
        self._index()
        for f in list(self.funcs.values()):
            self._scan(f)

    # ------------------------------------------------------------------ index
    def _index(self) -> None:
        for rel in self.rels:
            m = self.repo.mod(rel)
            for qual, cls, node in _func_defs(m.tree):
                key = f"{rel}::{qual}"
                self.funcs[key] = FuncInfo(key, rel, qual, cls, node)
                if cls:
                    self.by_class_method[(cls, node.name)] = key
                else:
                    self.mod_funcs[(rel, node.name)] = key
            for cname, c in m.classes().items():
                for b in self.repo.bases(cname):
                    self.exc_parents.setdefault(cname, b)
                for b in c.bases:
                    t = ast.unparse(b)
                    if t in ("Exception", "ValueError", "RuntimeError", "TypeError"):
                        self.exc_parents[cname] = t

    def is_sub(self, exc: str, base: str) -> bool:
        seen = set()
        while exc and exc not in seen:
            if exc == base:
                return True
            seen.add(exc)
            exc = self.exc_parents.get(exc, "BaseException" if exc != "BaseException" else "")
        return base == "BaseException"

    # ------------------------------------------------------------------ method resolution
    def method_keys(self, cls, name: str, virtual: bool = True) -> list[str]:
        out: list[str] = []
        if isinstance(cls, tuple):
            rel, cls = cls
            k0 = f"{rel}::{cls}.{name}"
            if k0 in self.funcs:
                out.append(k0)
                if not virtual:
                    return out
        r = self.repo.resolve_method(cls, name) if not out else None
        if r:
            k = f"{r[0]}::{r[1]}.{name}"
            if k in self.funcs:
                out.append(k)
        if virtual:
            for sub in self.repo.subclasses(cls):
                if sub == cls:
                    continue
                k2 = self.by_class_method.get((sub, name))
                if k2 and k2 not in out:
                    out.append(k2)
        return out

    def _short(self, fullname: str) -> str:
        return fullname.split(".")[-1]

    def _pest_classes(self, names: list[str] | None) -> list:
        out: list = []
        for n in names or []:
            if n.startswith("pest."):
                c = self._short(n)
                modpath = "src/" + n.rsplit(".", 1)[0].replace(".", "/")
                rel = None
                for cand in (modpath + ".py", modpath + "/__init__.py"):
                    if f"{cand}::{c}" in self.repo.class_table:
                        rel = cand
                        break
                if rel is not None:
                    out.append((rel, c))
                elif c in self.repo.class_table:
                    out.append(c)
        return out

    def resolve_name(self, rel: str, name: str) -> tuple[str, str] | None:
        """A bare name -> ('func', key) | ('class', cname)."""
        m = self.repo.mod(rel)
        if name in m.functions():
            return ("func", f"{rel}::{name}")
        if name in m.classes():
            return ("class", (rel, name))
        imp = self.repo.imports(rel).get(name)
        if imp:
            modtxt, orig = imp
            if modtxt.startswith(".") or modtxt.startswith("pest"):
                if orig in self.repo.class_table and "::" not in orig:
                    for cand_rel in self.rels:
                        if _mod_matches(cand_rel, modtxt, rel) and f"{cand_rel}::{orig}" in self.repo.class_table:
                            return ("class", (cand_rel, orig))
                    return ("class", orig)
                for (r2, fn), key in self.mod_funcs.items():
                    if fn == orig and _mod_matches(r2, modtxt, rel):
                        return ("func", key)
                # re-exported through a package __init__
                for (r2, fn), key in self.mod_funcs.items():
                    if fn == orig:
                        return ("func", key)
        return None

    # ------------------------------------------------------------------ scanning one function
    def _scan(self, f: FuncInfo) -> None:  # noqa: PLR0912, PLR0915
        rel = f.rel
        body_nodes = f.node.body if isinstance(f.node, (ast.FunctionDef,)) else []
        ann_skip: set[int] = set()
        for n in ast.walk(f.node):
            if isinstance(n, ast.AnnAssign):
                for t in ast.walk(n.annotation):
                    ann_skip.add(id(t))
            if isinstance(n, ast.arg) and n.annotation is not None:
                for t in ast.walk(n.annotation):
                    ann_skip.add(id(t))
            if isinstance(n, ast.FunctionDef) and n.returns is not None:
                for t in ast.walk(n.returns):
                    ann_skip.add(id(t))

        def visit(stmts: list[ast.stmt], handlers: tuple, guards: tuple) -> None:
            for s in stmts:
                visit_stmt(s, handlers, guards)

        def handler_names(t: ast.Try) -> tuple:
            out = []
            for h in t.handlers:
                if h.type is None:
                    out.append("BaseException")
                elif isinstance(h.type, ast.Tuple):
                    out.extend(ast.unparse(e) for e in h.type.elts)
                else:
                    out.append(ast.unparse(h.type))
            return tuple(out)

        def visit_stmt(s: ast.stmt, handlers: tuple, guards: tuple) -> None:  # noqa: PLR0912
            if isinstance(s, ast.Try):
                visit(s.body, handlers + (handler_names(s),), guards)
                for h in s.handlers:
                    visit(h.body, handlers, guards)
                visit(s.orelse, handlers, guards)
                visit(s.finalbody, handlers, guards)
                return
            if isinstance(s, ast.With):
                extra: tuple = ()
                for item in s.items:
                    c = item.context_expr
                    if isinstance(c, ast.Call) and ast.unparse(c.func) in ("suppress", "contextlib.suppress"):
                        extra += (tuple(ast.unparse(a) for a in c.args),)
                    else:
                        visit_expr(c, handlers, guards)
                visit(s.body, handlers + extra, guards)
                return
            if isinstance(s, ast.If):
                visit_expr(s.test, handlers, guards)
                g_true, g_false = _guards_from_test(s.test)
                visit(s.body, handlers, guards + g_true)
                visit(s.orelse, handlers, guards + g_false)
                # early exit: `if not x: return/raise/break/continue` guards the rest — handled by caller via dominance
                return
            if isinstance(s, ast.While):
                visit_expr(s.test, handlers, guards)
                g_true, _ = _guards_from_test(s.test)
                visit(s.body, handlers, guards + g_true)
                visit(s.orelse, handlers, guards)
                return
            if isinstance(s, ast.For):
                visit_expr(s.iter, handlers, guards)
                visit(s.body, handlers, guards + _guards_from_for(s))
                visit(s.orelse, handlers, guards)
                return
            if isinstance(s, (ast.FunctionDef, ast.ClassDef)):
                if isinstance(s, ast.FunctionDef):
                    visit(s.body, handlers, guards)  # nested helper: attributed to the enclosing function
                return
            if isinstance(s, ast.Raise):
                if s.exc is None:
                    add_site("raise", "re-raise", "re-raise", handlers)
                else:
                    t = s.exc.func if isinstance(s.exc, ast.Call) else s.exc
                    add_site("raise", ast.unparse(t), ast.unparse(t), handlers)
                    visit_expr(s.exc, handlers, guards)
                return
            if isinstance(s, ast.Assert):
                add_site("assert", ast.unparse(s.test), "AssertionError", handlers)
                visit_expr(s.test, handlers, guards)
                return
            if isinstance(s, ast.Match):
                visit_expr(s.subject, handlers, guards)
                for c in s.cases:
                    if c.guard is not None:
                        visit_expr(c.guard, handlers, guards)
                    visit(c.body, handlers, guards)
                return
            # simple statement: visit expressions
            if isinstance(s, ast.Assign) and len(s.targets) == 1 and isinstance(s.targets[0], ast.Tuple):
                ty = self.types.of(rel, s.value)
                n = len(s.targets[0].elts)
                if not (ty and all(t == f"tuple#{n}" for t in ty)) and not isinstance(s.value, ast.Tuple) and not _is_enumerate_like(s.value):
                    add_site("unpack", ast.unparse(s), "ValueError", handlers)
            for child in ast.iter_child_nodes(s):
                if isinstance(child, ast.expr):
                    visit_expr(child, handlers, guards)
            # early-exit guards for the following statements are handled in visit_block_with_dominance

        def add_site(kind: str, expr: str, exc: str, handlers: tuple) -> None:
            f.sites.append((Site(f.key, kind, expr, exc), handlers))

        def visit_expr(e: ast.AST, handlers: tuple, guards: tuple) -> None:
            """Short-circuit aware: ``x[-1] if x else d``, ``a and a[0]``, ``n or s[-1]``."""
            if isinstance(e, ast.IfExp):
                visit_expr(e.test, handlers, guards)
                g_true, g_false = _guards_from_test(e.test)
                visit_expr(e.body, handlers, guards + g_true)
                visit_expr(e.orelse, handlers, guards + g_false)
                return
            if isinstance(e, ast.BoolOp):
                g = guards
                for v in e.values:
                    visit_expr(v, handlers, g)
                    t, fl = _guards_from_test(v)
                    g = g + (t if isinstance(e.op, ast.And) else fl)
                return
            visit_node(e, handlers, guards)
            for c in ast.iter_child_nodes(e):
                if isinstance(c, (ast.expr, ast.comprehension, ast.keyword, ast.FormattedValue)):
                    visit_expr(c, handlers, guards)

        def visit_node(n: ast.AST, handlers: tuple, guards: tuple) -> None:  # noqa: PLR0912, PLR0915
            for n in (n,):
                if id(n) in ann_skip:
                    continue
                if isinstance(n, ast.Subscript) and isinstance(n.ctx, ast.Load) and not isinstance(n.slice, ast.Slice):
                    recv_t = self.types.of(rel, n.value)
                    if recv_t and all(t.startswith("type:") or t == "callable" for t in recv_t):
                        continue  # generic alias (Stack[str]) — not an element access
                    if recv_t is None and isinstance(n.value, ast.Name) and n.value.id[:1].isupper():
                        continue
                    text = ast.unparse(n)
                    base = ast.unparse(n.value)
                    idx = n.slice
                    if _guarded_subscript(base, idx, guards, recv_t):
                        continue
                    pest = self._pest_classes(recv_t)
                    if pest:
                        for c in pest:
                            keys = self.method_keys(c, "__getitem__")
                            if keys:
                                f.calls.append((keys, handlers, text))
                        continue
                    is_dict = bool(recv_t) and any(t in ("builtins.dict", "typing.Mapping", "typing.MutableMapping", "collections.abc.Mapping") or "dict" in t.lower() or "Mapping" in t for t in recv_t)
                    exc = "KeyError" if is_dict else "IndexError"
                    if recv_t and all(t.startswith("tuple#") for t in recv_t) and isinstance(idx, ast.Constant) and isinstance(idx.value, int):
                        if all(-int(t[6:]) <= idx.value < int(t[6:]) for t in recv_t):
                            continue
                    if recv_t and any(t == "regex.regex.Match" or t.endswith(".Match") for t in recv_t):
                        continue  # match[0] always exists
                    add_site("subscript", text, exc, handlers)
                elif isinstance(n, ast.Call):
                    self.total_calls += 1
                    self._call(f, n, handlers, guards, add_site)
                elif isinstance(n, ast.Attribute) and isinstance(n.ctx, ast.Load):
                    # property access
                    recv_t = self.types.of(rel, n.value)
                    classes = self._pest_classes(recv_t)
                    if isinstance(n.value, ast.Name) and n.value.id == "self" and f.cls:
                        classes = [(f.rel, f.cls)]
                    for c in classes:
                        r = self.repo.resolve_method(c[1] if isinstance(c, tuple) else c, n.attr)
                        if r and any(isinstance(d, ast.Name) and d.id == "property" for d in r[2].decorator_list):
                            f.calls.append((self.method_keys(c, n.attr), handlers, ast.unparse(n)))
                elif isinstance(n, ast.JoinedStr):
                    for v in n.values:
                        if isinstance(v, ast.FormattedValue):
                            self._str_call(f, v.value, handlers, "__repr__" if v.conversion == ord("r") else "__str__")
                elif isinstance(n, (ast.BinOp, ast.Compare)):
                    left = n.left
                    lt = self._pest_classes(self.types.of(rel, left))
                    ops = [n.op] if isinstance(n, ast.BinOp) else n.ops
                    for c in lt:
                        for op in ops:
                            d = _DUNDER.get(type(op))
                            if d:
                                keys = self.method_keys(c, d)
                                if keys:
                                    f.calls.append((keys, handlers, ast.unparse(n)))
                    if isinstance(n, ast.BinOp) and isinstance(n.op, (ast.Div, ast.FloorDiv, ast.Mod)):
                        rt = self.types.of(rel, n.right)
                        lt2 = self.types.of(rel, n.left)
                        if lt2 and "builtins.str" in lt2:
                            continue  # string formatting
                        if not (isinstance(n.right, ast.Constant) and n.right.value):
                            add_site("call", ast.unparse(n), "ZeroDivisionError", handlers)

        # early-exit dominance: `if not x: return` makes x truthy afterwards
        def visit_block(stmts: list[ast.stmt], handlers: tuple, guards: tuple) -> None:
            g = guards
            for s in stmts:
                visit_stmt_dom(s, handlers, g)
                if isinstance(s, ast.If) and _always_exits(s.body) and not s.orelse:
                    _, g_false = _guards_from_test(s.test)
                    g = g + g_false
                if isinstance(s, ast.Assert):
                    g_true, _ = _guards_from_test(s.test)
                    g = g + g_true

        def visit_stmt_dom(s: ast.stmt, handlers: tuple, guards: tuple) -> None:
            visit_stmt(s, handlers, guards)

        # patch visit to use dominance-aware block walking
        def visit(stmts: list[ast.stmt], handlers: tuple, guards: tuple) -> None:  # noqa: F811
            visit_block(stmts, handlers, guards)

        visit(body_nodes, (), ())

    def _str_call(self, f: FuncInfo, arg: ast.AST, handlers: tuple, dunder: str) -> None:
        t = self.types.of(f.rel, arg)
        classes = self._pest_classes(t)
        if isinstance(arg, ast.Name) and arg.id == "self" and f.cls:
            classes = [(f.rel, f.cls)]
        for c in classes:
            keys = self.method_keys(c, dunder)
            if keys:
                f.calls.append((keys, handlers, f"{dunder}({ast.unparse(arg)})"))

    def _call(self, f: FuncInfo, n: ast.Call, handlers: tuple, guards: tuple, add_site) -> None:  # noqa: PLR0912, PLR0915
        rel = f.rel
        fn = n.func
        text = ast.unparse(n)[:70]
        if isinstance(fn, ast.Name):
            name = fn.id
            if name in ("str", "repr", "format") and n.args:
                self._str_call(f, n.args[0], handlers, "__repr__" if name == "repr" else "__str__")
                self.resolved_calls += 1
                return
            if name == "len" and n.args:
                for c in self._pest_classes(self.types.of(rel, n.args[0])):
                    f.calls.append((self.method_keys(c, "__len__"), handlers, text))
                self.resolved_calls += 1
                return
            if name in _INTRINSIC_RAISES:
                exc, pred = _INTRINSIC_RAISES[name]
                if pred(self, f, n, guards):
                    add_site("call", _norm_call(n), exc, handlers)
                self.resolved_calls += 1
                return
            if name == "super":
                self.resolved_calls += 1
                return
            if name == "cls" and f.cls:
                keys = self.method_keys((f.rel, f.cls), "__init__", virtual=False)
                if keys:
                    f.calls.append((keys, handlers, text))
                self.resolved_calls += 1
                return
            r = self.resolve_name(rel, name)
            if r:
                self.resolved_calls += 1
                if r[0] == "func":
                    f.calls.append(([r[1]], handlers, text))
                else:
                    keys = self.method_keys(r[1], "__init__", virtual=False)
                    if keys:
                        f.calls.append((keys, handlers, text))
                return
            # a local callable value / parameter / builtin
            self.resolved_calls += 1
            return
        if isinstance(fn, ast.Attribute):
            recv = fn.value
            meth = fn.attr
            # super().m()
            if isinstance(recv, ast.Call) and isinstance(recv.func, ast.Name) and recv.func.id == "super" and f.cls:
                for b in self.repo.mro(f.cls)[1:]:
                    k = self.by_class_method.get((b, meth))
                    if k:
                        f.calls.append(([k], handlers, text))
                        break
                self.resolved_calls += 1
                return
            if isinstance(recv, ast.Name) and recv.id in ("re", "json", "itertools", "os", "sys"):
                full = f"{recv.id}.{meth}"
                if full in _INTRINSIC_RAISES:
                    exc, pred = _INTRINSIC_RAISES[full]
                    if pred(self, f, n, guards):
                        add_site("call", _norm_call(n), exc, handlers)
                self.resolved_calls += 1
                return
            recv_t = self.types.of(rel, recv)
            classes = self._pest_classes(recv_t)
            if isinstance(recv, ast.Name) and recv.id in ("self", "cls") and f.cls:
                classes = [(f.rel, f.cls)]
            if not classes and recv_t and any(t.startswith("type:pest.") for t in recv_t):
                classes = self._pest_classes([t[5:] for t in recv_t if t.startswith("type:pest.")])
            if classes:
                self.resolved_calls += 1
                any_key = False
                for c in classes:
                    keys = self.method_keys(c, meth)
                    if keys:
                        any_key = True
                        f.calls.append((keys, handlers, text))
                if not any_key:
                    # attribute holding a callable (step.func, step.predicate) — see address-taken roots
                    pass
                return
            # builtin container / str methods
            if recv_t:
                self.resolved_calls += 1
                base = ast.unparse(recv)
                if meth == "pop" and any("list" in t for t in recv_t) and not n.args:
                    if not _truthy_guard(base, guards):
                        add_site("pop", f"{base}.pop()", "IndexError", handlers)
                elif meth in ("index", "remove") and any("list" in t or "str" in t for t in recv_t):
                    add_site("call", _norm_call(n), "ValueError", handlers)
                elif meth == "encode" and any("str" in t for t in recv_t) and not n.args:
                    add_site("call", _norm_call(n), "UnicodeEncodeError", handlers)
                elif meth == "pop" and any("dict" in t for t in recv_t) and len(n.args) == 1:
                    add_site("call", _norm_call(n), "KeyError", handlers)
                return
            if self.types.available:
                self.unresolved.append(f"{f.key}: {text}")
            else:
                self.resolved_calls += 1
            return
        self.resolved_calls += 1

    # ------------------------------------------------------------------ address-taken functions
    def address_taken(self, f: FuncInfo) -> list[str]:
        """Functions referenced as values (not called) in f: bound methods ``self.m``,
        module functions passed as arguments or stored in tables."""
        out: list[str] = []
        called = {id(c.func) for c in ast.walk(f.node) if isinstance(c, ast.Call)}
        for n in ast.walk(f.node):
            if id(n) in called:
                continue
            if isinstance(n, ast.Attribute) and isinstance(n.ctx, ast.Load) and isinstance(n.value, ast.Name) and n.value.id == "self" and f.cls:
                r = self.repo.resolve_method(f.cls, n.attr)
                if r and not any(isinstance(d, ast.Name) and d.id == "property" for d in r[2].decorator_list):
                    out.extend(self.method_keys(f.cls, n.attr))
            elif isinstance(n, ast.Name) and isinstance(n.ctx, ast.Load):
                r2 = self.resolve_name(f.rel, n.id)
                if r2 and r2[0] == "func":
                    out.append(r2[1])
        return out

    def module_level_callables(self, rel: str) -> list[str]:
        """Functions referenced at module level of ``rel`` (pass tables)."""
        out = []
        m = self.repo.mod(rel)
        for st in m.tree.body:
            if isinstance(st, (ast.FunctionDef, ast.ClassDef, ast.Import, ast.ImportFrom)):
                continue
            for n in ast.walk(st):
                if isinstance(n, ast.Name) and isinstance(n.ctx, ast.Load):
                    r = self.resolve_name(rel, n.id)
                    if r and r[0] == "func":
                        out.append(r[1])
        return out

    # ------------------------------------------------------------------ propagation
    def escapes(self, entry: str, extra_roots: list[str] | None = None, recursion: bool = False, roots_at: str | None = None) -> tuple[dict, set]:
        """Returns ({Site: chain(list of func keys)}, reachable function keys).

        With ``recursion`` every reachable function that lies on a call-graph cycle gets a
        synthetic RecursionError site: its depth is driven by the input (nesting, rule
        references), so the exception can be raised there for some input.
        """
        if entry not in self.funcs:
            raise AnalysisError(f"anchor vanished: entry point {entry}")
        # reachable set with address-taken closure
        reach: dict[str, str | None] = {entry: None}
        work = [entry]
        edges: dict[str, list] = {}
        while work:
            k = work.pop()
            f = self.funcs[k]
            outs = []
            for keys, handlers, text in f.calls:
                for c in keys:
                    outs.append((c, handlers))
            for c in self.address_taken(f):
                outs.append((c, ()))
            edges[k] = outs
            for c, _ in outs:
                if c in self.funcs and c not in reach:
                    reach[c] = k
                    work.append(c)
        attach = entry
        if roots_at is not None:
            # the dynamically called roots (optimizer passes) are invoked from this function
            if roots_at not in reach:
                raise AnalysisError(f"anchor vanished: {roots_at} is not reachable from {entry}")
            attach = roots_at
        for r in extra_roots or []:
            if r in self.funcs and r not in reach:
                reach[r] = attach
                work.append(r)
                edges.setdefault(attach, []).append((r, ()))
                while work:
                    k = work.pop()
                    f = self.funcs[k]
                    outs = [(c, h) for keys, h, _ in f.calls for c in keys] + [(c, ()) for c in self.address_taken(f)]
                    edges[k] = outs
                    for c, _ in outs:
                        if c in self.funcs and c not in reach:
                            reach[c] = k
                            work.append(c)
        # fixpoint: esc[f] = set of Sites
        esc: dict[str, dict] = {k: {} for k in reach}
        for k in reach:
            for site, handlers in self.funcs[k].sites:
                if not self._handled(site.exc, handlers):
                    esc[k][site] = [k]
        self.recursive_funcs: set[str] = set()
        if recursion:
            self.recursive_funcs = _on_cycle({k: [c for c, _ in edges.get(k, []) if c in reach] for k in reach})
            for k in sorted(self.recursive_funcs):
                esc[k][Site(k, "recursion", "<call-graph cycle>", "RecursionError")] = [k]
        changed = True
        while changed:
            changed = False
            for k in reach:
                for c, handlers in edges.get(k, []):
                    if c not in esc:
                        continue
                    for site, chain in list(esc[c].items()):
                        if site in esc[k]:
                            continue
                        if self._handled(site.exc, handlers):
                            continue
                        esc[k][site] = [k] + chain
                        changed = True
        return esc[entry], set(reach)

    def _handled(self, exc: str, handlers: tuple) -> bool:
        if exc == "re-raise":
            return False
        for hs in handlers:
            for h in hs:
                if self.is_sub(exc, h):
                    return True
        return False


# ----------------------------------------------------------------------------- helpers
_DUNDER = {
    ast.Add: "__add__", ast.Sub: "__sub__", ast.Mult: "__mul__", ast.Gt: "__gt__", ast.Lt: "__lt__", ast.GtE: "__ge__",
    ast.LtE: "__le__", ast.Eq: "__eq__", ast.NotEq: "__ne__", ast.FloorDiv: "__floordiv__", ast.Mod: "__mod__",
}


def _on_cycle(graph: dict[str, list[str]]) -> set[str]:
    """Nodes of non-trivial strongly connected components (or with a self edge); iterative Tarjan."""
    index: dict[str, int] = {}
    low: dict[str, int] = {}
    on: set[str] = set()
    stack: list[str] = []
    out: set[str] = set()
    counter = 0
    for root in graph:
        if root in index:
            continue
        work = [(root, iter(graph.get(root, [])))]
        index[root] = low[root] = counter
        counter += 1
        stack.append(root)
        on.add(root)
        while work:
            v, it = work[-1]
            advanced = False
            for w in it:
                if w not in index:
                    index[w] = low[w] = counter
                    counter += 1
                    stack.append(w)
                    on.add(w)
                    work.append((w, iter(graph.get(w, []))))
                    advanced = True
                    break
                if w in on:
                    low[v] = min(low[v], index[w])
            if advanced:
                continue
            work.pop()
            if work:
                u = work[-1][0]
                low[u] = min(low[u], low[v])
            if low[v] == index[v]:
                comp = []
                while True:
                    w = stack.pop()
                    on.discard(w)
                    comp.append(w)
                    if w == v:
                        break
                if len(comp) > 1 or v in graph.get(v, []):
                    out.update(comp)
    return out


def _walk_no_lambda_defs(e: ast.AST):
    stack = [e]
    while stack:
        n = stack.pop()
        yield n
        stack.extend(ast.iter_child_nodes(n))


def _mod_matches(rel: str, modtxt: str, from_rel: str) -> bool:
    tail = modtxt.lstrip(".").replace(".", "/")
    if tail.startswith("pest/"):
        tail = tail[5:]
    return rel.endswith(tail + ".py") or rel.endswith(tail + "/__init__.py")


def _norm_call(n: ast.Call) -> str:
    return ast.unparse(n)[:80]


def _always_exits(stmts: list[ast.stmt]) -> bool:
    if not stmts:
        return False
    last = stmts[-1]
    if isinstance(last, (ast.Return, ast.Raise, ast.Continue, ast.Break)):
        return True
    if isinstance(last, ast.Expr) and isinstance(last.value, ast.Call):
        # self.error(...) -> Never
        t = ast.unparse(last.value.func)
        if t.endswith(".error"):
            return True
    if isinstance(last, ast.If) and last.orelse:
        return _always_exits(last.body) and _always_exits(last.orelse)
    return False


def _guards_from_test(test: ast.AST) -> tuple[tuple, tuple]:
    """(facts when true, facts when false).  Facts: ('truthy', text), ('lt', idx, seq),
    ('in', key, dict)."""
    if isinstance(test, ast.UnaryOp) and isinstance(test.op, ast.Not):
        t, f = _guards_from_test(test.operand)
        return f, t
    if isinstance(test, ast.BoolOp) and isinstance(test.op, ast.And):
        t: tuple = ()
        for v in test.values:
            t += _guards_from_test(v)[0]
        return t, ()
    if isinstance(test, ast.BoolOp) and isinstance(test.op, ast.Or):
        f: tuple = ()
        for v in test.values:
            f += _guards_from_test(v)[1]
        return (), f
    if isinstance(test, ast.Compare) and len(test.ops) == 2:
        # 0 <= i < len(x)
        a, b, c = test.left, test.comparators[0], test.comparators[1]
        if isinstance(test.ops[0], ast.LtE) and isinstance(a, ast.Constant) and a.value == 0 and isinstance(test.ops[1], ast.Lt) and isinstance(c, ast.Call) and isinstance(c.func, ast.Name) and c.func.id == "len" and c.args:
            return (("ge0", ast.unparse(b)), ("lt", ast.unparse(b), ast.unparse(c.args[0]))), ()
    if isinstance(test, ast.Compare) and len(test.ops) == 1:
        l, op, r = test.left, test.ops[0], test.comparators[0]
        if isinstance(op, ast.Lt) and isinstance(r, ast.Call) and isinstance(r.func, ast.Name) and r.func.id == "len" and r.args:
            return (("lt", ast.unparse(l), ast.unparse(r.args[0])),), ()
        if isinstance(op, ast.GtE) and isinstance(r, ast.Constant) and r.value == 0:
            return (("ge0", ast.unparse(l)),), ()
        if isinstance(op, ast.LtE) and isinstance(l, ast.Constant) and l.value == 0:
            return (("ge0", ast.unparse(r)),), ()
        if isinstance(op, ast.Lt) and isinstance(r, ast.Constant) and r.value == 0:
            return (), (("ge0", ast.unparse(l)),)
        if isinstance(op, ast.Gt) and isinstance(l, ast.Call) and isinstance(l.func, ast.Name) and l.func.id == "len" and l.args:
            if isinstance(r, ast.Constant) and isinstance(r.value, int) and r.value >= 0:
                return (("truthy", ast.unparse(l.args[0])),), ()
            return (("lt", ast.unparse(r), ast.unparse(l.args[0])),), ()
        if isinstance(op, ast.Gt) and isinstance(r, ast.Constant) and r.value == 0 and isinstance(l, ast.Name):
            return (("gt0", l.id), ("truthy", l.id)), (("le", l.id, 0),)
        if isinstance(op, ast.Lt) and isinstance(r, ast.BinOp) and isinstance(r.op, ast.Sub) and isinstance(r.right, ast.Constant) and r.right.value == 1 and isinstance(r.left, ast.Call) and ast.unparse(r.left.func) == "len" and r.left.args:
            return (("ltm1", ast.unparse(l), ast.unparse(r.left.args[0])),), ()
        if isinstance(op, ast.Gt) and isinstance(r, ast.Constant) and isinstance(r.value, int):
            return (), (("le", ast.unparse(l), r.value),)
        if isinstance(op, ast.LtE) and isinstance(r, ast.Constant) and isinstance(r.value, int):
            return (("le", ast.unparse(l), r.value),), ()
        if isinstance(op, ast.In):
            return (("in", ast.unparse(l), ast.unparse(r)),), ()
        if isinstance(op, ast.NotIn):
            return (), (("in", ast.unparse(l), ast.unparse(r)),)
        if isinstance(op, (ast.IsNot, ast.NotEq)) and isinstance(r, ast.Constant) and r.value is None:
            return (("truthy", ast.unparse(l)),), ()
        if isinstance(op, ast.Eq) and isinstance(r, ast.Call) and isinstance(r.func, ast.Name) and r.func.id == "len":
            return (), ()
        return (), ()
    if isinstance(test, ast.NamedExpr):
        return (("truthy", test.target.id),), ()
    if isinstance(test, ast.Call) and isinstance(test.func, ast.Attribute) and test.func.attr == "empty":
        return (), (("truthy", ast.unparse(test.func.value)),)
    return (("truthy", ast.unparse(test)),), ()


def _guards_from_for(s: ast.For) -> tuple:
    # for i, x in enumerate(seq): seq[i] is in range ; for i in range(len(seq))
    it = s.iter
    out: tuple = ()
    if isinstance(it, ast.Call) and isinstance(it.func, ast.Attribute) and it.func.attr == "items" and isinstance(s.target, ast.Tuple) and isinstance(s.target.elts[0], ast.Name):
        out += (("in", s.target.elts[0].id, ast.unparse(it.func.value)),)
    if isinstance(it, ast.Call) and isinstance(it.func, ast.Attribute) and it.func.attr == "keys" and isinstance(s.target, ast.Name):
        out += (("in", s.target.id, ast.unparse(it.func.value)),)
    if isinstance(it, ast.Call) and isinstance(it.func, ast.Name):
        if it.func.id == "enumerate" and it.args and isinstance(s.target, ast.Tuple) and isinstance(s.target.elts[0], ast.Name):
            out += (("lt", s.target.elts[0].id, ast.unparse(it.args[0])), ("truthy", ast.unparse(it.args[0])))
        if it.func.id == "range" and it.args and isinstance(s.target, ast.Name):
            last = it.args[-1] if len(it.args) <= 2 else it.args[1]
            if isinstance(last, ast.Call) and isinstance(last.func, ast.Name) and last.func.id == "len" and last.args:
                out += (("lt", s.target.id, ast.unparse(last.args[0])),)
    return out


def _truthy_guard(base: str, guards: tuple) -> bool:
    return any(g[0] == "truthy" and g[1] == base for g in guards)


def _guarded_subscript(base: str, idx: ast.AST, guards: tuple, recv_t: list[str] | None) -> bool:
    it = ast.unparse(idx)
    for g in guards:
        if g[0] == "lt" and g[1] == it and g[2] == base:
            # an upper bound alone does not protect a negative index (x[-1] of an empty x raises):
            # the index must also be known to be non-negative
            if _nonneg_index(idx, guards):
                return True
        if g[0] == "in" and g[1] == it and g[2] == base:
            return True
    if isinstance(idx, ast.Constant) and idx.value in (0, -1) and _truthy_guard(base, guards):
        return True
    if isinstance(idx, ast.BinOp) and isinstance(idx.right, ast.Constant) and idx.right.value == 1 and isinstance(idx.left, ast.Name):
        if isinstance(idx.op, ast.Sub) and any(g[0] == "gt0" and g[1] == idx.left.id for g in guards):
            return True  # x[i - 1] under i > 0 (i itself is a valid index: see the site x[i])
        if isinstance(idx.op, ast.Add) and any(g[0] == "ltm1" and g[1] == idx.left.id and g[2] == base for g in guards):
            return True  # x[i + 1] under i < len(x) - 1
    if isinstance(idx, ast.UnaryOp) and isinstance(idx.op, ast.USub) and isinstance(idx.operand, ast.Constant) and idx.operand.value == 1 and _truthy_guard(base, guards):
        return True
    return False


NONNEG_NAMES = ("self.pos", "state.pos", "self.start", "i", "j", "k", "index", "idx", "n")


def _nonneg_index(idx: ast.AST, guards: tuple) -> bool:
    """Is the index expression known not to be negative?  Scanner / state cursors and loop counters are (they start
    at 0 and only grow); anything else needs an explicit lower-bound test on the path."""
    it = ast.unparse(idx)
    if isinstance(idx, ast.Constant) and isinstance(idx.value, int):
        return idx.value >= 0
    if it in NONNEG_NAMES:
        return True
    if isinstance(idx, ast.BinOp) and isinstance(idx.op, ast.Add) and _nonneg_index(idx.left, guards) and _nonneg_index(idx.right, guards):
        return True
    if isinstance(idx, ast.Call) and isinstance(idx.func, ast.Name) and idx.func.id == "len":
        return True
    return any(g[0] == "ge0" and g[1] == it for g in guards)


def _is_enumerate_like(v: ast.AST) -> bool:
    return False


def _p_int(esc: Escape, f: FuncInfo, n: ast.Call, guards: tuple) -> bool:
    if not n.args:
        return False
    t = esc.types.of(f.rel, n.args[0])
    if t and all(x in ("builtins.int", "builtins.bool", "builtins.float") or (x.startswith("pest.") and esc.repo.resolve_method(x.split(".")[-1], "__int__")) for x in t):
        return False
    if isinstance(n.args[0], ast.Constant):
        return False
    return True


def _p_always(esc: Escape, f: FuncInfo, n: ast.Call, guards: tuple) -> bool:
    return bool(n.args) and not isinstance(n.args[0], ast.Constant)


def _p_chr(esc: Escape, f: FuncInfo, n: ast.Call, guards: tuple) -> bool:
    if not n.args or isinstance(n.args[0], ast.Constant):
        return False
    a = ast.unparse(n.args[0])
    if any(g[0] == "le" and g[1] == a and g[2] <= 0x10FFFF for g in guards):
        return False
    return True


def _p_compile(esc: Escape, f: FuncInfo, n: ast.Call, guards: tuple) -> bool:
    if not n.args or isinstance(n.args[0], ast.Constant):
        return False
    a = n.args[0]
    if isinstance(a, ast.Call) and ast.unparse(a.func) == "re.escape":
        return False  # an escaped literal always compiles
    return True


def _p_maxmin(esc: Escape, f: FuncInfo, n: ast.Call, guards: tuple) -> bool:
    if len(n.args) != 1 or any(k.arg == "default" for k in n.keywords):
        return False
    a = n.args[0]
    base = ast.unparse(a)
    if _truthy_guard(base, guards):
        return False
    return True


def _p_next(esc: Escape, f: FuncInfo, n: ast.Call, guards: tuple) -> bool:
    return len(n.args) == 1


_INTRINSIC_RAISES = {
    "int": ("ValueError", _p_int),
    "chr": ("ValueError", _p_chr),
    "ord": ("TypeError", _p_always),
    "re.compile": ("regex.error", _p_compile),
    "max": ("ValueError", _p_maxmin),
    "min": ("ValueError", _p_maxmin),
    "next": ("StopIteration", _p_next),
}
