"""Order-abstraction evaluator: deciding small pure fragments over a finite model.

Some clauses are about code that touches its inputs only through comparisons, min/max,
+-1, None-tests and (for characters) case mapping and taking a prefix: an interval
test, a range-merging loop, an earliest-hit fold.  For such a fragment the result is a
function of the *order type* of the few quantities involved (which are equal, which
adjacent, which is None/-1/0), not of their magnitudes, so the finitely many order
types over a small grid are a complete abstraction: every concrete input has a
counterpart in the grid with the same order type and hence the same outcome.  The
evaluator below computes the fragment's abstract transfer function on every point of
that grid, straight from the fragment's syntax tree in /repo's current source, and the
caller compares it with the specification (set union, closed interval, minimum).

This is abstract interpretation over a finite domain, not a test run: nothing of the
repository is imported or executed, the environment (e.g. what `str.find` returns) is
itself abstract, and the only statements interpreted are those of the fragment.  The
supported syntax is deliberately small; anything else raises `Unsupported`, which the
checks report as ANALYSIS-ERROR (exit 2), never as a pass.
"""

from __future__ import annotations

import ast
import builtins
import operator
from typing import Any, Callable

from .core import AnalysisError


class Unsupported(AnalysisError):
    pass


class _Lit(ast.expr):
    """A syntax-tree leaf that stands for an already evaluated value (getattr(obj, "name") -> obj.name)."""

    _fields = ()

    def __init__(self, value: Any):
        super().__init__()
        self.value_ = value


class PureModule:
    """`import operator`: the module's pure functions on plain values (a model object as an operand is refused - its
    dunder methods would not be consulted)."""

    SAFE = {"operator": ("eq", "ne", "lt", "le", "gt", "ge", "add", "sub", "mul", "floordiv", "mod", "neg", "pos", "not_", "and_", "or_", "xor", "is_", "is_not", "truth", "index", "contains", "getitem")}

    def __init__(self, name: str):
        self.name = name

    def get(self, attr: str, ev: Any = None, node: Any = None) -> Any:
        import importlib

        if attr not in self.SAFE.get(self.name, ()):
            if ev is not None:
                raise ev.bad(node, f"{self.name}.{attr} is not modelled")
            raise Unsupported(f"{self.name}.{attr} is not modelled")
        f = getattr(importlib.import_module(self.name), attr)

        def call(*args: Any) -> Any:
            if any(isinstance(a, Obj) for a in args):
                raise Unsupported(f"{self.name}.{attr} applied to a model object")
            try:
                return f(*args)
            except (TypeError, ValueError, ZeroDivisionError, IndexError, KeyError) as err:
                raise ModelRaise(type(err).__name__) from err

        return call


class Obj:
    """A model object: a kind (for isinstance) and attributes."""

    def __init__(self, kind: str | tuple[str, ...], **attrs: Any):
        self.kinds = (kind,) if isinstance(kind, str) else tuple(kind)
        self.__dict__.update(attrs)

    def __repr__(self) -> str:
        return f"<{self.kinds[0]} {' '.join(f'{k}={v!r}' for k, v in self.__dict__.items() if k != 'kinds')}>"


class Sym:
    """An opaque named constant (enum member, class object)."""

    def __init__(self, name: str):
        self.name = name

    def __eq__(self, other: object) -> bool:
        return isinstance(other, Sym) and other.name == self.name

    def __hash__(self) -> int:
        return hash(("Sym", self.name))

    def __repr__(self) -> str:
        return self.name


EXC_PARENTS = {"IndexError": "LookupError", "KeyError": "LookupError", "UnicodeError": "ValueError", "RecursionError": "RuntimeError",
               "PestGrammarSyntaxError": "PestGrammarError", "OverflowError": "ArithmeticError", "ZeroDivisionError": "ArithmeticError"}


class _Return(Exception):
    def __init__(self, value: Any):
        self.value = value


class _Break(Exception):
    pass


class _Continue(Exception):
    pass


CMP = {
    ast.Eq: operator.eq, ast.NotEq: operator.ne, ast.Lt: operator.lt, ast.LtE: operator.le, ast.Gt: operator.gt, ast.GtE: operator.ge,
    ast.Is: operator.is_, ast.IsNot: operator.is_not, ast.In: lambda a, b: a in b, ast.NotIn: lambda a, b: a not in b,
}
DUNDER_CMP = {ast.Gt: "__gt__", ast.GtE: "__ge__", ast.Lt: "__lt__", ast.LtE: "__le__", ast.Eq: "__eq__", ast.NotEq: "__ne__"}
DUNDER_BIN = {ast.Add: "__add__", ast.Sub: "__sub__", ast.Mult: "__mul__"}
BIN = {ast.Add: operator.add, ast.Sub: operator.sub, ast.Mult: operator.mul, ast.BitOr: operator.or_, ast.BitAnd: operator.and_, ast.FloorDiv: operator.floordiv, ast.Mod: operator.mod, ast.Pow: operator.pow, ast.LShift: operator.lshift}


def _chain(*its: Any) -> list:
    return [x for it in its for x in it]


_chain.from_iterable = lambda its: [x for it in its for x in it]  # type: ignore[attr-defined]
_chain._sa_attrs = ("from_iterable",)  # type: ignore[attr-defined]

SAFE_BUILTINS: dict[str, Callable] = {
    "len": len, "max": max, "min": min, "ord": ord, "chr": chr, "range": range, "any": any, "all": all, "sorted": sorted,
    "reversed": lambda x: list(reversed(x)), "abs": abs, "int": int, "set": set, "list": list, "tuple": tuple, "bool": bool, "str": str,
    "frozenset": frozenset, "dict": dict, "hex": hex, "divmod": divmod, "repr": repr, "slice": slice,
    "accumulate": lambda it, *a: list(__import__("itertools").accumulate(it, *a)),
    "bisect_right": __import__("bisect").bisect_right, "bisect_left": __import__("bisect").bisect_left, "bisect": __import__("bisect").bisect, 
    "enumerate": lambda x, start=0: list(enumerate(x, start)), "zip": lambda *a, strict=False: list(zip(*a, strict=strict)), "sum": sum,
    "combinations": lambda it, r: list(__import__("itertools").combinations(list(it), r)),
    "permutations": lambda it, r=None: list(__import__("itertools").permutations(list(it), r)),
    "product": lambda *its, repeat=1: list(__import__("itertools").product(*[list(i) for i in its], repeat=repeat)),
    "pairwise": lambda it: list(__import__("itertools").pairwise(list(it))),
    "repeat": lambda x, n: [x] * n,  # itertools.repeat with a count
    "chain": _chain,  # itertools.chain (and chain.from_iterable)
    "nullcontext": lambda value=None: NullCtx(value),  # contextlib.nullcontext
}
STR_METHODS = {"lower", "upper", "startswith", "endswith", "casefold", "isalpha", "swapcase", "isascii", "isdigit", "isalnum", "isupper", "islower", "strip", "lstrip", "rstrip", "split", "replace", "find", "rfind", "count", "index", "splitlines", "rsplit", "join", "encode", "isspace", "title", "zfill", "ljust", "rjust", "center", "partition", "rpartition", "expandtabs", "format"}
LIST_METHODS = {"append", "extend", "pop", "sort", "clear", "insert", "index", "copy", "reverse", "count", "remove"}
SET_METHODS = {"add", "update", "discard", "copy", "remove", "clear", "union", "intersection", "difference", "issubset", "issuperset", "isdisjoint"}


# Which raising constructs of the repository's functions the model evaluated, and how they came out:
# {(function qualname, kind, text): {"ok": n, "raise": n}} with kind / text as the exception-escape analysis
# (sa/escape.py) names its sites.  Filled by every evaluation in the process; read by sa/escape_props.py to
# discharge a may-raise site that the model executed without raising - or to show it raising.
COVERAGE: dict[tuple[str, str, str], dict[str, int]] = {}


def _cover(env: dict, kind: str, text: str, outcome: str, exc: BaseException | None = None) -> None:
    fn = env.get("__fn__")
    if fn is None:
        return
    d = COVERAGE.setdefault((fn, kind, text), {"ok": 0, "raise": 0})
    d[outcome] += 1
    if exc is not None:  # which exception passed through the construct (its own, or one of a callee's)
        name = str(exc).split(":")[0].strip()
        d[f"raise:{name}"] = d.get(f"raise:{name}", 0) + 1


class Ev:
    def __init__(self, env: dict[str, Any], where: str, methods: dict[tuple[str, str], Callable] | None = None, max_steps: int = 20000):
        self.env = env
        self.where = where
        self.methods = methods or {}
        self.steps = 0
        self.max_steps = max_steps
        self.yielded: list = []

    def bad(self, node: ast.AST, why: str = "") -> Unsupported:
        return Unsupported(f"{self.where}: unsupported construct for the order-abstraction evaluator{': ' + why if why else ''}: `{ast.unparse(node)[:80]}`")

    # ------------------------------------------------------------ dunder dispatch on model objects
    def dunder(self, obj: "Obj", name: str) -> Callable | None:
        for k in obj.kinds:
            m = self.methods.get((k, name))
            if m is not None:
                return m
        return None

    def truth(self, v: Any) -> bool:
        if isinstance(v, Obj):
            m = self.dunder(v, "__bool__")
            if m is not None:
                return bool(m(v))
            m = self.dunder(v, "__len__")
            if m is not None:
                return m(v) != 0
            return True
        if isinstance(v, Sym) and "." in v.name and hasattr(self.methods, "enum_truth"):
            return self.methods.enum_truth(v.name)  # a plain Enum member is true whatever its value; an IntEnum's is its value's
        return bool(v)

    def callable_value(self, node: ast.expr, ctx: ast.AST) -> Callable:
        """A callable passed as a value (``key=len``, ``key=lambda v: ...``, ``key=helper``): a pure built-in, a
        one-argument lambda, or whatever the expression evaluates to on the model."""
        if isinstance(node, ast.Name) and node.id not in self.env and node.id in SAFE_BUILTINS:
            g = SAFE_BUILTINS[node.id]

            def call_builtin(x: Any, g: Callable = g) -> Any:
                if isinstance(x, Obj):
                    raise self.bad(ctx, "a built-in applied to a model object as a key function")
                return g(x)

            return call_builtin
        if isinstance(node, ast.Lambda):
            if len(node.args.args) != 1:
                raise self.bad(ctx, "a key function must take one argument")
            pname = node.args.args[0].arg

            def call_lambda(x: Any) -> Any:
                saved = self.env.get(pname, _MISSING)
                self.env[pname] = x
                try:
                    return self.ev(node.body)
                finally:
                    if saved is _MISSING:
                        del self.env[pname]
                    else:
                        self.env[pname] = saved

            return call_lambda
        v = self.ev(node)
        if not callable(v):
            raise self.bad(ctx, "a key function that is not callable on the model")
        return v

    def to_str(self, v: Any) -> str:
        if isinstance(v, Obj):
            own = v.__dict__.get("__str__")
            if callable(own):  # a stand-in object of the checker (an oracle leaf) says what it prints as
                return own()
            m = self.dunder(v, "__str__")
            if m is None:
                raise Unsupported(f"{self.where}: str() of a model object without __str__: {v!r}")
            return m(v)
        return str(v)

    def iterate(self, v: Any) -> list:
        if isinstance(v, ModelIter):
            return list(v)  # whatever is left of it
        if isinstance(v, Obj):
            m = self.dunder(v, "__iter__")
            if m is None:
                if "_fields" in v.__dict__:  # a NamedTuple record: its fields in order
                    return [v.__dict__[f] for f in v.__dict__["_fields"]]
                raise _ModelRaise("TypeError: not iterable")
            return list(m(v))
        if isinstance(v, Sym):
            c = getattr(self.methods, "classes", {}).get(v.name) if "." not in v.name else None
            if c is not None:  # iterating an enumeration: its members in definition order
                out = []
                for n_ in c.body:
                    if isinstance(n_, ast.Assign) and len(n_.targets) == 1 and isinstance(n_.targets[0], ast.Name) and not n_.targets[0].id.startswith("_"):
                        iv = self.methods.int_enum_member(v.name, n_.targets[0].id) if hasattr(self.methods, "int_enum_member") else None
                        out.append(iv if iv is not None else Sym(f"{v.name}.{n_.targets[0].id}"))
                return out
            raise Unsupported(f"{self.where}: iteration over {v.name}")
        if v is None or isinstance(v, (int, float, bool)) or callable(v):
            raise _ModelRaise(f"TypeError: {type(v).__name__} is not iterable")
        return list(v)

    # ------------------------------------------------------------ expressions
    def ev(self, n: ast.expr) -> Any:
        if isinstance(n, (ast.Subscript, ast.Call)) and "__fn__" in self.env:
            meta = n.__dict__.get("_sa_site")
            if meta is None:  # computed once per syntax-tree node
                kind = "subscript" if isinstance(n, ast.Subscript) else "call"
                text = ast.unparse(n) if kind == "subscript" else ast.unparse(n)[:80]
                pop = f"{ast.unparse(n.func.value)}.pop()" if kind == "call" and isinstance(n.func, ast.Attribute) and n.func.attr == "pop" and not n.args else None
                meta = n.__dict__["_sa_site"] = (kind, text, pop)
            kind, text, pop = meta
            try:
                v = self._ev(n)
            except _ModelRaise as err:
                _cover(self.env, kind, text, "raise", err)
                if pop:
                    _cover(self.env, "pop", pop, "raise", err)
                raise
            _cover(self.env, kind, text, "ok")
            if pop:
                _cover(self.env, "pop", pop, "ok")
            return v
        return self._ev(n)

    def _ev(self, n: ast.expr) -> Any:
        if isinstance(n, _Lit):
            return n.value_  # noqa: PLR0911, PLR0912
        self.steps += 1
        if self.steps > self.max_steps:
            raise Unsupported(f"{self.where}: evaluation does not terminate within {self.max_steps} steps on the model")
        if isinstance(n, ast.Constant):
            return n.value
        if isinstance(n, ast.Name):
            if n.id in self.env:
                return self.env[n.id]
            if n.id in ("True", "False", "None"):
                return {"True": True, "False": False, "None": None}[n.id]
            if n.id in self.env.get("__fnlocals__", ()):
                # assigned somewhere in the enclosing function but not on this path
                raise _ModelRaise(f"UnboundLocalError: {n.id}")
            if getattr(SAFE_BUILTINS.get(n.id), "_sa_attrs", None):  # a library callable with attributes (chain.from_iterable)
                return SAFE_BUILTINS[n.id]
            if n.id in ("list", "tuple", "str", "int", "len", "sorted", "bool", "set", "frozenset", "dict", "min", "max", "sum", "abs", "ord", "chr", "repr"):
                return SAFE_BUILTINS[n.id]  # a built-in used as a value: map(len, xs), key=str, setdefault(k, list())
            if self.env.get("__closed_world__") and not hasattr(builtins, n.id):
                # the environment holds everything the evaluated module can see (an emitted module whose imports
                # the caller has supplied): a name that is bound nowhere is the program's NameError, not our gap
                raise _ModelRaise(f"NameError: {n.id}")
            raise self.bad(n, "unbound name")
        if isinstance(n, ast.Attribute):
            base = self.ev(n.value)
            if isinstance(base, Obj):
                if n.attr in base.__dict__:
                    return base.__dict__[n.attr]
                if n.attr == "__class__" and base.kinds[0] in self.env:
                    return self.env[base.kinds[0]]
                for k in base.kinds:
                    prop = self.methods.get((k, "@" + n.attr))
                    if prop is not None:
                        return prop(base)
                for k in base.kinds:
                    m = self.methods.get((k, n.attr))
                    if m is not None:
                        return _Bound(base, m)
                if hasattr(self.methods, "class_attr"):
                    for k in base.kinds:
                        if k in getattr(self.methods, "classes", {}):
                            v = self.methods.class_attr(k, n.attr)
                            if v is not self.methods._NOATTR:  # noqa: SLF001
                                return v
                raise _ModelRaise(f"AttributeError: {n.attr}")
            if isinstance(base, Sym):
                if hasattr(self.methods, "int_enum_member"):
                    iv = self.methods.int_enum_member(base.name, n.attr)
                    if iv is not None:
                        return iv  # a member of an IntEnum / IntFlag is its integer in arithmetic, comparison and hashing
                return Sym(f"{base.name}.{n.attr}")
            cname = getattr(base, "_sa_class", None)
            if cname is not None and hasattr(self.methods, "class_attr"):  # `cls.TABLE` in a classmethod, `Klass.TABLE`
                v = self.methods.class_attr(cname, n.attr)
                if v is not self.methods._NOATTR:  # noqa: SLF001
                    return v
                if n.attr == "__name__":
                    return cname
                raise self.bad(n, "attribute of a class that is not a class-level assignment")
            if isinstance(base, PureModule):
                return base.get(n.attr, self, n)
            raise self.bad(n, "attribute of a non-model value")
        if isinstance(n, ast.Subscript):
            base = self.ev(n.value)
            if isinstance(n.slice, ast.Slice):
                lo = self.ev(n.slice.lower) if n.slice.lower is not None else None
                hi = self.ev(n.slice.upper) if n.slice.upper is not None else None
                st = self.ev(n.slice.step) if n.slice.step is not None else None
                if isinstance(base, Obj):
                    m = self.dunder(base, "__getitem__")
                    if m is None:
                        raise _ModelRaise("TypeError: not subscriptable")
                    return m(base, slice(lo, hi, st))
                return base[lo:hi:st]
            if callable(base) and not isinstance(base, (Obj, _Bound)) and isinstance(n.value, ast.Name):
                return base  # a generic alias such as Stack[str]: the class itself
            idx = self.ev(n.slice)
            if isinstance(base, Obj):
                if callable(base.__dict__.get("__getitem__")):
                    return base.__dict__["__getitem__"](idx)
                m = self.dunder(base, "__getitem__")
                if m is None and "_fields" in base.__dict__ and isinstance(idx, int) and not isinstance(idx, bool):
                    try:
                        return base.__dict__[base.__dict__["_fields"][idx]]  # record[i]
                    except IndexError as err:
                        raise _ModelRaise("IndexError") from err
                if m is None:
                    # a gap of the model (a stub object), not a property of the code under analysis
                    raise self.bad(n, f"subscript of a model object of kind {base.kinds[0]}")
                return m(base, idx)
            try:
                return base[idx]
            except (IndexError, KeyError) as err:
                raise _ModelRaise(type(err).__name__) from err
        if isinstance(n, ast.Compare):
            left = self.ev(n.left)
            for op, c in zip(n.ops, n.comparators):
                right = self.ev(c)
                f = CMP.get(type(op))
                if f is None:
                    raise self.bad(n)
                if isinstance(left, Obj) and type(op) in DUNDER_CMP:
                    dm = self.dunder(left, DUNDER_CMP[type(op)])
                    if dm is not None:
                        if not dm(left, right):
                            return False
                        left = right
                        continue
                if isinstance(op, (ast.Eq, ast.NotEq)) and any(isinstance(x, Obj) and "_fields" in x.__dict__ for x in (left, right)):
                    # NamedTuple records compare as the tuples of their fields (with each other and with plain tuples)
                    def as_tuple(x: Any) -> Any:
                        return tuple(x.__dict__[f_] for f_ in x.__dict__["_fields"]) if isinstance(x, Obj) and "_fields" in x.__dict__ else x

                    same = as_tuple(left) == as_tuple(right)
                    if same != isinstance(op, ast.Eq):
                        return False
                    left = right
                    continue
                if isinstance(op, (ast.Is, ast.IsNot)) and isinstance(left, Sym) and isinstance(right, Sym):
                    # enum members are singletons: `x is Kind.A` is identity of the *member*, which the model names
                    same = left == right
                    if same != isinstance(op, ast.Is):
                        return False
                    left = right
                    continue
                try:
                    if not f(left, right):
                        return False
                except TypeError as err:
                    raise _ModelRaise("TypeError") from err
                left = right
            return True
        if isinstance(n, ast.BoolOp):
            val: Any = None
            for v in n.values:
                val = self.ev(v)
                if isinstance(n.op, ast.And) and not self.truth(val):
                    return val
                if isinstance(n.op, ast.Or) and self.truth(val):
                    return val
            return val
        if isinstance(n, ast.UnaryOp):
            v = self.ev(n.operand)
            if isinstance(n.op, ast.Not):
                return not self.truth(v)
            if isinstance(n.op, ast.USub):
                return -v
            if isinstance(n.op, ast.UAdd) and isinstance(v, (int, float)):
                return +v
            if isinstance(n.op, ast.Invert) and isinstance(v, int):  # masks: `modifier & ~SILENT`
                return ~v
            raise self.bad(n)
        if isinstance(n, ast.BinOp):
            f = BIN.get(type(n.op))
            if f is None:
                raise self.bad(n)
            try:
                return f(self.ev(n.left), self.ev(n.right))
            except TypeError as err:
                raise _ModelRaise("TypeError") from err
        if isinstance(n, ast.IfExp):
            return self.ev(n.body) if self.truth(self.ev(n.test)) else self.ev(n.orelse)
        if isinstance(n, (ast.Tuple, ast.List, ast.Set)):
            vals: list = []
            for e in n.elts:
                if isinstance(e, ast.Starred):
                    vals.extend(self.iterate(self.ev(e.value)))  # [*a, *b]
                else:
                    vals.append(self.ev(e))
            return tuple(vals) if isinstance(n, ast.Tuple) else vals if isinstance(n, ast.List) else set(vals)
        if isinstance(n, (ast.GeneratorExp, ast.ListComp, ast.SetComp)):
            return self.comp(n)
        if isinstance(n, ast.Lambda):
            params = [a.arg for a in n.args.args]
            outer = self

            def lam(*args: Any) -> Any:
                sub = Ev({**outer.env, **dict(zip(params, args))}, outer.where, outer.methods, outer.max_steps)
                return sub.ev(n.body)

            return lam
        if isinstance(n, ast.DictComp):
            if len(n.generators) != 1:
                raise self.bad(n, "nested comprehension")
            g = n.generators[0]
            outd: dict = {}
            saved = dict(self.env)
            for item in self.iterate(self.ev(g.iter)):
                self.assign(g.target, item)
                if all(self.ev(i) for i in g.ifs):
                    outd[self.ev(n.key)] = self.ev(n.value)
            self.env.clear()
            self.env.update(saved)
            return outd
        if isinstance(n, ast.NamedExpr):
            v = self.ev(n.value)
            self.env[n.target.id] = v
            return v
        if isinstance(n, ast.Call):
            return self.call(n)
        if isinstance(n, ast.Yield):
            self.yielded.append(self.ev(n.value) if n.value is not None else None)
            return None
        if isinstance(n, ast.YieldFrom):
            self.yielded.extend(self.iterate(self.ev(n.value)))
            return None
        if isinstance(n, ast.Dict):
            d: dict = {}
            for k, v in zip(n.keys, n.values):
                if k is None:  # {**other}
                    m = self.ev(v)
                    if not isinstance(m, dict):
                        raise self.bad(n, "** of something that is not a dict in a dict display")
                    d.update(m)
                else:
                    d[self.ev(k)] = self.ev(v)
            return d
        if isinstance(n, ast.JoinedStr):
            out = []
            for part in n.values:
                if isinstance(part, ast.Constant):
                    out.append(str(part.value))
                elif isinstance(part, ast.FormattedValue) and part.format_spec is None and part.conversion == -1:
                    out.append(self.to_str(self.ev(part.value)))
                elif isinstance(part, ast.FormattedValue) and part.format_spec is None and part.conversion == ord("r"):
                    v_ = self.ev(part.value)
                    if isinstance(v_, Obj):
                        raise self.bad(n, "repr of a model object")
                    out.append(repr(v_))
                else:
                    raise self.bad(n, "format spec or conversion")
            return "".join(out)
        raise self.bad(n)

    def args_of(self, n: ast.Call) -> list:
        out: list = []
        for a in n.args:
            if isinstance(a, ast.Starred):
                out.extend(self.iterate(self.ev(a.value)))
            else:
                out.append(self.ev(a))
        return out

    def comp(self, n: ast.GeneratorExp | ast.ListComp | ast.SetComp) -> Any:
        out: list = []
        # the comprehension's own names (targets, walrus targets) are scoped to it: put back what they hid
        own = {x.id for g in n.generators for x in ast.walk(g.target) if isinstance(x, ast.Name)}
        saved = {k: self.env.get(k, _MISSING) for k in own}

        def level(i: int) -> None:
            if i == len(n.generators):
                out.append(self.ev(n.elt))
                return
            g = n.generators[i]
            for item in self.iterate(self.ev(g.iter)):
                self.assign(g.target, item)
                if all(self.truth(self.ev(c)) for c in g.ifs):
                    level(i + 1)

        try:
            level(0)
        finally:
            for k, v in saved.items():
                if v is _MISSING:
                    self.env.pop(k, None)
                else:
                    self.env[k] = v
        return set(out) if isinstance(n, ast.SetComp) else out

    def call(self, n: ast.Call) -> Any:  # noqa: PLR0911, PLR0912
        f = n.func
        if isinstance(f, ast.Subscript):
            target = self.ev(f)
            if callable(target):
                return target(*self.args_of(n), **{k.arg: self.ev(k.value) for k in n.keywords if k.arg})
            raise self.bad(n)
        if ((isinstance(f, ast.Name) and f.id == "partial") or (isinstance(f, ast.Attribute) and ast.unparse(f) == "functools.partial")) and "partial" not in self.env and n.args:
            # functools.partial: the callable with leading positional and keyword arguments bound now
            target = self.ev(n.args[0])
            if not callable(target):
                raise self.bad(n, "partial() of a non-callable")
            bound = [self.ev(a) for a in n.args[1:]]
            bkw = {k.arg: self.ev(k.value) for k in n.keywords if k.arg}
            return lambda *a, **kw: target(*bound, *a, **{**bkw, **kw})
        if isinstance(f, ast.Name) and f.id in ("any", "all", "next") and f.id not in self.env and n.args and isinstance(n.args[0], ast.GeneratorExp) and not n.keywords:
            # a generator expression is consumed lazily: any() / all() stop at the first deciding element, next() takes
            # one - the elements after it are never evaluated (they may have effects: `any(self._try(r) for r in rules)`)
            g = n.args[0]
            if len(g.generators) != 1:
                raise self.bad(n, "nested comprehension")
            gen = g.generators[0]
            own = {x.id for x in ast.walk(gen.target) if isinstance(x, ast.Name)}
            saved = {k: self.env.get(k, _MISSING) for k in own}
            try:
                for item in self.iterate(self.ev(gen.iter)):
                    self.assign(gen.target, item)
                    if not all(self.ev(i) for i in gen.ifs):
                        continue
                    v = self.ev(g.elt)
                    if f.id == "next":
                        return v
                    if f.id == "any" and self.truth(v):
                        return True
                    if f.id == "all" and not self.truth(v):
                        return False
                if f.id == "next":
                    if len(n.args) > 1:
                        return self.ev(n.args[1])
                    raise _ModelRaise("StopIteration")
                return f.id == "all"
            finally:
                for k, v0 in saved.items():
                    if v0 is _MISSING:
                        self.env.pop(k, None)
                    else:
                        self.env[k] = v0
        callee_is_model = (isinstance(f, ast.Name) and f.id in self.env and callable(self.env[f.id])) or isinstance(f, ast.Attribute)
        if n.keywords and not callee_is_model and not all(k.arg in ("key", "reverse", "default", "start", "strict", "maxlen") for k in n.keywords):
            raise self.bad(n, "keyword arguments")
        if isinstance(f, ast.Name):
            if f.id == "isinstance":
                obj = self.ev(n.args[0])
                spec = n.args[1]
                prim_names = ("str", "int", "list", "tuple", "dict", "set", "bool", "frozenset", "float", "bytes", "type", "object")
                names = []
                for e in (spec.elts if isinstance(spec, ast.Tuple) else [spec]):
                    text = ast.unparse(e)
                    val = self.env.get(e.id, _MISSING) if isinstance(e, ast.Name) else _MISSING
                    if isinstance(e, (ast.Attribute, ast.Subscript)) and isinstance(e.value, ast.Name) and isinstance(self.env.get(e.value.id), (Obj, dict, list, tuple)):
                        # a class held in a field or a table entry (operator.node, TABLE[kind]): the value names it
                        val = self.ev(e)
                        if getattr(val, "_sa_class", None) is None and not (isinstance(val, tuple) and all(getattr(x, "_sa_class", None) for x in val)):
                            raise self.bad(n, "isinstance against a value the model cannot name as a class")
                    cls_of = getattr(val, "_sa_class", None)
                    if cls_of is not None:
                        names.append(cls_of)  # a class of the program model, possibly through a variable (cls = TABLE[kind])
                    elif val is _MISSING or text in prim_names or isinstance(val, (Sym,)) or val is None:
                        names.append(text.split(".")[-1] if "." in text and val is _MISSING else text)
                    elif isinstance(val, tuple) and all(getattr(x, "_sa_class", None) for x in val):
                        names.extend(x._sa_class for x in val)  # noqa: SLF001
                    else:
                        raise self.bad(n, "isinstance against a value the model cannot name as a class")
                if isinstance(obj, Obj):
                    return any(k in names for k in obj.kinds)
                if isinstance(obj, Sym) and "." in obj.name:
                    return obj.name.split(".")[0] in names or "object" in names  # an enum member is an instance of its enumeration
                prim = {"str": str, "int": int, "list": list, "tuple": tuple, "dict": dict, "set": set, "bool": bool, "frozenset": frozenset, "float": float, "bytes": bytes, "object": object}
                # a primitive value is an instance of the primitive types named, never of a class of the model
                hits = tuple(prim[x] for x in names if x in prim)
                return bool(hits) and isinstance(obj, hits)
            if f.id == "super" and not n.args:
                owner = self.env.get("__owner__")
                me = self.env.get("__self__")
                if owner is None or me is None:
                    raise self.bad(n, "super() outside a model method")
                return _Super(me, owner)
            if f.id in self.env and callable(self.env[f.id]):
                return self.env[f.id](*self.args_of(n), **{k.arg: self.ev(k.value) for k in n.keywords if k.arg})
            if f.id in SAFE_BUILTINS:
                args = self.args_of(n)
                if f.id == "len" and len(args) == 1 and isinstance(args[0], Obj):
                    if "_len" in args[0].__dict__:
                        return args[0].__dict__["_len"]
                    m = self.dunder(args[0], "__len__")
                    if m is None:
                        raise _ModelRaise("TypeError: no len()")
                    return m(args[0])
                if f.id == "str" and len(args) == 1 and isinstance(args[0], Obj):
                    return self.to_str(args[0])
                if f.id in ("list", "tuple", "sorted", "reversed", "enumerate", "any", "all", "set") and args and isinstance(args[0], Obj):
                    args[0] = self.iterate(args[0])
                kw = {}
                for k in n.keywords:
                    if k.arg == "key":
                        lam = k.value
                        if not isinstance(lam, ast.Lambda):  # key=len, key=str.lower, key=a_function
                            kw["key"] = self.callable_value(lam, n)
                            continue
                        if len(lam.args.args) != 1:
                            raise self.bad(n, "key= must be a one-argument lambda")
                        pname = lam.args.args[0].arg

                        def keyf(x: Any, lam: ast.Lambda = lam, pname: str = pname) -> Any:
                            saved = self.env.get(pname, _MISSING)
                            self.env[pname] = x
                            try:
                                return self.ev(lam.body)
                            finally:
                                if saved is _MISSING:
                                    del self.env[pname]
                                else:
                                    self.env[pname] = saved

                        kw["key"] = keyf
                    else:
                        kw[k.arg] = self.ev(k.value)
                if f.id in ("sorted", "min", "max") and "key" not in kw and args:
                    seq = args[0] if len(args) == 1 else args
                    if isinstance(seq, (list, tuple)) and any(isinstance(x, Obj) and "_fields" in x.__dict__ for x in seq):
                        # NamedTuple records order as the tuples of their fields
                        kw["key"] = lambda x: tuple(x.__dict__[f_] for f_ in x.__dict__["_fields"]) if isinstance(x, Obj) and "_fields" in x.__dict__ else x
                try:
                    return SAFE_BUILTINS[f.id](*args, **kw)
                except (ValueError, TypeError, OverflowError) as err:
                    raise _ModelRaise(type(err).__name__) from err
            if f.id == "iter":
                # a real iterator: a loop that breaks out of it and comes back later goes on where it stopped
                return ModelIter(self.iterate(self.ev(n.args[0])))
            if f.id == "next" and n.args and "next" not in self.env:
                it = self.ev(n.args[0])
                if isinstance(it, list) and isinstance(n.args[0], ast.Call):
                    # next(gen_method(...)[, default]): the model runs a generator to the list of what it yields; a
                    # fresh generator's first element is that list's first
                    it = ModelIter(it)
                if isinstance(it, ModelIter):
                    try:
                        return next(it)
                    except StopIteration:
                        if len(n.args) > 1:
                            return self.ev(n.args[1])
                        raise _ModelRaise("StopIteration") from None
                raise self.bad(n, "next() of something that is not a model iterator")
            if f.id == "getattr" and len(n.args) in (2, 3) and "getattr" not in self.env:
                obj, name = self.ev(n.args[0]), self.ev(n.args[1])
                if not isinstance(name, str) or not name.isidentifier():
                    raise self.bad(n, "getattr with a computed name")
                try:
                    return self.ev(ast.copy_location(ast.Attribute(value=_Lit(obj), attr=name, ctx=ast.Load()), n))
                except _ModelRaise as err:
                    if "AttributeError" in str(err) and len(n.args) == 3:
                        return self.ev(n.args[2])
                    raise
            if f.id == "deque" and "deque" not in self.env and not [k for k in n.keywords if k.arg != "maxlen"]:
                import collections  # a bounded window over a finished sequence: the real thing, on model values

                ml = next((self.ev(k.value) for k in n.keywords if k.arg == "maxlen"), None)
                return list(collections.deque(self.iterate(self.ev(n.args[0])) if n.args else [], maxlen=ml))
            if f.id in ("map", "filter") and len(n.args) == 2:
                fn_node = n.args[0]
                seq = self.iterate(self.ev(n.args[1]))
                if isinstance(fn_node, ast.Name) and fn_node.id in SAFE_BUILTINS and fn_node.id not in self.env:
                    g = SAFE_BUILTINS[fn_node.id]
                else:
                    g = self.ev(fn_node)
                    if not callable(g):
                        raise self.bad(n, "map/filter over a non-callable")
                try:
                    return [g(x) for x in seq] if f.id == "map" else [x for x in seq if g(x)]
                except (ValueError, TypeError) as err:
                    raise _ModelRaise(type(err).__name__) from err
            raise self.bad(n, "call of an unknown function")
        if isinstance(f, ast.Attribute):
            recv = self.ev(f.value)
            args = self.args_of(n)
            if isinstance(recv, list) and f.attr == "sort" and n.keywords:  # lst.sort(key=..., reverse=...)
                skw: dict = {}
                for k in n.keywords:
                    if k.arg == "key":
                        skw["key"] = self.callable_value(k.value, n)
                    elif k.arg == "reverse":
                        skw["reverse"] = bool(self.ev(k.value))
                    else:
                        raise self.bad(n, "sort with an unknown keyword")
                try:
                    return recv.sort(**skw)
                except TypeError as err:
                    raise _ModelRaise("TypeError") from err
            kwargs = {k.arg: self.ev(k.value) for k in n.keywords if k.arg}
            if isinstance(recv, _Super):
                m = self.methods.get_after(recv.owner, recv.obj, f.attr) if hasattr(self.methods, "get_after") else None
                if m is None:
                    if f.attr == "__init__":
                        # object.__init__ - or BaseException.__init__, which keeps its arguments in .args
                        if args and "args" not in recv.obj.__dict__:
                            recv.obj.__dict__["args"] = tuple(args)
                        elif "args" not in recv.obj.__dict__:
                            recv.obj.__dict__["args"] = ()
                        return None
                    raise self.bad(n, f"super().{f.attr} not found")
                return m(recv.obj, *args, **kwargs)
            if isinstance(recv, _Bound):
                raise self.bad(n, "attribute of a bound method")
            if isinstance(recv, Obj):
                if f.attr == "__class__" and recv.kinds[0] in self.env and callable(self.env[recv.kinds[0]]):
                    return self.env[recv.kinds[0]](*args, **kwargs)
                if f.attr in recv.__dict__ and callable(recv.__dict__[f.attr]):
                    return recv.__dict__[f.attr](*args, **kwargs)
                for k in recv.kinds:
                    m = self.methods.get((k, f.attr))
                    if m is not None:
                        return m(recv, *args, **kwargs)
                if f.attr == "_replace" and "_fields" in recv.__dict__ and not args and all(k in recv.__dict__["_fields"] for k in kwargs):
                    new = Obj(recv.kinds)  # a NamedTuple record with some fields replaced: a new record
                    new.__dict__.update({k: v for k, v in recv.__dict__.items() if k != "kinds"})
                    new.__dict__.update(kwargs)
                    return new
                if f.attr == "_asdict" and "_fields" in recv.__dict__ and not args and not kwargs:
                    return {k: recv.__dict__[k] for k in recv.__dict__["_fields"]}
                raise self.bad(n, f"no abstract method {f.attr} for {recv.kinds}")
            if kwargs and isinstance(recv, str) and f.attr in ("splitlines", "split", "rsplit", "find", "rfind", "count", "startswith", "endswith", "strip", "lstrip", "rstrip", "replace"):
                return getattr(recv, f.attr)(*args, **kwargs)
            if kwargs:
                raise self.bad(n, "keyword arguments")
            if isinstance(recv, dict) and f.attr in ("get", "items", "keys", "values", "setdefault", "update", "pop"):
                r = getattr(recv, f.attr)(*args)
                return list(r) if f.attr in ("items", "keys", "values") else r
            if isinstance(recv, str) and f.attr == "join":
                return recv.join(args[0])
            if isinstance(recv, str) and f.attr in STR_METHODS:
                return getattr(recv, f.attr)(*args)
            if isinstance(recv, list) and f.attr == "sort" and not args and any(isinstance(x, Obj) and "_fields" in x.__dict__ for x in recv):
                recv.sort(key=lambda x: tuple(x.__dict__[f_] for f_ in x.__dict__["_fields"]) if isinstance(x, Obj) and "_fields" in x.__dict__ else x)
                return None
            if isinstance(recv, list) and f.attr in LIST_METHODS:
                try:
                    return getattr(recv, f.attr)(*args)
                except (IndexError, ValueError) as err:
                    raise _ModelRaise(type(err).__name__) from err
            if isinstance(recv, (set, frozenset)) and f.attr in SET_METHODS and hasattr(recv, f.attr):
                return getattr(recv, f.attr)(*args)
            if callable(recv) and f.attr in getattr(recv, "_sa_attrs", ()):  # chain.from_iterable
                return getattr(recv, f.attr)(*[self.iterate(a) if isinstance(a, Obj) else a for a in args])
            raise self.bad(n, f"method {f.attr} on {type(recv).__name__}")
        raise self.bad(n)

    # ------------------------------------------------------------- statements
    def assign(self, target: ast.expr, value: Any) -> None:
        if isinstance(target, ast.Name):
            self.env[target.id] = value
        elif isinstance(target, (ast.Tuple, ast.List)):
            vals = self.iterate(value) if isinstance(value, Obj) else list(value)
            stars = [i for i, t in enumerate(target.elts) if isinstance(t, ast.Starred)]
            if len(stars) > 1:
                raise self.bad(target, "two starred targets")
            if stars:  # head, *tail = xs
                i = stars[0]
                after = len(target.elts) - i - 1
                if len(vals) < len(target.elts) - 1:
                    raise _ModelRaise("ValueError")
                for t, v in zip(target.elts[:i], vals[:i]):
                    self.assign(t, v)
                self.assign(target.elts[i].value, list(vals[i: len(vals) - after]))  # type: ignore[attr-defined]
                for t, v in zip(target.elts[i + 1:], vals[len(vals) - after:] if after else []):
                    self.assign(t, v)
                return
            if len(vals) != len(target.elts):
                raise _ModelRaise("ValueError")
            for t, v in zip(target.elts, vals):
                self.assign(t, v)
        elif isinstance(target, ast.Subscript):
            base = self.ev(target.value)
            if isinstance(target.slice, ast.Slice):
                lo = self.ev(target.slice.lower) if target.slice.lower is not None else None
                hi = self.ev(target.slice.upper) if target.slice.upper is not None else None
                base[lo:hi] = value
            else:
                try:
                    base[self.ev(target.slice)] = value
                except IndexError as err:
                    raise _ModelRaise("IndexError") from err
        elif isinstance(target, ast.Attribute):
            base = self.ev(target.value)
            cname = getattr(base, "_sa_class", None)
            if cname is not None and hasattr(self.methods, "set_class_attr"):  # `cls.TABLE = ...`: seen by every instance
                self.methods.set_class_attr(cname, target.attr, value)
                return
            if not isinstance(base, Obj):
                raise self.bad(target, "attribute store on a non-model value")
            base.__dict__[target.attr] = value
        else:
            raise self.bad(target)

    def run(self, stmts: list[ast.stmt]) -> None:  # noqa: PLR0912
        for s in stmts:
            self.steps += 1
            if self.steps > self.max_steps:
                raise Unsupported(f"{self.where}: evaluation does not terminate within {self.max_steps} steps on the model")
            if isinstance(s, ast.Expr):
                if isinstance(s.value, ast.Constant):
                    continue
                self.ev(s.value)
            elif isinstance(s, ast.Assign):
                v = self.ev(s.value)
                unpack = any(isinstance(t, (ast.Tuple, ast.List)) for t in s.targets)
                try:
                    for t in s.targets:
                        self.assign(t, v)
                except _ModelRaise:
                    if unpack:
                        _cover(self.env, "unpack", ast.unparse(s), "raise")
                    raise
                if unpack:
                    _cover(self.env, "unpack", ast.unparse(s), "ok")
            elif isinstance(s, ast.AnnAssign):
                if s.value is not None:
                    self.assign(s.target, self.ev(s.value))
            elif isinstance(s, ast.AugAssign):
                f = BIN.get(type(s.op))
                if f is None:
                    raise self.bad(s)
                cur = self.ev(ast.copy_location(_load(s.target), s.target))
                rhs = self.ev(s.value)
                # in-place operators mutate the object every other holder of it sees (list += , set |= , dict |= )
                if isinstance(cur, list) and isinstance(s.op, ast.Add):
                    cur.extend(self.iterate(rhs))
                    self.assign(s.target, cur)
                    continue
                if isinstance(cur, list) and isinstance(s.op, ast.Mult) and isinstance(rhs, int):
                    cur[:] = cur * rhs
                    self.assign(s.target, cur)
                    continue
                if isinstance(cur, set) and isinstance(s.op, (ast.BitOr, ast.BitAnd, ast.Sub)) and isinstance(rhs, (set, frozenset)):
                    {ast.BitOr: cur.update, ast.BitAnd: cur.intersection_update, ast.Sub: cur.difference_update}[type(s.op)](rhs)
                    self.assign(s.target, cur)
                    continue
                if isinstance(cur, dict) and isinstance(s.op, ast.BitOr) and isinstance(rhs, dict):
                    cur.update(rhs)
                    self.assign(s.target, cur)
                    continue
                if isinstance(cur, Obj) and type(s.op) in DUNDER_BIN:
                    dm = self.dunder(cur, DUNDER_BIN[type(s.op)].replace("__", "__i", 1)) or self.dunder(cur, DUNDER_BIN[type(s.op)])
                    if dm is None:
                        raise self.bad(s, "augmented assignment on a model object without the operator")
                    self.assign(s.target, dm(cur, rhs))
                else:
                    self.assign(s.target, f(cur, rhs))
            elif isinstance(s, ast.If):
                self.run(s.body if self.truth(self.ev(s.test)) else s.orelse)
            elif isinstance(s, ast.For):
                broke = False
                src = self.ev(s.iter)
                for item in (src if isinstance(src, ModelIter) else self.iterate(src)):
                    self.assign(s.target, item)
                    try:
                        self.run(s.body)
                    except _Break:
                        broke = True
                        break
                    except _Continue:
                        continue
                if not broke:
                    self.run(s.orelse)
            elif isinstance(s, ast.While):
                n = 0
                while self.truth(self.ev(s.test)):
                    n += 1
                    if n > 200:
                        raise Unsupported(f"{self.where}: loop does not terminate on the model")
                    try:
                        self.run(s.body)
                    except _Break:
                        break
                    except _Continue:
                        continue
            elif isinstance(s, ast.Return):
                raise _Return(self.ev(s.value) if s.value is not None else None)
            elif isinstance(s, ast.Break):
                raise _Break
            elif isinstance(s, ast.Continue):
                raise _Continue
            elif isinstance(s, ast.Pass):
                continue
            elif isinstance(s, ast.Delete):
                for t in s.targets:
                    if isinstance(t, ast.Subscript):
                        base = self.ev(t.value)
                        if isinstance(t.slice, ast.Slice):
                            lo = self.ev(t.slice.lower) if t.slice.lower is not None else None
                            hi = self.ev(t.slice.upper) if t.slice.upper is not None else None
                            del base[lo:hi]
                        else:
                            del base[self.ev(t.slice)]
                    else:
                        raise self.bad(s)
            elif isinstance(s, ast.Assert):
                if not self.ev(s.test):
                    _cover(self.env, "assert", ast.unparse(s.test), "raise")
                    raise _ModelRaise("AssertionError")
                _cover(self.env, "assert", ast.unparse(s.test), "ok")
            elif isinstance(s, ast.Raise):
                if s.exc is None:
                    _cover(self.env, "raise", "re-raise", "raise")
                    raise _ModelRaise(self.env.get("__active_exc__", "raise"))
                name = ast.unparse(s.exc.func) if isinstance(s.exc, ast.Call) else ast.unparse(s.exc)
                _cover(self.env, "raise", name, "raise")
                raise _ModelRaise(name.split(".")[-1])
            elif isinstance(s, ast.Try):
                try:
                    self.run(s.body)
                except _ModelRaise as err:
                    exc_name = str(err).split(":")[0].split("(")[0].strip()
                    handled = False
                    for h in s.handlers:
                        names = [] if h.type is None else [ast.unparse(e).split(".")[-1] for e in (h.type.elts if isinstance(h.type, ast.Tuple) else [h.type])]
                        if h.type is None or exc_name in names or "Exception" in names or (exc_name in EXC_PARENTS and EXC_PARENTS[exc_name] in names):
                            handled = True
                            saved = self.env.get("__active_exc__", _MISSING)
                            self.env["__active_exc__"] = exc_name
                            if h.name:
                                self.env[h.name] = Sym(exc_name)
                            try:
                                self.run(h.body)
                            finally:
                                if saved is _MISSING:
                                    self.env.pop("__active_exc__", None)
                                else:
                                    self.env["__active_exc__"] = saved
                            break
                    if not handled:
                        self.run(s.finalbody)
                        raise
                else:
                    self.run(s.orelse)
                self.run(s.finalbody)
            elif isinstance(s, ast.With) and not (len(s.items) == 1 and isinstance(s.items[0].context_expr, ast.Call) and ast.unparse(s.items[0].context_expr.func).split(".")[-1] == "suppress"):
                entered: list = []
                try:
                    for it in s.items:
                        c = self.ev(it.context_expr)
                        if not isinstance(c, CtxManager):
                            raise self.bad(s, "with statement over something that is not a model context manager")
                        val = c.enter()
                        entered.append(c)
                        if it.optional_vars is not None:
                            self.assign(it.optional_vars, val)
                    self.run(s.body)
                finally:
                    for c in reversed(entered):
                        c.exit()
            elif isinstance(s, ast.With):
                # contextlib.suppress(...)
                if len(s.items) == 1 and isinstance(s.items[0].context_expr, ast.Call) and ast.unparse(s.items[0].context_expr.func).split(".")[-1] == "suppress":
                    names = [ast.unparse(a).split(".")[-1] for a in s.items[0].context_expr.args]
                    try:
                        self.run(s.body)
                    except _ModelRaise as err:
                        if str(err).split(":")[0].split("(")[0].strip() not in names:
                            raise
                else:
                    raise self.bad(s, "with statement")
            elif isinstance(s, ast.FunctionDef):
                # a function defined inside a function: what it evaluates is charged to the enclosing one (as E3 does)
                self.env[s.name] = self.closure(s, extra={"__nested__": True} if "__fn__" in self.env else None)
            elif isinstance(s, ast.Match):
                subject = self.ev(s.subject)
                for case in s.cases:
                    binds: dict[str, Any] = {}
                    if self.match(case.pattern, subject, binds):
                        saved = {k: self.env.get(k, _MISSING) for k in binds}
                        self.env.update(binds)
                        if case.guard is None or self.ev(case.guard):
                            self.run(case.body)
                            break
                        for k, v in saved.items():
                            if v is _MISSING:
                                self.env.pop(k, None)
                            else:
                                self.env[k] = v
            else:
                raise self.bad(s)

    def match(self, p: ast.pattern, subject: Any, binds: dict) -> bool:  # noqa: PLR0911, PLR0912
        if isinstance(p, ast.MatchValue):
            return self.ev(p.value) == subject
        if isinstance(p, ast.MatchSingleton):
            return subject is p.value
        if isinstance(p, ast.MatchAs):
            if p.pattern is not None and not self.match(p.pattern, subject, binds):
                return False
            if p.name is not None:
                binds[p.name] = subject
            return True
        if isinstance(p, ast.MatchOr):
            for alt in p.patterns:
                b2: dict = {}
                if self.match(alt, subject, b2):
                    binds.update(b2)
                    return True
            return False
        if isinstance(p, ast.MatchSequence):
            if not isinstance(subject, (list, tuple)):
                return False
            star = [i for i, q in enumerate(p.patterns) if isinstance(q, ast.MatchStar)]
            if not star:
                if len(subject) != len(p.patterns):
                    return False
                return all(self.match(q, v, binds) for q, v in zip(p.patterns, subject))
            i = star[0]
            before, after = p.patterns[:i], p.patterns[i + 1:]
            if len(subject) < len(before) + len(after):
                return False
            if not all(self.match(q, v, binds) for q, v in zip(before, subject)):
                return False
            if after and not all(self.match(q, v, binds) for q, v in zip(after, subject[len(subject) - len(after):])):
                return False
            name = p.patterns[i].name  # type: ignore[attr-defined]
            if name:
                binds[name] = list(subject[len(before): len(subject) - len(after)])
            return True
        if isinstance(p, ast.MatchClass):
            cname = ast.unparse(p.cls).split(".")[-1]
            prim = {"str": str, "int": int, "list": list, "tuple": tuple, "dict": dict, "bool": bool}
            if cname in prim:
                if not isinstance(subject, prim[cname]) or p.kwd_attrs:
                    return False
                return all(self.match(q, subject, binds) for q in p.patterns[:1]) and len(p.patterns) <= 1
            if isinstance(subject, Sym) and "." in subject.name and subject.name.split(".")[0] == cname and not p.patterns and not p.kwd_attrs:
                return True  # `case Kind() as k`: an enum member is an instance of its enumeration
            if not isinstance(subject, Obj) or cname not in subject.kinds:
                return False
            if p.patterns:
                margs = subject.__dict__.get("_fields") or (self.methods.match_args(cname) if hasattr(self.methods, "match_args") else None)
                if margs is None or len(p.patterns) > len(margs):
                    raise self.bad(p, f"positional class pattern without __match_args__ for {cname}")
                for q, attr in zip(p.patterns, margs):
                    if attr not in subject.__dict__:
                        return False
                    if not self.match(q, subject.__dict__[attr], binds):
                        return False
            for attr, q in zip(p.kwd_attrs, p.kwd_patterns):
                if attr in subject.__dict__:
                    v = subject.__dict__[attr]
                else:
                    prop = None
                    for k in subject.kinds:
                        prop = self.methods.get((k, "@" + attr))
                        if prop is not None:
                            break
                    if prop is None:
                        return False
                    v = prop(subject)
                if not self.match(q, v, binds):
                    return False
            return True
        raise self.bad(p, "pattern")

    def closure(self, fn: ast.FunctionDef, base_env: dict | None = None, extra: dict | None = None) -> Callable:
        params = [a.arg for a in fn.args.args]
        kwonly = [a.arg for a in fn.args.kwonlyargs]
        defaults = fn.args.defaults
        is_gen = getattr(fn, "_sa_is_gen", None)
        if is_gen is None:
            is_gen = any(isinstance(x, (ast.Yield, ast.YieldFrom)) for x in _own_nodes(fn))
            fn._sa_is_gen = is_gen  # type: ignore[attr-defined]  # a fact about the syntax tree, computed once
        outer = self.env if base_env is None else base_env

        vararg = fn.args.vararg.arg if fn.args.vararg else None
        is_ctx = any(ast.unparse(d).split(".")[-1] == "contextmanager" for d in fn.decorator_list)

        memo = any(ast.unparse(d).split("(")[0].split(".")[-1] in ("lru_cache", "cache", "cached_property") for d in fn.decorator_list)

        def call(*args: Any, **kwargs: Any) -> Any:
            if memo:
                # functools.lru_cache / cache: the SAME object comes back for equal arguments - a caller that mutates
                # it changes what every later caller gets, and the model must show that
                store = fn.__dict__.setdefault("_sa_memo", {})
                try:
                    mkey = (args, tuple(sorted(kwargs.items())))
                    hash(mkey)
                except TypeError:
                    raise _ModelRaise("TypeError: unhashable argument to a cached function") from None
                if mkey not in store:
                    store[mkey] = plain(*args, **kwargs)
                return store[mkey]
            return plain(*args, **kwargs)

        def plain(*args: Any, **kwargs: Any) -> Any:
            if len(args) > len(params) and vararg is None:
                raise Unsupported(f"{self.where}: arity mismatch calling {fn.name}")
            local = dict(zip(params, args))
            if vararg is not None:
                local[vararg] = tuple(args[len(params):])
            for k, v in kwargs.items():
                if k not in params and k not in kwonly:
                    raise Unsupported(f"{self.where}: unknown keyword {k} calling {fn.name}")
                local[k] = v
            fnlocals = getattr(fn, "_sa_locals", None)
            if fnlocals is None:
                declared = {x for g in _own_nodes(fn) if isinstance(g, (ast.Global, ast.Nonlocal)) for x in g.names}
                fnlocals = frozenset(x.id for x in _own_nodes(fn) if isinstance(x, ast.Name) and isinstance(x.ctx, (ast.Store, ast.Del))) - declared
                fn._sa_locals = fnlocals  # type: ignore[attr-defined]
            # a name assigned in the function is local to it: an enclosing binding is not visible
            inherited = dict(outer)
            if extra:
                inherited.update(extra)
            for k in fnlocals:
                inherited.pop(k, None)
            inherited.update(local)
            if not isinstance(fn, ast.Lambda) and "__nested__" not in inherited:
                owner = inherited.get("__owner__")
                inherited["__fn__"] = f"{owner}.{fn.name}" if owner else fn.name
            sub = Ev(inherited, self.where, self.methods, self.max_steps)
            sub.env["__fnlocals__"] = fnlocals
            bound = set(local)
            for name, d in zip(params[len(params) - len(defaults):], defaults):
                if name not in bound:
                    sub.env[name] = sub.ev(d)
                    bound.add(name)
            for a, d in zip(fn.args.kwonlyargs, fn.args.kw_defaults):
                if a.arg not in bound and d is not None:
                    sub.env[a.arg] = sub.ev(d)
                    bound.add(a.arg)
            missing = [q for q in params + kwonly if q not in bound]
            if missing:
                raise Unsupported(f"{self.where}: missing arguments {missing} calling {fn.name}")
            if is_ctx:
                body = [x for x in fn.body if not (isinstance(x, ast.Expr) and isinstance(x.value, ast.Constant))]
                ys = [i for i, x in enumerate(body) if isinstance(x, ast.Expr) and isinstance(x.value, ast.Yield)]
                if len(ys) != 1 or sum(1 for x in _own_nodes(fn) if isinstance(x, (ast.Yield, ast.YieldFrom))) != 1:
                    raise Unsupported(f"{self.where}: context manager {fn.name} without a single top-level yield")
                return CtxManager(sub, body[: ys[0]], body[ys[0]].value.value, body[ys[0] + 1:])
            sub.steps = self.steps
            try:
                sub.run(fn.body)
                ret = None
            except _Return as r:
                ret = r.value
            finally:
                self.steps = sub.steps
            return list(sub.yielded) if is_gen else ret

        return call

    def run_function(self, body: list[ast.stmt]) -> Any:
        try:
            self.run(body)
        except _Return as r:
            return r.value
        return None


class CtxManager:
    """A @contextmanager generator function, split at its (single, top-level) yield."""

    def __init__(self, ev: "Ev", pre: list, yielded: ast.expr | None, post: list):
        self.ev, self.pre, self.yielded, self.post = ev, pre, yielded, post

    def enter(self) -> Any:
        self.ev.run(self.pre)
        return self.ev.ev(self.yielded) if self.yielded is not None else None

    def exit(self) -> None:
        self.ev.run(self.post)


class ModelIter:
    """iter(x) on the model: consumed lazily and resumable, as Python's iterators are."""

    def __init__(self, items: list):
        self._it = iter(list(items))

    def __iter__(self) -> "ModelIter":
        return self

    def __next__(self) -> Any:
        return next(self._it)


class NullCtx(CtxManager):
    """contextlib.nullcontext(value): entering returns the value, leaving does nothing."""

    def __init__(self, value: Any = None):
        self.value = value

    def enter(self) -> Any:
        return self.value

    def exit(self) -> None:
        return None


class _Super:
    def __init__(self, obj: "Obj", owner: str):
        self.obj, self.owner = obj, owner


class _Bound:
    """A method of a model object taken as a value."""

    def __init__(self, obj: "Obj", fn: Callable):
        self.obj, self.fn = obj, fn

    def __call__(self, *a: Any, **k: Any) -> Any:
        return self.fn(self.obj, *a, **k)


def _own_nodes(fn: ast.AST):
    """Nodes of ``fn`` excluding nested function / lambda / class bodies."""
    stack = list(ast.iter_child_nodes(fn))
    while stack:
        n = stack.pop()
        yield n
        if isinstance(n, (ast.FunctionDef, ast.AsyncFunctionDef, ast.Lambda, ast.ClassDef)):
            continue
        stack.extend(ast.iter_child_nodes(n))


class _ModelRaise(Exception):
    """The fragment raises on this model point (e.g. IndexError)."""


ModelRaise = _ModelRaise
_MISSING = object()


def _load(t: ast.expr) -> ast.expr:
    n = ast.parse(ast.unparse(t), mode="eval").body
    return n
