"""E1 — template extraction.

``generate()`` methods are straight-line builders: ``gen.writeln(f"...")``,
``with gen.block():``, ``x = gen.new_temp(p)``, ``x = gen.constant(p, expr)``,
``child.generate(gen, m, p)``, plus generator-time ``if``/``for``.  This module
walks the AST of such a function with an abstract environment (no repository code
runs) and reconstructs the *code skeleton(s)* it can emit:

* the Builder is modelled concretely (line list, indent, counter) — that model is
  itself checked against ``codegen/builder.py`` by :func:`check_builder_contract`;
* ``self.<attr>`` comes from a parameter binding chosen by the caller (modifier
  masks, rule-name classes, repetition bounds, number of children, tag or no tag);
  attributes without a binding are *opaque*;
* a child ``generate`` call becomes a hole statement ``M = CHILD_k(state, L)``;
* generator-time branches on opaque values fork variants (decision replay);
* every f-string hole is classified (identifier / repr literal / int / raw str) for
  the template-hygiene rule of C01.

A construct the walker does not know raises :class:`AnalysisError` (exit 2).
"""

from __future__ import annotations

import ast
import re
from dataclasses import dataclass, field

from .core import AnalysisError
from .repo import Repo


BUILDER_REL = "src/pest/grammar/codegen/builder.py"

_LIST_METHODS = ("append", "insert", "extend", "pop", "remove", "reverse", "clear", "index", "count", "copy")


class Opaque:
    """A value unknown at analysis time (a runtime property of the grammar)."""

    def __init__(self, src: str, typ: str | None = None):
        self.src = src
        self.typ = typ

    def __repr__(self) -> str:
        return f"Opaque({self.src})"


class Obj:
    """Abstract object: class name (for MRO / isinstance) + known attributes."""

    def __init__(self, cls: str | None, attrs: dict | None = None, label: str = "obj"):
        self.cls = cls
        self.attrs = attrs or {}
        self.label = label

    def __repr__(self) -> str:
        return f"Obj({self.cls},{self.label})"


class Child(Obj):
    def __init__(self, k: int, cls: str | None = None):
        super().__init__(cls, {}, f"child{k}")
        self.k = k


class Gen:
    """Concrete model of codegen.builder.Builder."""

    def __init__(self, rules: object = None):
        self.lines: list[str] = []
        self.indent = 0
        self.counter = 0
        self.rule_constants: list[tuple[str, str]] = []
        self.module_constants: list[tuple[str, str]] = []
        self.rules = rules


class _Return(Exception):
    def __init__(self, value: object):
        self.value = value


class _Break(Exception):
    pass


class _LocalFn:
    """A function defined inside a generator function, with the environment it was defined in."""

    def __init__(self, fn: ast.FunctionDef, env: dict):
        self.fn = fn
        self.env = env


class _Continue(Exception):
    pass


class _NeedDecision(Exception):
    pass


@dataclass
class Hole:
    expr: str  # source of the hole expression
    kind: str  # 'ident' | 'repr' | 'int' | 'none' | 'text' | 'raw-str' | 'raw-unknown'
    line: str  # the template line it sits in (after rendering)
    where: str  # construct


@dataclass
class Skeleton:
    construct: str  # file::Class.generate
    params: dict
    decisions: list[tuple[str, bool]]
    lines: list[str]
    constants: list[tuple[str, str]]  # (name, expr text) rule-scope constants
    holes: list[Hole] = field(default_factory=list)
    children: list[tuple[int, str, str]] = field(default_factory=list)  # (k, matched, pairs)
    returned: object = None

    @property
    def source(self) -> str:
        return "\n".join(self.lines) if self.lines else "pass"

    def label(self) -> str:
        ps = ",".join(f"{k}={_short(v)}" for k, v in self.params.items() if not k.startswith("_"))
        ds = ",".join(f"{c}={'T' if d else 'F'}" for c, d in self.decisions)
        return f"{self.construct}[{ps}]" + (f"{{{ds}}}" if ds else "")


def _short(v: object) -> str:
    if isinstance(v, list):
        return f"[{len(v)}]"
    if isinstance(v, Obj):
        return v.label
    return repr(v)


IDENT_SOURCES = {
    # hole expressions whose values are grammar identifiers (rule names): they match
    # RE_IDENTIFIER (checked by C10's token-language rules), so they may be spliced
    # into identifier position.
    "self.value": ("Identifier",),
    "self.name": ("Rule", "GrammarRule", "BuiltInRule"),
    "rule.name": None,
    "name": None,
    "func_name": None,
}


class GenWalker:
    """Walk one generate-like function with a decision vector."""

    def __init__(self, repo: Repo, rel: str, cls: str | None, fn: ast.FunctionDef, params: dict, decisions: list[bool]):
        self.repo = repo
        self.rel = rel
        self.cls = cls
        self.fn = fn
        self.params = params
        self.decisions = list(decisions)
        self.taken: list[tuple[str, bool]] = []
        self.known: dict[int, bool] = {}
        self.holes: list[Hole] = []
        self.children: list[tuple[int, str, str]] = []
        self.modconst = repo.mod(rel).constants()
        self.construct = f"{rel}::{cls + '.' if cls else ''}{fn.name}"
        self.depth = 0

    # ---------------------------------------------------------------- decisions
    def decide(self, key: str, val: object) -> bool:
        if isinstance(val, Opaque) and id(val) in self.known:
            return self.known[id(val)]
        if isinstance(val, Opaque) and val.src:
            key = val.src
        if len(self.taken) < len(self.decisions):
            d = self.decisions[len(self.taken)]
        else:
            d = True
            self.pending = True
        self.taken.append((key, d))
        if isinstance(val, Opaque):
            self.known[id(val)] = d
            self._keep = getattr(self, "_keep", [])
            self._keep.append(val)  # keep alive so id() stays unique
        return d

    def truth(self, val: object, key: str) -> bool:
        if isinstance(val, Opaque):
            self._refuse_closed(key)
            return self.decide(key, val)
        if isinstance(val, (Obj, Gen)):
            return True
        return bool(val)

    def _refuse_closed(self, key: str) -> None:
        """Exploring both outcomes of a condition is sound only where the condition is genuinely open at
        generation time (the class of a child, another rule of the table).  A condition over nothing but the
        node's own bound attributes and module names has ONE value for this binding; if the model cannot
        compute it, following both would invent a variant the generator never emits - and report it."""
        try:
            tree = ast.parse(key, mode="eval")
        except SyntaxError:
            return
        bound = {k for k in self.params if not isinstance(self.params[k], (Child, list))} | {"tag"}
        for n in ast.walk(tree):
            if isinstance(n, ast.Name) and n.id != "self" and n.id not in self.modconst and n.id not in ("True", "False", "None", "bool", "len", "not"):
                if n.id in self.repo.mod(self._cur_rel).functions() or n.id[:1].isupper():
                    continue  # a module-level name (class, constant, function)
                return  # a local / a parameter such as rules, gen, branch: open
            if isinstance(n, ast.Call) and isinstance(n.func, ast.Name) and n.func.id == "isinstance":
                return
            if isinstance(n, ast.Attribute) and isinstance(n.value, ast.Name) and n.value.id == "self" and n.attr not in bound:
                return  # self.expression, self.expressions, ...: a child
        if "self." not in key:
            return
        raise AnalysisError(f"{self.construct}: the generator branches on `{key}`, which this binding determines but the model cannot evaluate (following both outcomes would invent a variant that is never emitted)")

    # ---------------------------------------------------------------- expressions
    def ev(self, node: ast.AST, env: dict) -> object:  # noqa: PLR0911, PLR0912
        if isinstance(node, ast.Constant):
            return node.value
        if isinstance(node, ast.Name):
            if node.id in env:
                return env[node.id]
            if node.id in self.modconst:
                return self.modconst[node.id]
            if node.id in ("True", "False", "None"):
                return {"True": True, "False": False, "None": None}[node.id]
            lazy = self.module_assign(node.id)
            if lazy is not None:
                return lazy
            return Opaque(node.id)
        if isinstance(node, ast.Attribute):
            base = self.ev(node.value, env)
            return self.getattr(base, node.attr, ast.unparse(node))
        if isinstance(node, ast.JoinedStr):
            return self.fstring(node, env)
        if isinstance(node, ast.BinOp):
            l, r = self.ev(node.left, env), self.ev(node.right, env)
            if isinstance(l, Opaque) or isinstance(r, Opaque) or isinstance(l, Obj) or isinstance(r, Obj):
                typ = "str" if isinstance(l, str) or isinstance(r, str) else None
                if isinstance(l, int) or isinstance(r, int):
                    typ = "int"
                return Opaque(ast.unparse(node), typ)
            try:
                return _BINOPS[type(node.op)](l, r)
            except (KeyError, TypeError) as e:
                raise AnalysisError(f"{self.construct}: cannot fold {ast.unparse(node)}: {e}") from e
        if isinstance(node, ast.UnaryOp):
            v = self.ev(node.operand, env)
            if isinstance(node.op, ast.Not):
                return not self.truth(v, ast.unparse(node.operand))
            if isinstance(v, Opaque):
                return Opaque(ast.unparse(node), v.typ)
            if isinstance(node.op, ast.USub):
                return -v  # type: ignore[operator]
            raise AnalysisError(f"{self.construct}: unary {ast.unparse(node)}")
        if isinstance(node, ast.BoolOp):
            last: object = None
            for v in node.values:
                last = self.ev(v, env)
                t = self.truth(last, ast.unparse(v))
                if isinstance(node.op, ast.And) and not t:
                    return last if not isinstance(last, Opaque) else False
                if isinstance(node.op, ast.Or) and t:
                    return last if not isinstance(last, Opaque) else True
            return last if not isinstance(last, Opaque) else isinstance(node.op, ast.And)
        if isinstance(node, ast.Compare):
            return self.compare(node, env)
        if isinstance(node, ast.IfExp):
            t = self.truth(self.ev(node.test, env), ast.unparse(node.test))
            return self.ev(node.body if t else node.orelse, env)
        if isinstance(node, ast.Call):
            return self.call(node, env)
        if isinstance(node, (ast.Tuple, ast.List)):
            vals = [self.ev(e, env) for e in node.elts]
            return tuple(vals) if isinstance(node, ast.Tuple) else vals
        if isinstance(node, ast.Subscript):
            base = self.ev(node.value, env)
            if isinstance(node.slice, ast.Slice) and isinstance(base, (list, tuple, str)):
                lo = self.ev(node.slice.lower, env) if node.slice.lower is not None else None
                hi = self.ev(node.slice.upper, env) if node.slice.upper is not None else None
                st_ = self.ev(node.slice.step, env) if node.slice.step is not None else None
                if all(x is None or (isinstance(x, int) and not isinstance(x, bool)) for x in (lo, hi, st_)):
                    return base[lo:hi:st_]
            idx = self.ev(node.slice, env) if not isinstance(node.slice, ast.Slice) else None
            if isinstance(base, (list, tuple, str)) and isinstance(idx, int):
                try:
                    return base[idx]
                except IndexError:
                    return Opaque(ast.unparse(node))
            if isinstance(base, _Rules):
                return base.get(idx)
            return Opaque(ast.unparse(node))
        if isinstance(node, ast.Dict):
            return Opaque(ast.unparse(node))
        if isinstance(node, (ast.GeneratorExp, ast.ListComp)):
            return self.comprehension(node, env)
        raise AnalysisError(f"{self.construct}: unsupported expression {type(node).__name__}: {ast.unparse(node)[:80]}")

    def module_assign(self, name: str) -> object:
        """Module-level ``NAME = <f-string>`` (PRELUDE) evaluated on demand."""
        for n in self.repo.mod(self._cur_rel).tree.body:
            if isinstance(n, ast.Assign) and len(n.targets) == 1 and isinstance(n.targets[0], ast.Name) and n.targets[0].id == name:
                if isinstance(n.value, ast.JoinedStr):
                    return self.ev(n.value, {})
        return None

    def comprehension(self, node: ast.GeneratorExp | ast.ListComp, env: dict) -> object:
        if len(node.generators) != 1:
            return Opaque(ast.unparse(node))
        g = node.generators[0]
        it = self.ev(g.iter, env)
        if not isinstance(it, (list, tuple)):
            return Opaque(ast.unparse(node))
        out = []
        for item in it:
            local = dict(env)
            self.bind(g.target, item, local)
            keep = True
            for cond in g.ifs:
                if not self.truth(self.ev(cond, local), ast.unparse(cond)):
                    keep = False
                    break
            if keep:
                out.append(self.ev(node.elt, local))
        return out

    def getattr(self, base: object, attr: str, src: str) -> object:
        if isinstance(base, Gen):
            if attr in ("lines", "rule_constants", "module_constants", "rules", "indent", "counter"):
                return getattr(base, attr)
            return _Bound(base, attr)
        if isinstance(base, Obj):
            if attr in base.attrs:
                return base.attrs[attr]
            if base.cls:
                found, val = self.repo.class_const(base.cls, attr)  # `removes = True` in the class body (through the MRO)
                if found and (isinstance(val, (bool, int, str)) or val is None or (isinstance(val, tuple) and all(isinstance(x, (bool, int, str)) for x in val))):
                    return val
            if attr == "generate":
                return _Bound(base, attr)
            if base.cls and self.repo.resolve_method(base.cls, attr):
                r = self.repo.resolve_method(base.cls, attr)
                if any(ast.unparse(d).split(".")[-1] in ("property", "cached_property") for d in r[2].decorator_list) and not any(isinstance(x, (ast.Yield, ast.YieldFrom)) for x in ast.walk(r[2])):
                    # a property of the node: its getter over the node's own attributes (followed when the model can)
                    try:
                        return self.inline(r[0], r[1], r[2], [base], {})
                    except AnalysisError:
                        return Opaque(src, _ATTR_TYPES.get(attr))
                return _Bound(base, attr)
            return Opaque(src, _ATTR_TYPES.get(attr))
        if isinstance(base, _Rules):
            return _Bound(base, attr)
        if isinstance(base, _Super):
            return _Bound(base, attr)
        if isinstance(base, Opaque):
            return Opaque(src, _ATTR_TYPES.get(attr))
        if isinstance(base, str) and attr in ("upper", "lower", "replace", "join", "format"):
            return _Bound(base, attr)
        if isinstance(base, (list, tuple)) and attr in _LIST_METHODS:
            return _Bound(base, attr)
        if isinstance(base, (list, tuple)):
            # a method of a concrete list that this walk does not model: skipping it would lose what it does to the
            # lines the template goes on to write
            raise AnalysisError(f"{self.construct}: list method {src} is not modelled")
        return Opaque(src)

    def compare(self, node: ast.Compare, env: dict) -> object:
        left = self.ev(node.left, env)
        result: object = True
        for op, rn in zip(node.ops, node.comparators, strict=True):
            right = self.ev(rn, env)
            if isinstance(op, (ast.In, ast.NotIn)) and isinstance(right, _Rules):
                r = right.contains(left)
                if isinstance(r, Opaque):
                    return r
                result = r if isinstance(op, ast.In) else not r
            elif isinstance(op, (ast.Is, ast.IsNot)) and (left is None or right is None) and any(isinstance(x, Obj) or (isinstance(x, Opaque) and getattr(x, "typ", None) in ("str", "int", "bool")) for x in (left, right)):
                # str(...) / len(...) / a node of the expression tree is never None, whatever its value
                result = isinstance(op, ast.IsNot)
            elif any(isinstance(x, (Opaque, Obj)) for x in (left, right)) or (
                isinstance(right, (list, tuple)) and any(isinstance(x, Opaque) for x in right)
            ):
                return Opaque(ast.unparse(node), "bool")
            else:
                try:
                    result = _CMPOPS[type(op)](left, right)
                except (KeyError, TypeError) as e:
                    raise AnalysisError(f"{self.construct}: cannot fold {ast.unparse(node)}") from e
            if not result:
                return False
            left = right
        return result

    def fstring(self, node: ast.JoinedStr, env: dict) -> str:
        out: list[str] = []
        pend: list[tuple[str, str]] = []
        for v in node.values:
            if isinstance(v, ast.Constant):
                out.append(str(v.value))
                continue
            assert isinstance(v, ast.FormattedValue)
            src = ast.unparse(v.value)
            val = self.ev(v.value, env)
            if v.conversion == ord("r"):
                if isinstance(val, (Opaque, Obj)):
                    txt = "'<" + re.sub(r"[^A-Za-z0-9_.()\[\]]", "_", src) + ">'"
                else:
                    txt = repr(val)
                pend.append((src, "repr"))
            elif isinstance(val, Ident):
                txt = str(val)
                pend.append((src, "ident"))
            elif isinstance(val, _Text):
                txt = str(val)
                pend.append((src, "text"))
                pend.extend(getattr(val, "holes", []))
            elif isinstance(val, bool) or val is None:
                txt = str(val)
                pend.append((src, "none"))
            elif isinstance(val, int):
                txt = str(val)
                pend.append((src, "int"))
            elif isinstance(val, Param):
                txt = str(val)
                pend.append((src, "ident" if self.ident_source(src) else "raw-str"))
            elif isinstance(val, str):
                txt = val  # the generator's own literal text
                pend.append((src, "text"))
            elif isinstance(val, Opaque):
                if val.typ == "int":
                    txt = "__h_" + re.sub(r"[^A-Za-z0-9]", "_", src) + "__"
                    pend.append((src, "int"))
                elif self.ident_source(src):
                    txt = "X"
                    pend.append((src, "ident"))
                else:
                    txt = "__h_" + re.sub(r"[^A-Za-z0-9]", "_", src) + "__"
                    pend.append((src, "raw-str" if val.typ == "str" else "raw-unknown"))
            else:
                raise AnalysisError(f"{self.construct}: f-string hole {src} has unsupported value {val!r}")
            out.append(txt)
        text = _Text("".join(out))
        text.holes = pend  # type: ignore[attr-defined]
        return text

    def ident_source(self, src: str) -> bool:
        for suffix in (".upper()", ".lower()"):
            if src.endswith(suffix):
                src = src[: -len(suffix)]
        if src not in IDENT_SOURCES:
            return False
        allowed = IDENT_SOURCES[src]
        if allowed is None:
            return True
        cur = self._cur_cls
        return cur is not None and any(self.repo.is_subclass(cur, a) for a in allowed)

    # ---------------------------------------------------------------- calls
    def call(self, node: ast.Call, env: dict) -> object:  # noqa: PLR0911, PLR0912
        fsrc = ast.unparse(node.func)
        if fsrc == "super" and not node.args:
            return _Super(env.get("self"), self._cur_cls)
        if fsrc in ("nullcontext", "contextlib.nullcontext") and not node.args and fsrc.split(".")[0] not in env:
            return _NullCtx()  # `guard = nullcontext() if first else gen.block()`: a with that changes nothing
        f = self.ev(node.func, env) if not isinstance(node.func, ast.Name) else env.get(node.func.id, fsrc)
        args = [self.ev(a, env) for a in node.args]
        kwargs = {k.arg: self.ev(k.value, env) for k in node.keywords if k.arg}

        if isinstance(f, _LocalFn):
            if self.depth > 6:
                raise AnalysisError(f"{self.construct}: local helper {f.fn.name} nested too deeply")
            local = dict(f.env)  # reads of enclosing names see the values at the call
            names = [a.arg for a in f.fn.args.args]
            for nm, v in zip(names, args, strict=False):
                local[nm] = v
            local.update(kwargs)
            for nm, d in zip(names[len(names) - len(f.fn.args.defaults):], f.fn.args.defaults):
                if nm not in local or (nm not in kwargs and names.index(nm) >= len(args)):
                    local[nm] = self.ev(d, f.env)
            self.depth += 1
            try:
                self.block(f.fn.body, local)
                return None
            except _Return as r:
                return r.value
            finally:
                self.depth -= 1
        if isinstance(f, _Bound):
            base, attr = f.base, f.attr
            if isinstance(base, Gen):
                return self.gen_call(base, attr, args, kwargs, node)
            if isinstance(base, _Rules):
                if attr == "get":
                    return base.get(args[0])
                if attr == "items":
                    return base.items()
                return Opaque(ast.unparse(node))
            if isinstance(base, str):
                if attr == "join" and args and isinstance(args[0], (list, tuple)) and all(isinstance(x, str) for x in args[0]):
                    t = _Text(str(base).join(str(x) for x in args[0]))
                    t.holes = [h for x in args[0] for h in getattr(x, "holes", [])]  # type: ignore[attr-defined]
                    return t
                if any(isinstance(a, (Opaque, Obj)) for a in args) or (args and isinstance(args[0], (list, tuple))):
                    return Opaque(ast.unparse(node), "str")
                res = getattr(base, attr)(*args)
                if isinstance(res, str) and (isinstance(base, Param) or any(isinstance(a, Param) for a in args)):
                    return Param(res)
                return res
            if isinstance(base, (list, tuple)) and attr in _LIST_METHODS:
                if kwargs:
                    raise AnalysisError(f"{self.construct}: list method with keyword arguments: {ast.unparse(node)[:60]}")
                try:
                    return getattr(base, attr)(*args)
                except (AttributeError, IndexError, ValueError, TypeError) as err:
                    raise AnalysisError(f"{self.construct}: {ast.unparse(node)[:60]}: {type(err).__name__}") from err
            if attr == "generate":
                return self.generate_call(base, args, node)
            if isinstance(base, Obj) and base.cls and (base is env.get("self") or getattr(base, "record", False)) and attr not in ("build_optimized_pattern", "tag_str", "__str__", "_pattern", "children", "with_children"):
                # a helper method of the node itself: one that is handed the Builder emits code and must be followed;
                # a pure one (returning what the template branches on) is followed when the model can
                r = self.repo.resolve_method(base.cls, attr)
                if r is not None:
                    has_gen = any(isinstance(x, Gen) for x in args) or any(isinstance(v, Gen) for v in kwargs.values())
                    decos = {ast.unparse(d).split(".")[-1] for d in r[2].decorator_list}
                    recv = [] if "staticmethod" in decos else [base]  # (a classmethod's cls is not modelled: it falls through)
                    if "classmethod" in decos:
                        if has_gen:
                            raise AnalysisError(f"{self.construct}: the class method {attr}() is handed the Builder but is not followed")
                    elif has_gen:
                        return self.inline(r[0], r[1], r[2], [*recv, *args], kwargs)
                    else:
                        try:
                            return self.inline(r[0], r[1], r[2], [*recv, *args], kwargs)
                        except AnalysisError:
                            pass
            if isinstance(base, (Obj, _Super)):
                return Opaque(ast.unparse(node), "str" if attr in ("build_optimized_pattern", "tag_str") else None)
        if isinstance(f, str) and isinstance(node.func, ast.Name):
            rec = self._record_class(f)
            if rec is not None:
                # a small record class of the package (NamedTuple / dataclass without __init__): its fields, by name
                fields = rec
                if len(args) > len(fields) or any(k not in fields for k in kwargs):
                    raise AnalysisError(f"{self.construct}: {f}() takes {fields}")
                attrs = dict(zip(fields, args))
                attrs.update(kwargs)
                if len(attrs) == len(fields):
                    o = Obj(f, attrs, f"record {f}")
                    o.record = True  # type: ignore[attr-defined]
                    return o
        if isinstance(f, str) and f in self.repo.mod(self._cur_rel).functions() and f not in ("version",):
            fn = self.repo.mod(self._cur_rel).functions()[f]
            return self.inline(self._cur_rel, None, fn, args, kwargs)
        if isinstance(f, str) and isinstance(node.func, ast.Name):
            # a helper imported from another module of the package (`from ..expression import emit_regex_match`)
            found = self._imported_function(self._cur_rel, f)
            if found is not None:
                return self.inline(found[0], None, found[1], args, kwargs)
            if any(isinstance(x, Gen) for x in args) or any(isinstance(v, Gen) for v in kwargs.values()):
                # it is handed the Builder: it emits code this walk would not see
                raise AnalysisError(f"{self.construct}: the helper {f}() is handed the Builder but cannot be followed (not a function of the package)")
        if isinstance(f, str):
            if f == "Builder":
                return Gen(args[0] if args else kwargs.get("rules"))
            if f == "len":
                a = args[0]
                if isinstance(a, (str, list, tuple)):
                    return len(a)
                return Opaque(ast.unparse(node), "int")
            if f == "repr":
                a = args[0]
                if isinstance(a, (Opaque, Obj)):
                    t = _Text("'<" + re.sub(r"[^A-Za-z0-9_.()\[\]]", "_", ast.unparse(node.args[0])) + ">'")
                    return t
                return _Text(repr(a))
            if f == "str":
                a = args[0]
                if isinstance(a, (Opaque, Obj)):
                    return Opaque(ast.unparse(node), "str")
                return str(a)
            if f == "bool":
                a = args[0] if args else False
                if isinstance(a, (Opaque, Obj)):
                    return Opaque(ast.unparse(node), "bool")
                return bool(a)
            if f == "isinstance":
                a, c = args[0], node.args[1]
                names = [ast.unparse(e) for e in c.elts] if isinstance(c, ast.Tuple) else [ast.unparse(c)]
                if isinstance(a, Obj) and a.cls:
                    return any(self.repo.is_subclass(a.cls, n) for n in names)
                if isinstance(a, (str, int)) or a is None:
                    return False
                return Opaque(ast.unparse(node), "bool")
            if f == "enumerate":
                a = args[0]
                if isinstance(a, list):
                    return list(enumerate(a))
                return Opaque(ast.unparse(node))
            if f in ("version",):
                return Opaque(ast.unparse(node), "str")
        return Opaque(ast.unparse(node), "str" if fsrc.startswith("re.escape") else None)

    def _record_class(self, name: str) -> list[str] | None:
        """The field names of a NamedTuple / dataclass of the package called `name` (None for anything else)."""
        ent = self.repo.class_table.get(name)
        if not ent:
            return None
        c = ent[1]
        is_nt = any(ast.unparse(b).split(".")[-1] == "NamedTuple" for b in c.bases)
        is_dc = any(ast.unparse(d).split("(")[0].split(".")[-1] == "dataclass" for d in c.decorator_list)
        if not (is_nt or is_dc) or any(isinstance(n, ast.FunctionDef) and n.name == "__init__" for n in c.body):
            return None
        if self.repo.is_subclass(name, "Expression"):
            return None
        return [n.target.id for n in c.body if isinstance(n, ast.AnnAssign) and isinstance(n.target, ast.Name)]

    def gen_call(self, g: Gen, attr: str, args: list, kwargs: dict, node: ast.Call) -> object:
        if attr == "writeln":
            text = args[0] if args else ""
            if isinstance(text, (Opaque, Obj)):
                raise AnalysisError(f"{self.construct}: writeln of a non-template value {ast.unparse(node)}")
            text = text if isinstance(text, str) else str(text)
            for sub in (text.split("\n") if "\n" in text else [text]):
                g.lines.append("    " * g.indent + sub if sub else sub)
            for src, kind in getattr(text, "holes", []):
                self.holes.append(Hole(src, kind, str(text), self.construct))
            return None
        if attr == "block":
            return _Block(g)
        if attr == "new_temp":
            g.counter += 1
            prefix = args[0] if args else kwargs.get("prefix", "_tmp")
            return Ident(f"{prefix}{g.counter}")
        if attr == "constant":
            g.counter += 1
            name = f"{args[0]}{g.counter}"
            expr = args[1]
            if isinstance(expr, Opaque):
                expr = "__h_" + re.sub(r"[^A-Za-z0-9]", "_", expr.src) + "__"
            for src, kind in getattr(expr, "holes", []):
                self.holes.append(Hole(src, kind, str(expr), self.construct))
            scope = kwargs.get("rule_scope", True)
            (g.rule_constants if scope else g.module_constants).append((name, str(expr)))
            return Ident(name)
        if attr == "render":
            return _Text("\n".join(g.lines))
        # a helper defined on the repository's Builder: inline it (context managers are split at their yield)
        helper = self.repo.method_or_none(BUILDER_REL, "Builder", attr)
        if helper is None:
            raise AnalysisError(f"{self.construct}: unknown Builder method {attr}")
        names = [a.arg for a in helper.args.args]
        defaults = helper.args.defaults
        env: dict = {names[0]: g}
        for n_, v in zip(names[1:], args, strict=False):
            env[n_] = v
        for k, v in kwargs.items():
            env[k] = v
        for n_, d in zip(names[len(names) - len(defaults):], defaults, strict=False):
            if n_ not in env:
                env[n_] = self.ev(d, {})
        if any(ast.unparse(d).split(".")[-1] == "contextmanager" for d in helper.decorator_list):
            ys = [i for i, st in enumerate(helper.body) if isinstance(st, ast.Expr) and isinstance(st.value, ast.Yield)]
            nested = [n for n in ast.walk(helper) if isinstance(n, (ast.Yield, ast.YieldFrom))]
            if len(ys) != 1 or len(nested) != 1:
                raise AnalysisError(f"{self.construct}: Builder.{attr} is a context manager whose yield is not a single top-level statement")
            return _CtxHelper(helper.body[: ys[0]], helper.body[ys[0] + 1 :], env, BUILDER_REL)
        return self.inline(BUILDER_REL, "Builder", helper, [env[n_] for n_ in names if n_ in env])

    def generate_call(self, base: object, args: list, node: ast.Call) -> object:
        if len(args) != 3 or not isinstance(args[0], Gen):
            raise AnalysisError(f"{self.construct}: generate() call with unexpected arguments: {ast.unparse(node)}")
        g, m, p = args
        if isinstance(base, Child):
            if not isinstance(m, str) or not isinstance(p, str):
                raise AnalysisError(f"{self.construct}: child generate with non-name arguments")
            g.lines.append("    " * g.indent + f"{m} = CHILD_{base.k}(state, {p})")
            self.children.append((base.k, m, p))
            return None
        if isinstance(base, _Super):
            target = None
            mro = self.repo.mro(base.cls) if base.cls else []
            for c in mro[1:]:
                ent = self.repo.class_table.get(c)
                if ent and any(isinstance(n, ast.FunctionDef) and n.name == "generate" for n in ent[1].body):
                    target = (ent[0], c)
                    break
            if not target:
                raise AnalysisError(f"{self.construct}: super().generate unresolved")
            fn = self.repo.func(target[0], f"{target[1]}.generate")
            return self.inline(target[0], target[1], fn, [base.obj, g, m, p])
        if isinstance(base, Obj) and base.cls:
            r = self.repo.resolve_method(base.cls, "generate")
            if not r:
                raise AnalysisError(f"{self.construct}: {base.cls}.generate unresolved")
            return self.inline(r[0], r[1], r[2], [base, g, m, p])
        raise AnalysisError(f"{self.construct}: generate() on unknown receiver {ast.unparse(node)}")

    def inline(self, rel: str, cls: str | None, fn: ast.FunctionDef, args: list, kwargs: dict | None = None) -> object:
        if self.depth > 5:
            raise AnalysisError(f"{self.construct}: inlining too deep")
        env: dict = {}
        names = [a.arg for a in fn.args.args]
        for n, v in zip(names, args, strict=False):
            env[n] = v
        for k, v in (kwargs or {}).items():
            env[k] = v
        saved = (self._cur_cls, self.modconst, self._cur_rel)
        self._cur_cls = cls
        self._cur_rel = rel
        self.modconst = self.repo.mod(rel).constants()
        # parameters not given take their defaults (a default left unbound would look open and fork the template)
        for n, d in zip(names[len(names) - len(fn.args.defaults):], fn.args.defaults):
            if n not in env:
                env[n] = self.ev(d, {})
        for a, d in zip(fn.args.kwonlyargs, fn.args.kw_defaults):
            if a.arg not in env and d is not None:
                env[a.arg] = self.ev(d, {})
        self.depth += 1
        try:
            self.block(fn.body, env)
            return None
        except _Return as r:
            return r.value
        finally:
            self.depth -= 1
            self._cur_cls, self.modconst, self._cur_rel = saved

    def _imported_function(self, rel: str, name: str) -> tuple[str, ast.FunctionDef] | None:
        imp = self.repo.imports(rel).get(name)
        if imp is None:
            return None
        modtext, orig = imp
        tail = modtext.lstrip(".").replace(".", "/")
        for other in self.repo.py_files:
            if other == rel:
                continue
            stem = other[:-3] if other.endswith(".py") else other
            if tail and not (stem.endswith("/" + tail) or stem.endswith("/" + tail + "/__init__") or stem == tail):
                continue
            fns = self.repo.mod(other).functions()
            if orig in fns:
                return other, fns[orig]
        return None

    def _run_helper(self, stmts: list[ast.stmt], c: "_CtxHelper") -> None:
        saved = (self._cur_cls, self.modconst, self._cur_rel)
        self._cur_cls, self._cur_rel = "Builder", c.rel
        self.modconst = self.repo.mod(c.rel).constants()
        self.depth += 1
        try:
            self.block(stmts, c.env)
        finally:
            self.depth -= 1
            self._cur_cls, self.modconst, self._cur_rel = saved

    # ---------------------------------------------------------------- statements
    def block(self, stmts: list[ast.stmt], env: dict) -> None:
        for s in stmts:
            self.stmt(s, env)

    def stmt(self, s: ast.stmt, env: dict) -> None:  # noqa: PLR0912
        if isinstance(s, ast.Expr):
            if isinstance(s.value, ast.Constant):
                return
            self.ev(s.value, env)
            return
        if isinstance(s, ast.Assign):
            v = self.ev(s.value, env)
            for t in s.targets:
                self.bind(t, v, env)
            return
        if isinstance(s, ast.AnnAssign):
            if s.value is not None:
                self.bind(s.target, self.ev(s.value, env), env)
            return
        if isinstance(s, ast.If):
            t = self.truth(self.ev(s.test, env), ast.unparse(s.test))
            self.block(s.body if t else s.orelse, env)
            return
        if isinstance(s, ast.With):
            entered: list = []
            try:
                for i in s.items:
                    c = self.ev(i.context_expr, env)
                    if isinstance(c, _Block):
                        c.gen.indent += 1
                    elif isinstance(c, _NullCtx):
                        continue
                    elif isinstance(c, _CtxHelper):
                        self._run_helper(c.pre, c)
                    else:
                        raise AnalysisError(f"{self.construct}: unsupported with: {ast.unparse(i.context_expr)}")
                    entered.append(c)
                    if i.optional_vars is not None:
                        self.bind(i.optional_vars, c.gen if isinstance(c, _Block) else c.env.get("self"), env)
                self.block(s.body, env)
            finally:
                for c in reversed(entered):
                    if isinstance(c, _Block):
                        c.gen.indent -= 1
                    else:
                        self._run_helper(c.post, c)
            return
        if isinstance(s, ast.For):
            it = self.ev(s.iter, env)
            if isinstance(it, (list, tuple)):
                for item in list(it):
                    self.bind(s.target, item, env)
                    try:
                        self.block(s.body, env)
                    except _Continue:
                        continue
                    except _Break:
                        break
                else:
                    self.block(s.orelse, env)
                return
            raise AnalysisError(f"{self.construct}: for over non-enumerable {ast.unparse(s.iter)}")
        if isinstance(s, ast.Continue):
            raise _Continue
        if isinstance(s, ast.Break):
            raise _Break
        if isinstance(s, ast.Return):
            raise _Return(self.ev(s.value, env) if s.value else None)
        if isinstance(s, (ast.Assert, ast.Pass)):
            return
        if isinstance(s, ast.FunctionDef):
            env[s.name] = _LocalFn(s, env)  # a local helper of the generator (def emit(child): ...), followed when called
            return
        if isinstance(s, ast.Raise):
            raise AnalysisError(f"{self.construct}: generator raises on this variant: {ast.unparse(s)}")
        raise AnalysisError(f"{self.construct}: unsupported statement {type(s).__name__}: {ast.unparse(s)[:80]}")

    def bind(self, t: ast.AST, v: object, env: dict) -> None:
        if isinstance(t, ast.Name):
            env[t.id] = v
        elif isinstance(t, ast.Tuple) and isinstance(v, (tuple, list)) and len(t.elts) == len(v):
            for tt, vv in zip(t.elts, v, strict=True):
                self.bind(tt, vv, env)
        elif isinstance(t, ast.Tuple):
            for tt in t.elts:
                self.bind(tt, Opaque(ast.unparse(tt)), env)
        else:
            raise AnalysisError(f"{self.construct}: assignment to {ast.unparse(t)} in a generator")

    # ---------------------------------------------------------------- entry
    def run(self, args: dict) -> tuple[Gen | None, object]:
        env = dict(args)
        self._cur_cls = self.cls
        self._cur_rel = self.rel
        self.pending = False
        g = next((v for v in env.values() if isinstance(v, Gen)), None)
        try:
            self.block(self.fn.body, env)
            ret = None
        except _Return as r:
            ret = r.value
        return g, ret


class _Text(str):
    """Template text produced by an f-string / repr (str subclass carrying holes)."""

    __slots__ = ("holes",)


class Ident(str):
    """A generated identifier (new_temp / constant result, matched_var, pairs_var)."""

    __slots__ = ()


class Param(str):
    """A grammar-derived string (rule name, literal value, tag ...)."""

    __slots__ = ()


def param(v: object) -> object:
    """Mark parameter strings as grammar-derived (recursively through lists)."""
    if isinstance(v, str) and not isinstance(v, (Ident, Param)):
        return Param(v)
    if isinstance(v, list):
        return [param(x) for x in v]
    return v


class _Bound:
    def __init__(self, base: object, attr: str):
        self.base = base
        self.attr = attr


class _Block:
    def __init__(self, gen: Gen):
        self.gen = gen


class _NullCtx:
    """contextlib.nullcontext(): entering and leaving it does nothing."""


class _CtxHelper:
    """A @contextmanager helper of the repository's Builder, split at its yield."""

    def __init__(self, pre: list, post: list, env: dict, rel: str):
        self.pre, self.post, self.env, self.rel = pre, post, env, rel


class _Super:
    def __init__(self, obj: object, cls: str | None):
        self.obj = obj
        self.cls = cls


class _Rules:
    """Abstract ``rules`` mapping.  ``present`` maps a name to True/False/Obj;
    unknown names are opaque (fork)."""

    def __init__(self, entries: list[Obj] | None = None, present: dict[str, bool] | None = None):
        self.entries = entries or []
        self.present = present or {}
        self._memo: dict[str, Opaque] = {}

    def contains(self, name: object) -> object:
        if isinstance(name, str):
            if name in self.present:
                return self.present[name]
            if any(e.attrs.get("name") == name for e in self.entries):
                return True
            if name not in self._memo:
                self._memo[name] = Opaque(f"{name!r} in rules", "bool")
            return self._memo[name]
        return Opaque("in rules", "bool")

    def get(self, name: object) -> object:
        for e in self.entries:
            if e.attrs.get("name") == name:
                return e
        return Opaque(f"rules.get({name!r})")

    def items(self) -> list:
        return [(e.attrs["name"], e) for e in self.entries]


_ATTR_TYPES = {"number": "int", "min": "int", "max": "int", "modifier": "int", "name": "str", "value": "str"}

_BINOPS = {
    ast.Add: lambda a, b: a + b,
    ast.Sub: lambda a, b: a - b,
    ast.Mult: lambda a, b: a * b,
    ast.BitAnd: lambda a, b: a & b,
    ast.BitOr: lambda a, b: a | b,
    ast.LShift: lambda a, b: a << b,
    ast.Mod: lambda a, b: a % b,
}
_CMPOPS = {
    ast.Eq: lambda a, b: a == b,
    ast.NotEq: lambda a, b: a != b,
    ast.Lt: lambda a, b: a < b,
    ast.LtE: lambda a, b: a <= b,
    ast.Gt: lambda a, b: a > b,
    ast.GtE: lambda a, b: a >= b,
    ast.In: lambda a, b: a in b,
    ast.NotIn: lambda a, b: a not in b,
    ast.Is: lambda a, b: a is b,
    ast.IsNot: lambda a, b: a is not b,
}


# --------------------------------------------------------------------------- drivers


def variants(repo: Repo, rel: str, cls: str | None, fn: ast.FunctionDef, make_args, params: dict) -> list[Skeleton]:
    """Enumerate all decision vectors of one function for one parameter binding.

    ``make_args()`` returns a fresh argument environment (a new Gen each time).
    """
    out: list[Skeleton] = []
    stack: list[list[bool]] = [[]]
    guard = 0
    while stack:
        guard += 1
        if guard > 512:
            raise AnalysisError(f"{rel}::{fn.name}: more than 512 generator-time variants")
        dec = stack.pop()
        w = GenWalker(repo, rel, cls, fn, params, dec)
        g, ret = w.run(make_args())
        if len(w.taken) > len(dec):
            k = len(dec)
            base = [d for _, d in w.taken[:k]]
            stack.append(base + [False])
            stack.append(base + [True])
            continue
        lines = list(g.lines) if g is not None else []
        if isinstance(ret, str) and not lines:
            lines = str(ret).split("\n")
        sk = Skeleton(
            construct=w.construct,
            params=params,
            decisions=w.taken,
            lines=lines,
            constants=list(g.rule_constants) if g else [],
            holes=w.holes,
            children=w.children,
            returned=ret,
        )
        out.append(sk)
    return out


def operator_skeletons(repo: Repo, rel: str, cls: str, params: dict) -> list[Skeleton]:
    """Skeletons of ``cls.generate`` with ``self`` bound to ``params``."""
    r = repo.resolve_method(cls, "generate")
    if r is None:
        raise AnalysisError(f"{rel}::{cls}.generate vanished")
    frel, fcls, fn = r

    def make_args() -> dict:
        me = Obj(cls, {k: param(v) for k, v in params.items()}, "self")
        return {"self": me, "gen": Gen(_Rules()), "matched_var": Ident("MATCHED"), "pairs_var": Ident("PAIRS")}

    sks = variants(repo, frel, cls, fn, make_args, params)
    for s in sks:
        s.construct = f"{frel}::{fcls}.generate" if fcls == cls else f"{rel}::{cls}.generate"
    return sks


def function_skeletons(repo: Repo, rel: str, fname: str, args_factory, params: dict) -> list[Skeleton]:
    fn = repo.func(rel, fname)
    return variants(repo, rel, None, fn, args_factory, params)


def rules_value(entries: list[Obj] | None = None, present: dict[str, bool] | None = None) -> _Rules:
    return _Rules(entries, present)


def children(n: int) -> list[Child]:
    return [Child(i) for i in range(n)]


# --------------------------------------------------------------------------- builder contract


def check_builder_contract(repo: Repo) -> list[str]:
    """The concrete Builder model above must match codegen/builder.py.

    Returns a list of mismatch descriptions (empty = contract holds)."""
    rel = "src/pest/grammar/codegen/builder.py"
    problems: list[str] = []
    c = repo.cls(rel, "Builder")
    meths = {n.name: n for n in c.body if isinstance(n, ast.FunctionDef)}
    for need in ("writeln", "block", "new_temp", "constant", "render", "__init__"):
        if need not in meths:
            raise AnalysisError(f"{rel}::Builder.{need} vanished")

    def srcs(fn: ast.FunctionDef) -> list[str]:
        return [ast.unparse(s) for s in fn.body if not (isinstance(s, ast.Expr) and isinstance(s.value, ast.Constant))]

    w = srcs(meths["writeln"])
    if w != ["self.lines.append('    ' * self.indent + line)"]:
        problems.append(f"writeln body is {w}")
    b = srcs(meths["block"])
    if b != ["self.indent += 1", "yield self", "self.indent -= 1"]:
        problems.append(f"block body is {b}")
    for name in ("new_temp", "constant"):
        body = srcs(meths[name])
        if not body or body[0] != "self.counter += 1":
            problems.append(f"{name}: counter not incremented first ({body[:1]})")
        txt = " ".join(body)
        if "{prefix}{self.counter}" not in txt:
            problems.append(f"{name}: returned name is not prefix+counter")
    cb = " ".join(srcs(meths["constant"]))
    if "self.rule_constants.append((name, expr))" not in cb or "self.module_constants.append((name, expr))" not in cb:
        problems.append("constant: does not register (name, expr)")
    r = srcs(meths["render"])
    if r != ["return '\\n'.join(self.lines)"]:
        problems.append(f"render body is {r}")
    init = " ".join(srcs(meths["__init__"]))
    for need in ("self.indent = 0", "self.counter = 0", "self.lines: list[str] = []"):
        if need not in init:
            problems.append(f"__init__: missing {need}")
    return problems
