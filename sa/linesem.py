"""C14 LINES (semantic) — Position / Span / Pair line and column utilities agree with the text.

The utilities split the text with splitlines(keepends=True), accumulate the lengths of
the pieces and compare an offset with the running total: additions and comparisons only;
the characters are not meant to be looked at (line contents are enumerated over letters
and blanks, so a variant that strips or tests characters is told apart).  What they return for an offset depends on which
line the offset lies in, whether it sits at the line's start, inside it, on its line
break or at the very end of the text, and on whether the text ends with a line break:
an order-and-adjacency type.  Texts of up to three lines with contents of length 0, 1
or 2, with and without a final line break, and every offset 0..len (and every span
a <= b) exhibit every such type.  The methods are evaluated from their syntax trees
(sa/objmodel.py) and compared with the definitions in the property statement.
"""

from __future__ import annotations

import itertools

from .core import AnalysisError
from .objmodel import ClassModel, maybe_install_re
from .ordabs import ModelRaise, Obj
from .repo import Repo

PAIRS_REL = "src/pest/pairs.py"


CONTENTS = ("", "a", " ", "ab", "a ", " a")  # lengths 0..2 over {letter, blank}: a utility that strips or tests characters is told apart


def texts(max_lines: int = 3, thorough: bool = False):
    seen = set()
    for k in range(0, max_lines + 1):
        for lens in itertools.product(CONTENTS if k < 3 or thorough else ("", "a", "ab"), repeat=k):
            for final_break in (True, False):
                parts = []
                for i, ln in enumerate(lens):
                    parts.append(ln)
                    if i < k - 1 or final_break:
                        parts.append("\n")
                t = "".join(parts)
                if t not in seen:
                    seen.add(t)
                    yield t


def ref_line_col(text: str, p: int) -> tuple[int, int]:
    before = text[:p]
    return 1 + before.count("\n"), p - (before.rfind("\n") + 1) + 1


def ref_line_of(text: str, p: int) -> str:
    start = text.rfind("\n", 0, p) + 1
    end = text.find("\n", p)
    return text[start: len(text) if end == -1 else end + 1]


def crlf_texts():
    """The same shapes with "\\r\\n" line breaks (what error messages are shown for; the C14 utilities are specified
    for "\\n" only): a break of two characters tells a line table built from piece lengths from one that assumes a
    break is one character long, and an offset may fall between the two characters."""
    seen = set()
    for k in range(1, 4):
        for lens in itertools.product(("", "a", "ab"), repeat=k):
            for final_break in (True, False):
                t = "\r\n".join(lens) + ("\r\n" if final_break else "")
                if "\r" in t and t not in seen:
                    seen.add(t)
                    yield t


def long_texts():
    """One long line alone, first, in the middle and last of a text; with and without a final line break."""
    import string

    long_ = (string.ascii_lowercase + string.digits) * 8  # 288 distinct-looking characters
    for n_ in (100, 130, 288):
        ln = long_[:n_]
        yield ln
        yield ln + "\n"
        yield "ab\n" + ln + "\ncd"
        yield ln + "\nxy\n"


def ref_piece(text: str, p: int) -> tuple[int, int, str]:
    """(line number, 1-based column, line with its break) of offset p over the partition of the text into lines with
    their breaks; the end of a text that ends with a break is the start of a new, empty line."""
    start = 0
    pieces = text.splitlines(keepends=True)
    for i, piece in enumerate(pieces):
        if p < start + len(piece):
            return i + 1, p - start + 1, piece
        start += len(piece)
    if not pieces or pieces[-1].splitlines() != [pieces[-1]]:
        return len(pieces) + 1, p - start + 1, ""
    return len(pieces), p - (start - len(pieces[-1])) + 1, pieces[-1]


def ref_lines(text: str, a: int, b: int) -> list[str]:
    la, _ = ref_line_col(text, a)
    lb, _ = ref_line_col(text, b)
    pieces = text.split("\n")
    pieces = [x + "\n" for x in pieces[:-1]] + ([pieces[-1]] if pieces[-1] != "" else [])
    return pieces[la - 1: lb]


def check_lines(repo: Repo, where: str, thorough: bool = False) -> tuple[int, list[tuple[str, str]]]:  # noqa: PLR0912
    cm = ClassModel(repo, PAIRS_REL, where, max_steps=50000)
    for need in ("Position", "Span", "Pair"):
        if need not in cm.classes:
            raise AnalysisError(f"anchor vanished: class {need}")
    bad: list[tuple[str, str]] = []
    n = 0

    def guard(acc: str, desc: str, fn):  # noqa: ANN001, ANN202
        try:
            return True, fn()
        except ModelRaise as err:
            bad.append((f"{acc} raises", f"{desc}: {err}"))
            return False, None

    for text in texts(thorough=thorough):
        for p in range(len(text) + 1):
            n += 1
            desc = f"text {text!r}, offset {p}"
            pos = cm.new("Position", text, p)
            ok, lc = guard("Position.line_col", desc, lambda: cm.call(pos, "line_col"))
            want = ref_line_col(text, p)
            if ok and tuple(lc) != want:
                where_ = "at the end of a text without a final line break" if p == len(text) and not text.endswith("\n") and text else "at the position just after a line break" if p > 0 and text[p - 1] == "\n" else "on a line break" if p < len(text) and text[p] == "\n" else "inside a line"
                bad.append((f"Position.line_col is not (1 + line breaks before p, 1 + distance from the last line break) {where_}", f"{desc}: returns {tuple(lc)}, the text says {want}"))
            ok, lo = guard("Position.line_of", desc, lambda: cm.call(pos, "line_of"))
            wl = ref_line_of(text, p)
            if ok and lo != wl and lo != wl.rstrip("\n"):
                bad.append(("Position.line_of does not return the line containing the position", f"{desc}: returns {lo!r}, the line is {wl!r}"))
        for a in range(len(text) + 1):
            for b in range(a, len(text) + 1):
                n += 1
                desc = f"text {text!r}, span [{a}, {b})"
                span = cm.new("Span", text, a, b)
                ok, s_ = guard("Span.__str__", desc, lambda: cm.call(span, "__str__"))
                if ok and s_ != text[a:b]:
                    bad.append(("str(span) is not text[start:end]", f"{desc}: {s_!r}"))
                ok, sp = guard("Span.start_pos", desc, lambda: (cm.call(span, "start_pos"), cm.call(span, "end_pos"), cm.call(span, "split")))
                if ok:
                    st, en, both = sp
                    if (st.text, st.pos) != (text, a) or (en.text, en.pos) != (text, b):
                        bad.append(("Span.start_pos / end_pos are not the positions of the span's ends", f"{desc}: ({st.pos}, {en.pos})"))
                    if not (isinstance(both, tuple) and len(both) == 2 and (both[0].pos, both[1].pos) == (a, b)):
                        bad.append(("Span.split is not (start_pos, end_pos)", desc))
                ok, ls = guard("Span.lines", desc, lambda: cm.call(span, "lines"))
                wl2 = ref_lines(text, a, b)
                if ok and [x.rstrip("\n") for x in ls] != [x.rstrip("\n") for x in wl2]:
                    bad.append(("Span.lines does not return exactly the lines the span touches", f"{desc}: returns {ls}, the span touches {wl2}"))
                if a == b or b == a + 1:
                    pair = cm.new("Pair", text, a, b, Obj("Rule", name="r"))
                    ok, plc = guard("Pair.line_col", desc, lambda: cm.call(pair, "line_col"))
                    if ok and tuple(plc) != ref_line_col(text, a):
                        bad.append(("Pair.line_col is not the line and column of the pair's start", f"{desc}: returns {tuple(plc)}, the text says {ref_line_col(text, a)}"))
    return n, bad


def check_error_context(repo: Repo, where: str, thorough: bool = False) -> tuple[int, list[tuple[str, str]]]:
    """C13 CONTEXT: error_context(text, p) - the line:column and source line a parse error shows - is the line and
    column of p (same definition as Position.line_col: the end of a text that ends with a line break is the start
    of a new, empty line), on the same model texts and every offset."""
    rel = "src/pest/exceptions.py"
    cm = ClassModel(repo, rel, where, max_steps=50000)
    maybe_install_re(cm)
    if "error_context" not in cm.env:
        raise AnalysisError(f"anchor vanished: {rel}::error_context")
    bad: list[tuple[str, str]] = []
    n = 0
    for text in texts(thorough=thorough):
        for p in range(len(text) + 1):
            n += 1
            desc = f"text {text!r}, offset {p}"
            try:
                got = cm.env["error_context"](text, p)
            except ModelRaise as err:
                bad.append(("error_context raises", f"{desc}: {err}"))
                continue
            if not (isinstance(got, tuple) and len(got) == 3):
                bad.append(("error_context does not return (line, line number, column)", f"{desc}: {got!r}"))
                continue
            line, ln, col = got
            want = ref_line_col(text, p)
            where_ = ("in the empty text" if not text else "at the end of a text that ends with a line break" if p == len(text) and text.endswith("\n") else "at the end of a text without a final line break" if p == len(text)
                      else "at the position just after a line break" if p > 0 and text[p - 1] == "\n" else "on a line break" if text[p] == "\n" else "inside a line")
            if (ln, col) != want:
                bad.append((f"the line:column shown is not that of the position {where_}", f"{desc}: shows {ln}:{col}, the position is at {want[0]}:{want[1]}"))
            wl = ref_line_of(text, p).rstrip("\n")
            if line not in (wl, wl.rstrip()):
                bad.append((f"the source line shown is not the line of the position {where_}", f"{desc}: shows {line!r}, the line is {wl!r}"))
    # long lines (a display may show a window of the line; the line:column it reports is still that of the position)
    for text in long_texts():
        for p in sorted({0, 1, 2, 39, 40, 41, 48, 49, 50, 51, 79, 80, 81, 95, 96, 97, 98, 119, 120, 121, 127, 128, 129, 151, 199, 200, 201, 255, 256, 257, len(text) - 2, len(text) - 1, len(text)}):
            if not 0 <= p <= len(text):
                continue
            n += 1
            desc = f"a text with a line of {max(len(x) for x in text.split(chr(10)))} characters ({text[:12]!r}...), offset {p}"
            try:
                got = cm.env["error_context"](text, p)
            except ModelRaise as err:
                bad.append(("error_context raises on a long line", f"{desc}: {err}"))
                continue
            if not (isinstance(got, tuple) and len(got) == 3):
                bad.append(("error_context does not return (line, line number, column)", f"{desc}: {got!r}"))
                continue
            line, ln, col = got
            want = ref_line_col(text, p)
            if (ln, col) != want:
                bad.append(("the line:column shown is not that of the position on a long line", f"{desc}: shows {ln}:{col}, the position is at {want[0]}:{want[1]}"))
            elif not isinstance(line, str) or line.strip(". \u2026") not in ref_line_of(text, p):
                bad.append(("the source line shown is not (part of) the line of the position on a long line", f"{desc}: shows {line!r}"))
    for text in crlf_texts():
        for p in range(len(text) + 1):
            n += 1
            desc = f"text {text!r}, offset {p}"
            try:
                got = cm.env["error_context"](text, p)
            except ModelRaise as err:
                bad.append(("error_context raises on a text with CRLF line breaks", f"{desc}: {err}"))
                continue
            if not (isinstance(got, tuple) and len(got) == 3):
                continue
            line, ln, col = got
            wln, wcol, piece = ref_piece(text, p)
            if (ln, col) != (wln, wcol):
                bad.append(("the line:column shown is not that of the position in a text with CRLF line breaks" + (" (between the CR and the LF)" if 0 < p < len(text) and text[p - 1] == "\r" and text[p] == "\n" else ""), f"{desc}: shows {ln}:{col}, the position is at {wln}:{wcol}"))
            elif line not in (piece.rstrip("\r\n"), piece.rstrip()):
                bad.append(("the source line shown is not the line of the position in a text with CRLF line breaks", f"{desc}: shows {line!r}, the line is {piece!r}"))
    return n, bad


def check_grammar_error_context(repo: Repo, where: str, thorough: bool = False) -> tuple[int, list[tuple[str, str]]]:
    """C11 CONTEXT: PestGrammarError._error_context(text, p) - (line number, 0-based column, previous, current, next
    line) - points at the line and column of p, a place that exists in the text."""
    rel = "src/pest/grammar/exceptions.py"
    cm = ClassModel(repo, rel, where, max_steps=50000)
    maybe_install_re(cm)
    if "PestGrammarError" not in cm.classes or cm._resolve("PestGrammarError", "_error_context") is None:  # noqa: SLF001
        raise AnalysisError(f"anchor vanished: {rel}::PestGrammarError._error_context")
    bad: list[tuple[str, str]] = []
    n = 0
    err_obj = Obj(("PestGrammarError", "Exception"), args=("m",), token=None)
    for text in texts(thorough=thorough):
        for p in range(len(text) + 1):
            n += 1
            desc = f"text {text!r}, offset {p}"
            try:
                got = cm.call(err_obj, "_error_context", text, p)
            except ModelRaise as err:
                bad.append(("_error_context raises", f"{desc}: {err}"))
                continue
            if not (isinstance(got, tuple) and len(got) == 5):
                bad.append(("_error_context does not return (line number, column, previous, current, next)", f"{desc}: {got!r}"))
                continue
            ln, col, _prev, cur, _next = got
            wl_, wc = ref_line_col(text, p)
            where_ = ("in the empty text" if not text else "at the end of a text that ends with a line break" if p == len(text) and text.endswith("\n") else "at the end of a text without a final line break" if p == len(text)
                      else "at the position just after a line break" if p > 0 and text[p - 1] == "\n" else "on a line break" if text[p] == "\n" else "inside a line")
            if (ln, col) != (wl_, wc - 1):
                bad.append((f"the line and column reported are not those of the position {where_}", f"{desc}: reports line {ln}, column {col} (0-based), the position is at line {wl_}, column {wc - 1}"))
            wl = ref_line_of(text, p).rstrip("\n")
            if cur not in (wl, wl.rstrip()):
                bad.append((f"the source line shown is not the line of the position {where_}", f"{desc}: shows {cur!r}, the line is {wl!r}"))
    for text in long_texts():
        for p in sorted({0, 1, 39, 40, 41, 79, 80, 81, 95, 96, 97, 119, 120, 121, 127, 128, 129, 199, 200, 255, 256, 257, len(text) - 1, len(text)}):
            if not 0 <= p <= len(text):
                continue
            n += 1
            desc = f"a text with a line of {max(len(x) for x in text.split(chr(10)))} characters ({text[:12]!r}...), offset {p}"
            try:
                got = cm.call(err_obj, "_error_context", text, p)
            except ModelRaise as err:
                bad.append(("_error_context raises on a long line", f"{desc}: {err}"))
                continue
            if not (isinstance(got, tuple) and len(got) == 5):
                bad.append(("_error_context does not return (line number, column, previous, current, next)", f"{desc}: {got!r}"))
                continue
            ln, col = got[0], got[1]
            wl_, wc = ref_line_col(text, p)
            if (ln, col) != (wl_, wc - 1):
                bad.append(("the line and column reported are not those of the position on a long line", f"{desc}: reports line {ln}, column {col} (0-based), the position is at line {wl_}, column {wc - 1}"))
    for text in crlf_texts():
        for p in range(len(text) + 1):
            n += 1
            desc = f"text {text!r}, offset {p}"
            try:
                got = cm.call(err_obj, "_error_context", text, p)
            except ModelRaise as err:
                bad.append(("_error_context raises on a text with CRLF line breaks", f"{desc}: {err}"))
                continue
            if not (isinstance(got, tuple) and len(got) == 5):
                continue
            ln, col, _prev, cur, _next = got
            wln, wcol, piece = ref_piece(text, p)
            if (ln, col) != (wln, wcol - 1):
                bad.append(("the line and column reported are not those of the position in a text with CRLF line breaks", f"{desc}: reports line {ln}, column {col} (0-based), the position is at line {wln}, column {wcol - 1}"))
            elif cur not in (piece.rstrip("\r\n"), piece.rstrip()):
                bad.append(("the source line shown is not the line of the position in a text with CRLF line breaks", f"{desc}: shows {cur!r}, the line is {piece!r}"))
    return n, bad
