"""C10 STRUCTURE (semantic) — the token parser builds the tree the tokens denote.

`pest.grammar.parser.Parser` maps a token list to an expression tree.  Its decisions are
(a) a dispatch on the kind of the next token and (b) comparisons of three precedence
constants; neither looks at token *values* (they are copied into the node).  The kinds
are a finite enumeration and the precedence comparisons an order type, so the following
finite family is a complete description of its local behaviour: every term form once,
every prefix and postfix operator (and each pair of them), every tag position, every
repetition form, and every arrangement of one to three infix operators over plain and
prefixed operands.  The parser is evaluated on each (sa/objmodel.py: classes
instantiated from their syntax trees, nothing imported) and the tree compared with the
tree pest's meta-grammar denotes, written here as nested tuples.
"""

from __future__ import annotations

import itertools

from .core import AnalysisError
from .objmodel import ClassModel, install_re
from .ordabs import ModelRaise, Obj, Sym
from .repo import Repo

RELS = [
    "src/pest/grammar/parser.py", "src/pest/grammar/tokens.py", "src/pest/grammar/exceptions.py", "src/pest/grammar/unescape.py",
    "src/pest/grammar/expression.py", "src/pest/grammar/expressions/terminals.py", "src/pest/grammar/expressions/choice.py",
    "src/pest/grammar/expressions/sequence.py", "src/pest/grammar/expressions/prefix.py", "src/pest/grammar/expressions/postfix.py",
    "src/pest/grammar/expressions/group.py", "src/pest/grammar/rule.py",
]


def K(name: str) -> Sym:
    return Sym(f"TokenKind.{name}")


def program(repo: Repo, where: str) -> ClassModel:
    import re

    rels = [r for r in RELS if r in repo.py_files]
    restub = Obj("re")
    cm = ClassModel(repo, rels, where, {"re": restub, "ChoiceCase": Sym("ChoiceCase")}, max_steps=100000)
    install_re(cm)
    for need in ("Parser", "Token"):
        if need not in cm.classes:
            raise AnalysisError(f"anchor vanished: class {need} of the grammar front end")
    return cm


# ---- expected trees as nested tuples ------------------------------------------------
def tree(o: object) -> object:  # noqa: PLR0911, PLR0912
    if not isinstance(o, Obj):
        return ("?", repr(o))
    k = o.kinds[0]
    d = o.__dict__
    tag = d.get("tag")
    t: tuple
    if k == "String":
        t = ("String", d.get("value"))
    elif k == "CIString":
        t = ("CIString", d.get("value"))
    elif k == "Identifier":
        t = ("Identifier", d.get("value"))
    elif k == "Range":
        t = ("Range", d.get("start"), d.get("stop"))
    elif k == "PushLiteral":
        t = ("PushLiteral", d.get("value"))
    elif k == "PeekSlice":
        t = ("PeekSlice", d.get("start"), d.get("stop"))
    elif k in ("Peek", "PeekAll", "Pop", "PopAll", "Drop"):
        t = (k,)
    elif k in ("Push", "Group", "Optional", "Repeat", "RepeatOnce", "PositivePredicate", "NegativePredicate"):
        t = (k, tree(d.get("expression")))
    elif k == "RepeatExact":
        t = (k, tree(d.get("expression")), d.get("number"))
    elif k == "RepeatMin":
        t = (k, tree(d.get("expression")), d.get("number"))
    elif k == "RepeatMax":
        t = (k, tree(d.get("expression")), d.get("number"))
    elif k == "RepeatMinMax":
        t = (k, tree(d.get("expression")), d.get("min"), d.get("max"))
    elif k in ("Sequence", "Choice"):
        t = (k, *[tree(x) for x in d.get("expressions", [])])
    elif "BuiltInRule" in o.kinds:
        t = ("BuiltIn", d.get("name"))
    else:
        t = (k, "?")
    return t + (("#", tag),) if tag is not None else t


def cases():  # noqa: PLR0915
    """(description, token list as (kind, value) pairs, expected tree)."""
    A = [("IDENTIFIER", "a")]
    B = [("IDENTIFIER", "b")]
    C = [("IDENTIFIER", "c")]
    D = [("IDENTIFIER", "d")]
    a, b, c, d = ("Identifier", "a"), ("Identifier", "b"), ("Identifier", "c"), ("Identifier", "d")
    out = []
    # (a) every term form
    terms = [
        ('"v"', [("STRING", "v")], ("String", "v")),
        ('^"v"', [("STRING_CI", "v")], ("CIString", "v")),
        # the scanner has already decoded string tokens: a backslash in the value is a literal backslash
        ('"\\\\n" (decoded: backslash, n)', [("STRING", "\\n")], ("String", "\\n")),
        ('^"\\\\n" (decoded: backslash, n)', [("STRING_CI", "\\n")], ("CIString", "\\n")),
        ('PUSH_LITERAL("\\\\n")', [("PUSH_LITERAL", "PUSH_LITERAL"), ("LPAREN", "("), ("STRING", "\\n"), ("RPAREN", ")")], ("PushLiteral", "\\n")),
        # character tokens are raw: the parser decodes them (once)
        ("'\\n'..'\\\\'", [("CHAR", "'\\n'"), ("RANGE_OP", ".."), ("CHAR", "'\\\\'")], ("Range", "\n", "\\")),
        # the quote itself is a character (character = "'" ~ (escape | ANY) ~ "'"): only the delimiters are removed
        ("'\\''..'''", [("CHAR", "'\\''"), ("RANGE_OP", ".."), ("CHAR", "'''")], ("Range", "'", "'")),
        ("'\\x41'..'\\u{5a}'", [("CHAR", "'\\x41'"), ("RANGE_OP", ".."), ("CHAR", "'\\u{5a}'")], ("Range", "A", "Z")),
        ("'\\t'..'\\0'", [("CHAR", "'\\t'"), ("RANGE_OP", ".."), ("CHAR", "'\\0'")], ("Range", "\t", "\0")),
        ("a", A, a),
        ("ANY", [("IDENTIFIER", "ANY")], ("BuiltIn", "ANY")),
        ("'p'..'q'", [("CHAR", "'p'"), ("RANGE_OP", ".."), ("CHAR", "'q'")], ("Range", "p", "q")),
        ("PUSH(a)", [("PUSH", "PUSH"), ("LPAREN", "(")] + A + [("RPAREN", ")")], ("Push", a)),
        ('PUSH_LITERAL("v")', [("PUSH_LITERAL", "PUSH_LITERAL"), ("LPAREN", "("), ("STRING", "v"), ("RPAREN", ")")], ("PushLiteral", "v")),
        ("PEEK", [("PEEK", "PEEK")], ("Peek",)),
        ("PEEK_ALL", [("PEEK_ALL", "PEEK_ALL")], ("PeekAll",)),
        ("POP", [("POP", "POP")], ("Pop",)),
        ("POP_ALL", [("POP_ALL", "POP_ALL")], ("PopAll",)),
        ("DROP", [("DROP", "DROP")], ("Drop",)),
        ("(a)", [("LPAREN", "(")] + A + [("RPAREN", ")")], ("Group", a)),
    ]
    for lo, hi in itertools.product((None, "0", "1", "-2"), repeat=2):
        toks = [("PEEK", "PEEK"), ("LBRACKET", "[")] + ([("INTEGER", lo)] if lo is not None else []) + [("RANGE_OP", "..")] + ([("INTEGER", hi)] if hi is not None else []) + [("RBRACKET", "]")]
        terms.append((f"PEEK[{lo or ''}..{hi or ''}]", toks, ("PeekSlice", None if lo is None else int(lo), None if hi is None else int(hi))))
    out.extend(terms)
    # (b) tags on every taggable term
    for desc, toks, want in terms:
        if want[0] in ("String", "CIString", "BuiltIn"):
            continue  # a node that produces no pair: the tag has nothing to label (pest and python-pest alike)
        out.append((f"#t = {desc}", [("TAG", "#t"), ("ASSIGN_OP", "=")] + toks, want + (("#", "t"),)))
    # (b') a tag on a term that produces no pair labels nothing - and in particular not the next term that could carry
    # one, in the same sequence, in the next alternative or inside a following group
    T = [("TAG", "#t"), ("ASSIGN_OP", "=")]
    for desc, toks, want in terms:
        if want[0] not in ("String", "CIString", "BuiltIn") or "decoded" in desc:
            continue
        out.append((f"#t = {desc} ~ a", T + toks + [("SEQUENCE_OP", "~")] + A, ("Sequence", want, a)))
        out.append((f"#t = {desc} | (a)", T + toks + [("CHOICE_OP", "|"), ("LPAREN", "(")] + A + [("RPAREN", ")")], ("Choice", want, ("Group", a))))
        out.append((f"#t = {desc} ~ !a ~ PUSH(b)", T + toks + [("SEQUENCE_OP", "~"), ("NEGATIVE_PREDICATE", "!")] + A + [("SEQUENCE_OP", "~"), ("PUSH", "PUSH"), ("LPAREN", "(")] + B + [("RPAREN", ")")],
                    ("Sequence", want, ("NegativePredicate", a), ("Push", b))))
        out.append((f"#t = {desc}* ~ 'p'..'q'", T + toks + [("REPEAT_OP", "*"), ("SEQUENCE_OP", "~"), ("CHAR", "'p'"), ("RANGE_OP", ".."), ("CHAR", "'q'")], ("Sequence", ("Repeat", want), ("Range", "p", "q"))))
    # (c) prefix operators and chains
    P = {"&": ("POSITIVE_PREDICATE", "PositivePredicate"), "!": ("NEGATIVE_PREDICATE", "NegativePredicate")}
    for p1 in P:
        out.append((f"{p1}a", [(P[p1][0], p1)] + A, (P[p1][1], a)))
        for p2 in P:
            out.append((f"{p1}{p2}a", [(P[p1][0], p1), (P[p2][0], p2)] + A, (P[p1][1], (P[p2][1], a))))
    # (d) postfix operators, chains, repetition forms
    Q = {"?": ("OPTION_OP", "Optional"), "*": ("REPEAT_OP", "Repeat"), "+": ("REPEAT_ONCE_OP", "RepeatOnce")}
    for q1 in Q:
        out.append((f"a{q1}", A + [(Q[q1][0], q1)], (Q[q1][1], a)))
        for q2 in Q:
            out.append((f"a{q1}{q2}", A + [(Q[q1][0], q1), (Q[q2][0], q2)], (Q[q2][1], (Q[q1][1], a))))
    LB, RB, CM = ("LBRACE", "{"), ("RBRACE", "}"), ("COMMA", ",")
    out.append(("a{2}", A + [LB, ("NUMBER", "2"), RB], ("RepeatExact", a, 2)))
    out.append(("a{2,}", A + [LB, ("NUMBER", "2"), CM, RB], ("RepeatMin", a, 2)))
    out.append(("a{,3}", A + [LB, CM, ("NUMBER", "3"), RB], ("RepeatMax", a, 3)))
    out.append(("a{2,3}", A + [LB, ("NUMBER", "2"), CM, ("NUMBER", "3"), RB], ("RepeatMinMax", a, 2, 3)))
    out.append(("a{0}", A + [LB, ("NUMBER", "0"), RB], ("RepeatExact", a, 0)))
    out.append(("a{2}?", A + [LB, ("NUMBER", "2"), RB, ("OPTION_OP", "?")], ("Optional", ("RepeatExact", a, 2))))
    # (e) prefix and postfix together: the postfix operators belong to the node, the prefix to the result
    for p1 in P:
        for q1 in Q:
            out.append((f"{p1}a{q1}", [(P[p1][0], p1)] + A + [(Q[q1][0], q1)], (P[p1][1], (Q[q1][1], a))))
    out.append(("(a)*", [("LPAREN", "(")] + A + [("RPAREN", ")"), ("REPEAT_OP", "*")], ("Repeat", ("Group", a))))
    # (f) infix operators: ~ binds tighter than |, both are n-ary
    OPS = {"~": "SEQUENCE_OP", "|": "CHOICE_OP"}

    def ref(parts: list, ops: list) -> object:
        # split on | first
        groups: list[list] = [[parts[0]]]
        for o, p in zip(ops, parts[1:]):
            if o == "|":
                groups.append([p])
            else:
                groups[-1].append(p)
        alts = [g[0] if len(g) == 1 else ("Sequence", *g) for g in groups]
        return alts[0] if len(alts) == 1 else ("Choice", *alts)

    operands = [(A, a), (B, b), (C, c), (D, d)]
    for n in (1, 2, 3):
        for ops in itertools.product("~|", repeat=n):
            toks: list = []
            parts = []
            for i in range(n + 1):
                toks += operands[i][0]
                parts.append(operands[i][1])
                if i < n:
                    toks.append((OPS[ops[i]], ops[i]))
            out.append((" ".join(x for pair in zip("abcd", list(ops) + [""]) for x in pair if x), toks, ref(parts, list(ops))))
    # a prefixed or suffixed operand inside a sequence / choice
    for o in "~|":
        out.append((f"!a {o} b", [("NEGATIVE_PREDICATE", "!")] + A + [(OPS[o], o)] + B, ref([("NegativePredicate", a), b], [o])))
        out.append((f"a {o} !b", A + [(OPS[o], o), ("NEGATIVE_PREDICATE", "!")] + B, ref([a, ("NegativePredicate", b)], [o])))
        out.append((f"a* {o} b", A + [("REPEAT_OP", "*"), (OPS[o], o)] + B, ref([("Repeat", a), b], [o])))
        out.append((f"a {o} b*", A + [(OPS[o], o)] + B + [("REPEAT_OP", "*")], ref([a, ("Repeat", b)], [o])))
    # groups keep their contents apart
    out.append(("(a | b) ~ c", [("LPAREN", "(")] + A + [("CHOICE_OP", "|")] + B + [("RPAREN", ")"), ("SEQUENCE_OP", "~")] + C, ("Sequence", ("Group", ("Choice", a, b)), c)))
    out.append(("a ~ (b ~ c)", A + [("SEQUENCE_OP", "~"), ("LPAREN", "(")] + B + [("SEQUENCE_OP", "~")] + C + [("RPAREN", ")")], ("Sequence", a, ("Group", ("Sequence", b, c)))))
    # a leading choice operator is allowed and means nothing
    out.append(("| a | b", [("CHOICE_OP", "|")] + A + [("CHOICE_OP", "|")] + B, ("Choice", a, b)))
    # tag binds to the term, not to the sequence
    out.append(("#t = a ~ b", [("TAG", "#t"), ("ASSIGN_OP", "=")] + A + [("SEQUENCE_OP", "~")] + B, ("Sequence", a + (("#", "t"),), b)))
    return out


def check_structure(repo: Repo, where: str, only: object = None) -> tuple[int, list[tuple[str, str]]]:
    cm = program(repo, where)
    bad: list[tuple[str, str]] = []
    n = 0
    any_rule = cm.new("BuiltInRule", "ANY", cm.new("String", "<any>"), 2)
    for desc, toks, want in cases():
        if only is not None and not only(toks):  # type: ignore[operator]
            continue
        n += 1
        text = "x" * 8
        tokens = [cm.new("Token", K(k), v, i, text) for i, (k, v) in enumerate(toks)]
        try:
            parser = cm.new("Parser", tokens, {"ANY": any_rule})
            got = cm.call(parser, "parse_expression")
            rest = parser.__dict__.get("pos")
        except ModelRaise as err:
            bad.append(("a valid expression is refused", f"`{desc}`: {err}"))
            continue
        gt = tree(got)
        if rest != len(tokens):
            bad.append(("tokens are left over after a complete expression", f"`{desc}`: stops after {rest} of {len(tokens)} tokens"))
        elif gt != want:
            bad.append(("the tree built is not the one the text denotes", f"`{desc}` builds {gt}, denoted {want}"))
    return n, bad


def check_rules(repo: Repo, where: str) -> tuple[int, list[tuple[str, str]]]:
    """Rule headers: name, modifier symbol -> modifier bits, documentation lines, several rules, grammar docs."""
    cm = program(repo, where)
    consts = repo.mod("src/pest/grammar/rule.py").constants()
    bad: list[tuple[str, str]] = []
    n = 0
    mods = {None: 0, "_": consts["SILENT"], "@": consts["ATOMIC"], "$": consts["COMPOUND"], "!": consts["NONATOMIC"]}
    for sym, bits in mods.items():
        for docs in ([], ["one"], ["one", ""]):
            n += 1
            toks = [("GRAMMAR_DOC", "//!"), ("COMMENT_TEXT", "top")]
            for dline in docs:
                toks += [("RULE_DOC", "///"), ("COMMENT_TEXT", dline)]
            toks += [("IDENTIFIER", "r"), ("ASSIGN_OP", "=")] + ([("MODIFIER", sym)] if sym else []) + [("LBRACE", "{"), ("IDENTIFIER", "a"), ("RBRACE", "}")]
            toks += [("IDENTIFIER", "s"), ("ASSIGN_OP", "="), ("LBRACE", "{"), ("STRING", "v"), ("RBRACE", "}")]
            tokens = [cm.new("Token", K(k), v, i, "x" * 40) for i, (k, v) in enumerate(toks)]
            desc = f"//! top {' '.join('/// ' + x for x in docs)} r = {sym or ''}{{ a }} s = {{ \"v\" }}"
            try:
                parser = cm.new("Parser", tokens, {})
                res = cm.call(parser, "parse")
            except ModelRaise as err:
                bad.append(("a valid grammar is refused", f"{desc}: {err}"))
                continue
            rules, gdoc = res
            if list(gdoc) != ["top"]:
                bad.append(("grammar documentation is not the //! lines", f"{desc}: doc {gdoc!r}"))
            if list(rules) != ["r", "s"]:
                bad.append(("rules are not recorded under their names in order", f"{desc}: {list(rules)!r}"))
                continue
            r = rules["r"]
            if r.__dict__.get("name") != "r" or r.__dict__.get("modifier") != bits:
                bad.append(("a rule's modifier is not the one written", f"{desc}: name {r.__dict__.get('name')!r} modifier {r.__dict__.get('modifier')!r}, written {bits}"))
            if tree(r.__dict__.get("expression")) != ("Identifier", "a"):
                bad.append(("a rule's body is not the expression between its braces", f"{desc}: {tree(r.__dict__.get('expression'))}"))
            got_doc = list(r.__dict__.get("doc") or [])
            if got_doc != docs:
                bad.append(("a rule's documentation is not its /// lines", f"{desc}: doc {got_doc!r}"))
            if tree(rules["s"].__dict__.get("expression")) != ("String", "v") or rules["s"].__dict__.get("modifier") != 0 or (rules["s"].__dict__.get("doc") or None) is not None:
                bad.append(("a following rule inherits something from the one before", f"{desc}: s = {tree(rules['s'].__dict__.get('expression'))}, modifier {rules['s'].__dict__.get('modifier')}, doc {rules['s'].__dict__.get('doc')!r}"))
    return n, bad
