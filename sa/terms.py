"""Symbolic normaliser for expression-building code (DESIGN C02-O7).

Turns a constructor expression such as

    Sequence(*chain(repeat(inner, num), [Repeat(inner)]))
    Sequence(*repeat(expression, min_), *repeat(Optional(expression), max(max_ - min_, 0)))

into a normal form over a five-constructor algebra, *without evaluating it*:

    term  ::= 'e' | ('star', term) | ('opt', term) | ('seq', ((term, count), ...))
    count ::= linear expression over the symbols number / min / max, as a sorted
              tuple of (symbol-or-1, coefficient)

A construction the normaliser does not know raises AnalysisError.
"""

from __future__ import annotations

import ast

from .core import AnalysisError

ONE = ((1, 1),)


def lin(*pairs: tuple) -> tuple:
    acc: dict = {}
    for sym, c in pairs:
        acc[sym] = acc.get(sym, 0) + c
    return tuple(sorted(((s, c) for s, c in acc.items() if c != 0), key=lambda x: str(x[0])))


def lin_add(a: tuple, b: tuple, sign: int = 1) -> tuple:
    return lin(*a, *[(s, sign * c) for s, c in b])


def lin_str(c: tuple) -> str:
    if not c:
        return "0"
    parts = []
    for s, k in c:
        if s == 1:
            parts.append(str(k))
        elif k == 1:
            parts.append(str(s))
        else:
            parts.append(f"{k}*{s}")
    return "+".join(parts).replace("+-", "-")


def term_str(t: object) -> str:
    if t == "e":
        return "e"
    if isinstance(t, tuple) and t[0] == "star":
        return f"({term_str(t[1])})*"
    if isinstance(t, tuple) and t[0] == "opt":
        return f"({term_str(t[1])})?"
    if isinstance(t, tuple) and t[0] == "seq":
        return " ~ ".join(term_str(x) + ("" if c == ONE else "^{" + lin_str(c) + "}") for x, c in t[1]) or "ε"
    return repr(t)


class Normaliser:
    def __init__(self, where: str, expr_names: set[str], counts: dict[str, str]):
        """``expr_names``: local names denoting the operand expression;
        ``counts``: local name -> canonical symbol (number/min/max)."""
        self.where = where
        self.expr_names = expr_names
        self.counts = counts

    def bad(self, node: ast.AST) -> AnalysisError:
        return AnalysisError(f"{self.where}: expression-building construct outside the normaliser's algebra: {ast.unparse(node)[:80]}")

    def count(self, node: ast.AST) -> tuple:
        if isinstance(node, ast.Constant) and isinstance(node.value, int):
            return lin((1, node.value))
        if isinstance(node, ast.Name) and node.id in self.counts:
            return lin((self.counts[node.id], 1))
        if isinstance(node, ast.Attribute) and isinstance(node.value, ast.Name) and node.value.id == "self" and node.attr in self.counts:
            return lin((self.counts[node.attr], 1))
        if isinstance(node, ast.BinOp) and isinstance(node.op, (ast.Add, ast.Sub)):
            return lin_add(self.count(node.left), self.count(node.right), 1 if isinstance(node.op, ast.Add) else -1)
        if isinstance(node, ast.Call) and isinstance(node.func, ast.Name) and node.func.id == "max" and len(node.args) == 2:
            # max(x, 0): clamp at zero — identity on the domain min <= max
            a, b = node.args
            if isinstance(b, ast.Constant) and b.value == 0:
                return self.count(a)
            if isinstance(a, ast.Constant) and a.value == 0:
                return self.count(b)
        raise self.bad(node)

    def term(self, node: ast.AST) -> object:
        if isinstance(node, ast.Name) and node.id in self.expr_names:
            return "e"
        if isinstance(node, ast.Attribute) and ast.unparse(node) in self.expr_names:
            return "e"
        if isinstance(node, ast.Call) and isinstance(node.func, ast.Name):
            f = node.func.id
            if f == "Repeat" and len(node.args) == 1:
                return ("star", self.term(node.args[0]))
            if f == "Optional" and len(node.args) == 1:
                return ("opt", self.term(node.args[0]))
            if f == "Group" and len(node.args) == 1:
                return self.term(node.args[0])
            if f == "Sequence":
                items: list = []
                for a in node.args:
                    if isinstance(a, ast.Starred):
                        items.extend(self.iterable(a.value))
                    else:
                        items.append((self.term(a), ONE))
                return ("seq", tuple(_merge(items)))
        raise self.bad(node)

    def iterable(self, node: ast.AST) -> list:
        if isinstance(node, ast.Call) and isinstance(node.func, ast.Name):
            f = node.func.id
            if f == "repeat" and len(node.args) == 2:
                return [(self.term(node.args[0]), self.count(node.args[1]))]
            if f == "chain":
                out: list = []
                for a in node.args:
                    out.extend(self.iterable(a))
                return out
        if isinstance(node, (ast.List, ast.Tuple)):
            return [(self.term(e), ONE) for e in node.elts]
        raise self.bad(node)


def _merge(items: list) -> list:
    """x^a x^b -> x^(a+b); drop x^0 only when the count is literally zero."""
    out: list = []
    for t, c in items:
        if out and out[-1][0] == t:
            out[-1] = (t, lin_add(out[-1][1], c))
        else:
            out.append((t, c))
    return [(t, c) for t, c in out if c != ()]


N, MIN, MAX = "number", "min", "max"

# The unrolled forms of the specification table (DESIGN §3.2 / property C03, C04)
UNROLLED = {
    "RepeatOnce": ("seq", (("e", ONE), (("star", "e"), ONE))),
    "RepeatExact": ("seq", (("e", lin((N, 1))),)),
    "RepeatMin": ("seq", (("e", lin((N, 1))), (("star", "e"), ONE))),
    "RepeatMax": ("seq", ((("opt", "e"), lin((N, 1))),)),
    "RepeatMinMax": ("seq", (("e", lin((MIN, 1))), (("opt", "e"), lin((MAX, 1), (MIN, -1))))),
}
