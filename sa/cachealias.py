"""CACHE-ALIAS — a memoised function hands the *same* object to every caller.

`@lru_cache` / `@cache` / `@cached_property` keep what the function returned and return that very object again.  When
the object is a list, dict or set, whoever receives it holds a reference into storage that every later call — on
another Parser, another thread, the next parse() — will read.  The rule follows each call result through the function
that made the call (one assignment chain deep, the way the repository's code uses such results):

* MUTATE  — the result, or a local bound to it, is changed in place (`append`, `sort`, `x[i] = ...`, `del x[i]`, `+=`);
* ESCAPE  — it is returned, yielded or stored into an attribute as it is: the caller (a user of the library) may then
            change it;
* slices, copies (`list(x)`, `x[:]`, `sorted(x)`), elements, lengths, iteration and membership tests are private uses.

A call result handed on to a function this rule does not know is left undecided (exit 2), not passed.  Immutable
results (tuple, str, int, frozenset, None, a compiled pattern) are outside the rule.  The rule is about who may reach
shared storage — the clause of C15 / C14 / C13 whose truth is in the shape of the code; what the cached values *are*
is decided by the model rules (they evaluate memoised functions with their memo: sa/ordabs.py).
"""

from __future__ import annotations

import ast

from .core import Check, Finding

MEMO = ("lru_cache", "cache", "cached_property")
MUTATORS = ("append", "extend", "insert", "pop", "remove", "clear", "sort", "reverse", "update", "add", "setdefault", "popitem", "discard", "appendleft", "popleft")
PRIVATE_CALLS = ("len", "list", "tuple", "sorted", "set", "frozenset", "dict", "enumerate", "iter", "reversed", "sum", "min", "max", "any", "all", "zip", "bool", "str", "repr", "map", "filter",
                 "bisect", "bisect_left", "bisect_right", "accumulate", "chain", "isinstance", "join", "next", "range", "print", "id", "hash")
MUTABLE_ANN = ("list", "dict", "set", "List", "Dict", "Set", "MutableMapping", "MutableSequence", "MutableSet", "defaultdict", "deque", "bytearray", "Counter", "OrderedDict")
IMMUTABLE_ANN = ("tuple", "Tuple", "str", "int", "bool", "float", "bytes", "frozenset", "None", "Pattern", "re.Pattern", "regex.Pattern", "Sequence", "Mapping", "AbstractSet", "Iterable", "Hashable")


def _deco_name(d: ast.expr) -> str:
    return ast.unparse(d).split("(")[0].split(".")[-1]


def _mutable_result(fn: ast.FunctionDef) -> bool | None:
    """True / False / None (cannot tell)."""
    if fn.returns is not None:
        head = ast.unparse(fn.returns).split("[")[0].strip("'\"").split(".")[-1]
        if head in MUTABLE_ANN:
            return True
        if head in IMMUTABLE_ANN or ast.unparse(fn.returns).split("[")[0] in IMMUTABLE_ANN:
            return False
    verdicts = []
    for n in ast.walk(fn):
        if isinstance(n, ast.Return) and n.value is not None:
            v = n.value
            if isinstance(v, (ast.List, ast.Dict, ast.Set, ast.ListComp, ast.DictComp, ast.SetComp)):
                verdicts.append(True)
            elif isinstance(v, ast.Call) and ast.unparse(v.func).split(".")[-1] in ("list", "dict", "set", "splitlines", "split", "rsplit", "sorted", "defaultdict", "deque"):
                verdicts.append(True)
            elif isinstance(v, (ast.Tuple, ast.Constant, ast.JoinedStr)) or (isinstance(v, ast.Call) and ast.unparse(v.func).split(".")[-1] in ("tuple", "frozenset", "str", "int", "compile", "join")):
                verdicts.append(False)
            else:
                verdicts.append(None)
    if any(v is True for v in verdicts):
        return True
    if verdicts and all(v is False for v in verdicts):
        return False
    return None


def analyse_module(tree: ast.Module, rel: str, memo_names: dict[str, str]) -> tuple[list[tuple[str, str, str, str]], list[str], int]:
    """Returns ([(kind, construct, signature, detail)], [undecided messages], call sites examined) for one module;
    memo_names: name of a memoised function with a mutable result -> where it is defined."""
    parents: dict[int, ast.AST] = {}
    for n in ast.walk(tree):
        for c in ast.iter_child_nodes(n):
            parents[id(c)] = n
    found: list[tuple[str, str, str, str]] = []
    undecided: list[str] = []
    sites = 0

    def qual(n: ast.AST) -> str:
        names = []
        cur = n
        while id(cur) in parents:
            cur = parents[id(cur)]
            if isinstance(cur, (ast.FunctionDef, ast.AsyncFunctionDef, ast.ClassDef)):
                names.append(cur.name)
        return ".".join(reversed(names)) or "<module>"

    def enclosing_fn(n: ast.AST) -> ast.AST | None:
        cur = n
        while id(cur) in parents:
            cur = parents[id(cur)]
            if isinstance(cur, (ast.FunctionDef, ast.AsyncFunctionDef)):
                return cur
        return None

    def classify(use: ast.AST, what: str, fname: str, depth: int = 0) -> None:
        """`use` is an expression node that evaluates to the shared object."""
        par = parents.get(id(use))
        where = f"{rel}::{qual(use)}"
        if par is None:
            return
        if isinstance(par, ast.Subscript) and par.value is use:
            gp = parents.get(id(par))
            if isinstance(par.ctx, (ast.Store, ast.Del)) or (isinstance(gp, ast.AugAssign) and gp.target is par):
                found.append(("MUTATE", where, f"the object {fname}() keeps in its cache is changed in place", f"`{ast.unparse(gp if gp is not None else par)[:80]}` writes into {what}, which is the cached result of {fname}() ({memo_names[fname]}): every later call for the same arguments sees the change"))
            return  # an element or a slice (a copy)
        if isinstance(par, ast.Attribute) and par.value is use:
            gp = parents.get(id(par))
            if isinstance(gp, ast.Call) and gp.func is par and par.attr in MUTATORS:
                found.append(("MUTATE", where, f"the object {fname}() keeps in its cache is changed in place", f"`{ast.unparse(gp)[:80]}` changes {what}, which is the cached result of {fname}() ({memo_names[fname]}): every later call for the same arguments sees the change"))
            return  # a method that reads (copy(), index(), items(), ...)
        if isinstance(par, ast.AugAssign) and par.target is use:
            found.append(("MUTATE", where, f"the object {fname}() keeps in its cache is changed in place", f"`{ast.unparse(par)[:80]}` extends {what} in place, which is the cached result of {fname}() ({memo_names[fname]})"))
            return
        if isinstance(par, (ast.Return, ast.Yield, ast.YieldFrom)):
            found.append(("ESCAPE", where, f"the object {fname}() keeps in its cache is handed to the caller as it is", f"`{ast.unparse(par)[:80]}` hands out {what}, the cached result of {fname}() ({memo_names[fname]}), not a copy: a caller that changes what it was given changes what every later call returns"))
            return
        if isinstance(par, ast.IfExp) and (par.body is use or par.orelse is use):
            classify(par, what, fname, depth)
            return
        if isinstance(par, (ast.Tuple, ast.List)) and isinstance(par.ctx, ast.Load):
            classify(par, what, fname, depth)  # a display that holds it: where does the display go?
            return
        if isinstance(par, ast.Starred):
            return  # *x: unpacked, a copy of the elements
        if isinstance(par, (ast.Assign, ast.AnnAssign, ast.NamedExpr)) and getattr(par, "value", None) is use:
            targets = par.targets if isinstance(par, ast.Assign) else [par.target]
            for t in targets:
                if isinstance(t, ast.Name):
                    if depth >= 3:
                        undecided.append(f"{where}: the cached result of {fname}() is passed through more than three locals; not followed further")
                        continue
                    fn = enclosing_fn(par)
                    scope = fn if fn is not None else tree
                    binds = [x for x in ast.walk(scope) if isinstance(x, ast.Name) and x.id == t.id and isinstance(x.ctx, ast.Store)]
                    for x in ast.walk(scope):
                        if isinstance(x, ast.Name) and x.id == t.id and isinstance(x.ctx, (ast.Load, ast.Del)) and getattr(x, "lineno", 0) >= getattr(par, "lineno", 0):
                            # (a name rebound elsewhere may hold something else there: following it anyway can only
                            # report more; a report names the statement, so a wrong one is seen at once)
                            if len(binds) > 1 and _rebound_before(scope, t.id, par, x):
                                continue
                            classify(x, f"{t.id} (= {fname}(...))", fname, depth + 1)
                elif isinstance(t, (ast.Attribute, ast.Subscript)):
                    found.append(("ESCAPE", where, f"the object {fname}() keeps in its cache is stored as it is", f"`{ast.unparse(par)[:80]}` stores {what}, the cached result of {fname}() ({memo_names[fname]}), where other code can reach and change it"))
                # tuple targets: unpacked elements
            return
        if (isinstance(par, ast.Call) and any(a is use for a in par.args)) or (isinstance(par, ast.keyword) and par.value is use):
            call = par if isinstance(par, ast.Call) else parents.get(id(par))
            callee = ast.unparse(call.func).split(".")[-1] if isinstance(call, ast.Call) else "?"
            if callee in PRIVATE_CALLS:
                return
            undecided.append(f"{where}: the cached result of {fname}() ({memo_names[fname]}) is handed to {callee}(); whether that keeps or changes it is not followed")
            return
        # comparisons, boolean tests, for-loops, comprehensions, f-strings, with-items: reads
        return

    def _rebound_before(scope: ast.AST, name: str, bind: ast.AST, use: ast.AST) -> bool:
        """Is there another binding of `name` strictly between `bind` and `use` in source order (straight-line view)?"""
        b0, u0 = getattr(bind, "lineno", 0), getattr(use, "lineno", 0)
        for x in ast.walk(scope):
            if isinstance(x, ast.Name) and x.id == name and isinstance(x.ctx, ast.Store) and b0 < getattr(x, "lineno", 0) < u0:
                return True
        return False

    for n in ast.walk(tree):
        if isinstance(n, ast.Call):
            name = n.func.id if isinstance(n.func, ast.Name) else n.func.attr if isinstance(n.func, ast.Attribute) else None
            if name in memo_names:
                sites += 1
                classify(n, f"the result of {name}(...)", name)
        elif isinstance(n, ast.Attribute) and n.attr in memo_names and memo_names[n.attr].endswith("(property)") and isinstance(n.ctx, ast.Load):
            sites += 1
            classify(n, f"{ast.unparse(n)}", n.attr)
    return found, undecided, sites


def memoised_mutable(trees: dict[str, ast.Module]) -> tuple[dict[str, str], list[str], int]:
    names: dict[str, str] = {}
    unknown: list[str] = []
    n_memo = 0
    for rel, tree in trees.items():
        for n in ast.walk(tree):
            if isinstance(n, (ast.FunctionDef, ast.AsyncFunctionDef)):
                decos = [_deco_name(d) for d in n.decorator_list]
                if not any(d in MEMO for d in decos):
                    continue
                n_memo += 1
                m = _mutable_result(n)  # type: ignore[arg-type]
                if m is True:
                    names[n.name] = f"{rel}::{n.name}" + (" (property)" if "cached_property" in decos else "")
                elif m is None:
                    unknown.append(f"{rel}::{n.name}: memoised, and whether what it returns is mutable cannot be read from its annotation or return statements")
    return names, unknown, n_memo


FIXTURE = '''
from functools import lru_cache

@lru_cache(maxsize=None)
def _lines(text: str) -> list[str]:
    return text.splitlines(keepends=True)

def all_lines(text):
    lines = _lines(text)
    if text:
        return lines
    return lines[0:1]

def padded(text):
    lines = _lines(text)
    lines.append("")
    return len(lines)

def fine(text, i):
    lines = _lines(text)
    return lines[i] if i < len(lines) else "", list(_lines(text)), [ln for ln in lines]
'''


def run(check: Check, repo, rels: list[str] | None = None) -> None:  # noqa: ANN001
    """CACHE-ALIAS over the library (or the given files); memoised functions are collected over the whole library."""
    trees = {rel: repo.mod(rel).tree for rel in repo.py_files}
    names, unknown, n_memo = memoised_mutable(trees)
    check.count("memoised_functions", n_memo)
    # the rule on its own fixture, every run: two reports (an escape, a mutation), nothing for the private uses
    ftree = ast.parse(FIXTURE)
    fnames, _u, _n = memoised_mutable({"<fixture>": ftree})
    ffound, fund, fsites = analyse_module(ftree, "<fixture>", fnames)
    kinds = sorted(k for k, *_ in ffound)
    if kinds != ["ESCAPE", "MUTATE"] or fund or fsites != 4:
        from .core import AnalysisError

        raise AnalysisError(f"CACHE-ALIAS does not behave on its own fixture: reports {kinds}, undecided {fund}, sites {fsites}")
    check.count("cache_alias_fixture_reports", len(ffound))
    for u in unknown:
        check.defer_error(u)
    total = 0
    for rel in (rels or list(trees)):
        found, undecided, sites = analyse_module(trees[rel], rel, names)
        total += sites
        seen = set()
        for kind, construct, sig, detail in found:
            if (construct, sig) in seen:
                continue
            seen.add((construct, sig))
            check.oblige("CACHE-ALIAS", construct, sig, False, finding=Finding("CACHE-ALIAS", construct, sig, detail, {"kind": kind}))
        for u in undecided:
            check.defer_error(u)
    check.count("memoised_call_sites", total)
    check.oblige("CACHE-ALIAS", "src/pest", f"{n_memo} memoised functions, {len(names)} with a mutable result; {total} uses of such results examined" + ("" if names else " (none today: the rule is exercised on its fixture)"), True)
