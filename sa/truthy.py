"""TRUTHY-OFFSET — an offset or index must never be tested for truthiness.

Positions, find() results and stack indices are integers for which 0 is an ordinary
value.  `not x`, `x or default`, `if x:` and `a if x else b` on an expression whose
static type is `int | None` (runtime code: mypy's type; generated code: a local
inference over the emitted skeleton) silently treat offset 0 as "missing"; the parser
then behaves differently at offset 0 than anywhere else (C16), and an optimized node
whose search starts at 0 stops agreeing with the expression it replaced (C02).

The rule is exact about what it reports: a boolean-context use of an Optional[int]
expression.  It does not report `x is None`, comparisons, or non-Optional ints (bit
masks such as `modifier & SILENT`).  Display methods (__str__/__repr__) are outside it.
"""

from __future__ import annotations

import ast

from .core import AnalysisError, Finding
from .repo import Repo, qualname_of
from .typed import Types

DISPLAY = ("__str__", "__repr__", "tree_view", "dump", "dumps")


def bool_operands(tree: ast.AST):
    """Yield (context, expr) for every expression evaluated for its truth value."""
    def flat(e: ast.expr):
        if isinstance(e, ast.BoolOp):
            for v in e.values:
                yield from flat(v)
        elif isinstance(e, ast.UnaryOp) and isinstance(e.op, ast.Not):
            yield from flat(e.operand)
        else:
            yield e

    for n in ast.walk(tree):
        if isinstance(n, (ast.If, ast.While, ast.IfExp, ast.Assert)):
            for e in flat(n.test):
                yield type(n).__name__.lower(), e
        elif isinstance(n, ast.UnaryOp) and isinstance(n.op, ast.Not):
            for e in flat(n.operand):
                yield "not", e
        elif isinstance(n, ast.BoolOp):
            # every operand but the last of `or`/`and` is tested; the last is tested only if the
            # whole BoolOp is (covered by the enclosing context)
            for v in n.values[:-1]:
                for e in flat(v):
                    yield "or" if isinstance(n.op, ast.Or) else "and", e
        elif isinstance(n, ast.comprehension):
            for i in n.ifs:
                for e in flat(i):
                    yield "comprehension-if", e


def runtime_sites(repo: Repo, types: Types, rel_filter) -> list[tuple[str, str, str, str]]:
    """(rel, qualname, context, expr-text) for Optional[int] truthiness in runtime code."""
    out = []
    seen = set()
    for rel in repo.py_files:
        if not rel_filter(rel):
            continue
        m = repo.mod(rel)
        for ctx, e in bool_operands(m.tree):
            if not isinstance(e, (ast.Name, ast.Attribute, ast.Subscript, ast.NamedExpr)):
                continue
            t = types.of(rel, e)
            if not t or "builtins.int" not in t or "None" not in t:
                continue
            q = qualname_of(m, e)
            if q.split(".")[-1] in DISPLAY:
                continue
            key = (rel, q, ast.unparse(e), ctx)
            if key in seen:
                continue
            seen.add(key)
            out.append((rel, q, ctx, ast.unparse(e)))
    return out


INT_CALLS = ("find", "rfind", "index", "end", "start")


def skeleton_optional_ints(tree: ast.AST) -> set[str]:
    """Names that hold None on one assignment and an integer on another (generated code)."""
    none_assigned: set[str] = set()
    int_assigned: set[str] = set()

    def is_int(v: ast.expr, ints: set[str]) -> bool:
        if isinstance(v, ast.Constant):
            return isinstance(v.value, int) and not isinstance(v.value, bool)
        if isinstance(v, ast.Call):
            f = v.func
            if isinstance(f, ast.Name) and f.id == "len":
                return True
            if isinstance(f, ast.Attribute) and f.attr in INT_CALLS:
                return True
            return False
        if isinstance(v, ast.Attribute):
            return v.attr == "pos"
        if isinstance(v, ast.Name):
            return v.id in ints
        if isinstance(v, ast.BinOp) and isinstance(v.op, (ast.Add, ast.Sub)):
            return is_int(v.left, ints) and is_int(v.right, ints)
        return False

    for _ in range(3):
        for n in ast.walk(tree):
            if isinstance(n, ast.Assign) and len(n.targets) == 1 and isinstance(n.targets[0], ast.Name):
                name = n.targets[0].id
                if isinstance(n.value, ast.Constant) and n.value.value is None:
                    none_assigned.add(name)
                elif is_int(n.value, int_assigned):
                    int_assigned.add(name)
            elif isinstance(n, ast.AnnAssign) and isinstance(n.target, ast.Name) and n.value is not None:
                name = n.target.id
                if isinstance(n.value, ast.Constant) and n.value.value is None:
                    none_assigned.add(name)
                elif is_int(n.value, int_assigned):
                    int_assigned.add(name)
    return none_assigned & int_assigned


def skeleton_sites(source: str) -> list[tuple[str, str]] | None:
    """(context, name) for truthiness tests of Optional[int] locals in one emitted skeleton.

    Returns None if the skeleton is not a parseable statement list (the caller counts it).
    """
    try:
        tree = ast.parse(source)
    except SyntaxError:
        return None
    opt = skeleton_optional_ints(tree)
    out = []
    for ctx, e in bool_operands(tree):
        if isinstance(e, ast.Name) and e.id in opt:
            out.append((ctx, e.id))
    return sorted(set(out))


def apply(check, repo, rep, rule: str, rel_filter, sk_filter=lambda construct: True) -> None:
    """TRUTHY-OFFSET: Optional[int] offsets are never tested for truthiness (0 is a valid offset)."""
    types = Types(repo)
    if not types.available:
        check.notes.append("truthy-offset rule skipped for runtime code: mypy types unavailable")
    else:
        sites = runtime_sites(repo, types, rel_filter)
        for rel, q, ctx, expr in sites:
            m = repo.mod(rel)
            construct = f"{rel}::{q}"
            fname = q.split(".")[-1]
            fn = repo.func(rel, q) if fname not in ("<module>",) else None
            params = {a.arg for a in (fn.args.args + fn.args.kwonlyargs)} if fn is not None else set()
            latent = False
            if expr in params:
                # an optional parameter nobody supplies is always None at this test
                supplied = False
                idx = [a.arg for a in fn.args.args].index(expr) if expr in [a.arg for a in fn.args.args] else None
                for rel2 in repo.py_files:
                    for c in ast.walk(repo.mod(rel2).tree):
                        if isinstance(c, ast.Call) and ((isinstance(c.func, ast.Attribute) and c.func.attr == fname) or (isinstance(c.func, ast.Name) and c.func.id == fname)):
                            if any(k.arg == expr for k in c.keywords) or any(k.arg is None for k in c.keywords):
                                supplied = True
                            if idx is not None and len(c.args) >= (idx if isinstance(c.func, ast.Attribute) else idx + 1) and idx > 0:
                                supplied = True
                latent = not supplied
            check.count("or_default_sites")
            what = f"`{expr}` (int | None) is tested for truthiness ({ctx}): the valid offset 0 is treated as missing"
            check.oblige(rule, construct, f"`{expr}` ({ctx}): latent, no caller supplies {expr}" if latent else what, latent,
                         finding=Finding(rule, construct, f"`{expr}` (int | None) is tested for truthiness: offset 0 is treated as missing", f"{q}: {what}", {"context": ctx}))
            if latent:
                check.notes.append(f"{construct}: truthiness test of `{expr}` would ignore an explicit 0; latent because no caller passes {expr}")
    import textwrap

    seen = set()
    for _label, sk in rep.skeleton_sources:
        if not sk_filter(sk.construct):
            continue
        res = skeleton_sites(textwrap.dedent(sk.source))
        check.count("truthy_skeletons")
        if res is None:
            raise AnalysisError(f"{sk.construct}: emitted skeleton does not parse; truthiness rule cannot be applied")
        key = (sk.construct, tuple(res))
        if key in seen:
            continue
        seen.add(key)
        ok = not res
        names = ", ".join(f"{n} ({c})" for c, n in res)
        check.oblige(rule, sk.construct, "emitted code never tests an Optional[int] local for truthiness" if ok else "emitted code tests an Optional[int] local for truthiness: offset 0 is treated as missing", ok,
                     finding=Finding(rule, sk.construct, "emitted code tests an Optional[int] local for truthiness: offset 0 is treated as missing", f"{sk.construct.split('::')[-1]} emits a truthiness test of {names}, which holds None or an offset", {"names": names}))




# ----------------------------------------------------------------------------- FIND-SENTINEL
FIND_METHODS = ("find", "rfind")


def _search_names(tree: ast.AST) -> tuple[set[str], set[str]]:
    """(names holding one search result, names holding a collection of search results) - local def-use, to a fixpoint."""
    single: set[str] = set()
    many: set[str] = set()

    def is_find(e: ast.expr) -> bool:
        return isinstance(e, ast.Call) and isinstance(e.func, ast.Attribute) and e.func.attr in FIND_METHODS

    def is_result(e: ast.expr) -> bool:
        if is_find(e) or (isinstance(e, ast.Name) and e.id in single):
            return True
        if isinstance(e, ast.Call) and isinstance(e.func, ast.Name) and e.func.id in ("min", "max") and e.args and all(is_result(a) or is_collection(a) for a in e.args):
            return True
        return isinstance(e, ast.IfExp) and is_result(e.body) and is_result(e.orelse)

    def is_collection(e: ast.expr) -> bool:
        if isinstance(e, ast.Name) and e.id in many:
            return True
        if isinstance(e, (ast.ListComp, ast.GeneratorExp, ast.SetComp)) and len(e.generators) >= 1:
            return is_result(e.elt)
        if isinstance(e, (ast.List, ast.Tuple, ast.Set)) and e.elts:
            return all(is_result(x) for x in e.elts)
        return isinstance(e, ast.Call) and isinstance(e.func, ast.Name) and e.func.id in ("list", "tuple", "sorted", "filter") and bool(e.args) and is_collection(e.args[-1])

    for _ in range(4):
        before = (len(single), len(many))
        for n in ast.walk(tree):
            if isinstance(n, ast.comprehension) and isinstance(n.target, ast.Name) and is_collection(n.iter):
                single.add(n.target.id)
            elif isinstance(n, ast.For) and isinstance(n.target, ast.Name) and is_collection(n.iter):
                single.add(n.target.id)
            elif isinstance(n, (ast.Assign, ast.AnnAssign, ast.NamedExpr)):
                tgt = n.targets[0] if isinstance(n, ast.Assign) and len(n.targets) == 1 else getattr(n, "target", None)
                val = n.value
                if isinstance(tgt, ast.Name) and val is not None:
                    if is_result(val):
                        single.add(tgt.id)
                    elif is_collection(val):
                        many.add(tgt.id)
        if (len(single), len(many)) == before:
            break
    return single, many


def find_sentinel_sites(tree: ast.AST) -> list[tuple[str, str]]:
    """(kind, text): a search result (str.find: -1 when absent, else an absolute offset) compared with 0 / 1 or tested
    for truth.  `x != -1`, `x == -1`, `x < 0`, `x >= 0` and comparisons with other positions are the sound tests."""
    single, _many = _search_names(tree)

    def is_res(e: ast.expr) -> bool:
        return (isinstance(e, ast.Name) and e.id in single) or (isinstance(e, ast.Call) and isinstance(e.func, ast.Attribute) and e.func.attr in FIND_METHODS)

    out: list[tuple[str, str]] = []
    for n in ast.walk(tree):
        if isinstance(n, ast.Compare) and len(n.ops) == 1:
            left, op, right = n.left, n.ops[0], n.comparators[0]
            for a, b, flip in ((left, right, False), (right, left, True)):
                if is_res(a) and isinstance(b, ast.Constant) and isinstance(b.value, int) and not isinstance(b.value, bool):
                    o = type(op).__name__
                    if flip:
                        o = {"Lt": "Gt", "Gt": "Lt", "LtE": "GtE", "GtE": "LtE"}.get(o, o)
                    v = b.value
                    sound = (v == -1 and o in ("Eq", "NotEq", "Gt", "LtE")) or (v == 0 and o in ("Lt", "GtE"))
                    if not sound and v in (0, 1, -1):
                        out.append(("compared with a constant that singles out offset 0", ast.unparse(n)))
    for ctx, e in bool_operands(tree):
        if is_res(e):
            out.append((f"tested for truth ({ctx})", ast.unparse(e)))
    return sorted(set(out))


def apply_find_sentinel(check, repo, rep, rule: str, rel_filter, sk_filter=lambda construct: True) -> None:
    """FIND-SENTINEL: offset 0 is an ordinary search result; only -1 means "not found"."""
    import textwrap

    n_fn = 0
    for rel in repo.py_files:
        if not rel_filter(rel):
            continue
        for fn in ast.walk(repo.mod(rel).tree):
            if not isinstance(fn, ast.FunctionDef) or fn.name in DISPLAY:
                continue
            if not any(isinstance(c, ast.Call) and isinstance(c.func, ast.Attribute) and c.func.attr in FIND_METHODS for c in ast.walk(fn)):
                continue
            n_fn += 1
            construct = f"{rel}::{qualname_of(repo.mod(rel), fn)}"
            sites = find_sentinel_sites(fn)
            sig = "a search result is compared with 0 or tested for truth: a hit at offset 0 counts as no hit"
            check.oblige(rule, construct, "search results are tested against the sentinel -1 only" if not sites else sig, not sites,
                         finding=Finding(rule, construct, sig, f"{construct.split('::')[-1]}: {sig}: " + "; ".join(f"`{t}` ({k})" for k, t in sites), {"sites": [t for _, t in sites]}))
    check.count("search_result_functions", n_fn)
    seen = set()
    for _label, sk in rep.skeleton_sources:
        if not sk_filter(sk.construct) or ".find(" not in sk.source:
            continue
        try:
            tree = ast.parse(textwrap.dedent(sk.source))
        except SyntaxError:
            continue  # C01 SYNTAX
        sites = find_sentinel_sites(tree)
        key = (sk.construct, tuple(sites))
        if key in seen:
            continue
        seen.add(key)
        check.count("search_result_skeletons")
        sig = "emitted code compares a search result with 0 or tests it for truth: a hit at offset 0 counts as no hit"
        check.oblige(rule, sk.construct, "emitted code tests search results against the sentinel -1 only" if not sites else sig, not sites,
                     finding=Finding(rule, sk.construct, sig, f"{sk.construct.split('::')[-1]}: {sig}: " + "; ".join(f"`{t}` ({k})" for k, t in sites), {"sites": [t for _, t in sites]}))
