"""TRUTHY-OFFSET — an offset or index must never be tested for truthiness.

Positions, find() results and stack indices are integers for which 0 is an ordinary
value.  `not x`, `x or default`, `if x:` and `a if x else b` on an expression whose
static type is `int | None` (runtime code: mypy's type; generated code: a local
inference over the emitted skeleton) silently treat offset 0 as "missing"; the parser
then behaves differently at offset 0 than anywhere else (C16), and an optimized node
whose search starts at 0 stops agreeing with the expression it replaced (C02).

The rule is exact about what it reports: a boolean-context use of an Optional[int]
expression.  It does not report `x is None`, comparisons, or non-Optional ints (bit
masks such as `modifier & SILENT`).  Display methods (__str__/__repr__) are outside it.
"""

from __future__ import annotations

import ast

from .core import AnalysisError, Finding
from .repo import Repo, qualname_of
from .typed import Types

DISPLAY = ("__str__", "__repr__", "tree_view", "dump", "dumps")


def bool_operands(tree: ast.AST):
    """Yield (context, expr) for every expression evaluated for its truth value."""
    def flat(e: ast.expr):
        if isinstance(e, ast.BoolOp):
            for v in e.values:
                yield from flat(v)
        elif isinstance(e, ast.UnaryOp) and isinstance(e.op, ast.Not):
            yield from flat(e.operand)
        else:
            yield e

    for n in ast.walk(tree):
        if isinstance(n, (ast.If, ast.While, ast.IfExp, ast.Assert)):
            for e in flat(n.test):
                yield type(n).__name__.lower(), e
        elif isinstance(n, ast.UnaryOp) and isinstance(n.op, ast.Not):
            for e in flat(n.operand):
                yield "not", e
        elif isinstance(n, ast.BoolOp):
            # every operand but the last of `or`/`and` is tested; the last is tested only if the
            # whole BoolOp is (covered by the enclosing context)
            for v in n.values[:-1]:
                for e in flat(v):
                    yield "or" if isinstance(n.op, ast.Or) else "and", e
        elif isinstance(n, ast.comprehension):
            for i in n.ifs:
                for e in flat(i):
                    yield "comprehension-if", e


def runtime_sites(repo: Repo, types: Types, rel_filter) -> list[tuple[str, str, str, str]]:
    """(rel, qualname, context, expr-text) for Optional[int] truthiness in runtime code."""
    out = []
    seen = set()
    for rel in repo.py_files:
        if not rel_filter(rel):
            continue
        m = repo.mod(rel)
        for ctx, e in bool_operands(m.tree):
            if not isinstance(e, (ast.Name, ast.Attribute, ast.Subscript, ast.NamedExpr)):
                continue
            t = types.of(rel, e)
            if not t or "builtins.int" not in t or "None" not in t:
                continue
            q = qualname_of(m, e)
            if q.split(".")[-1] in DISPLAY:
                continue
            key = (rel, q, ast.unparse(e), ctx)
            if key in seen:
                continue
            seen.add(key)
            out.append((rel, q, ctx, ast.unparse(e)))
    return out


INT_CALLS = ("find", "rfind", "index", "end", "start")


def skeleton_optional_ints(tree: ast.AST) -> set[str]:
    """Names that hold None on one assignment and an integer on another (generated code)."""
    none_assigned: set[str] = set()
    int_assigned: set[str] = set()

    def is_int(v: ast.expr, ints: set[str]) -> bool:
        if isinstance(v, ast.Constant):
            return isinstance(v.value, int) and not isinstance(v.value, bool)
        if isinstance(v, ast.Call):
            f = v.func
            if isinstance(f, ast.Name) and f.id == "len":
                return True
            if isinstance(f, ast.Attribute) and f.attr in INT_CALLS:
                return True
            return False
        if isinstance(v, ast.Attribute):
            return v.attr == "pos"
        if isinstance(v, ast.Name):
            return v.id in ints
        if isinstance(v, ast.BinOp) and isinstance(v.op, (ast.Add, ast.Sub)):
            return is_int(v.left, ints) and is_int(v.right, ints)
        return False

    for _ in range(3):
        for n in ast.walk(tree):
            if isinstance(n, ast.Assign) and len(n.targets) == 1 and isinstance(n.targets[0], ast.Name):
                name = n.targets[0].id
                if isinstance(n.value, ast.Constant) and n.value.value is None:
                    none_assigned.add(name)
                elif is_int(n.value, int_assigned):
                    int_assigned.add(name)
            elif isinstance(n, ast.AnnAssign) and isinstance(n.target, ast.Name) and n.value is not None:
                name = n.target.id
                if isinstance(n.value, ast.Constant) and n.value.value is None:
                    none_assigned.add(name)
                elif is_int(n.value, int_assigned):
                    int_assigned.add(name)
    return none_assigned & int_assigned


def skeleton_sites(source: str) -> list[tuple[str, str]] | None:
    """(context, name) for truthiness tests of Optional[int] locals in one emitted skeleton.

    Returns None if the skeleton is not a parseable statement list (the caller counts it).
    """
    try:
        tree = ast.parse(source)
    except SyntaxError:
        return None
    opt = skeleton_optional_ints(tree)
    out = []
    for ctx, e in bool_operands(tree):
        if isinstance(e, ast.Name) and e.id in opt:
            out.append((ctx, e.id))
    return sorted(set(out))


def apply(check, repo, rep, rule: str, rel_filter, sk_filter=lambda construct: True) -> None:
    """TRUTHY-OFFSET: Optional[int] offsets are never tested for truthiness (0 is a valid offset)."""
    types = Types(repo)
    if not types.available:
        check.notes.append("truthy-offset rule skipped for runtime code: mypy types unavailable")
    else:
        sites = runtime_sites(repo, types, rel_filter)
        for rel, q, ctx, expr in sites:
            m = repo.mod(rel)
            construct = f"{rel}::{q}"
            fname = q.split(".")[-1]
            fn = repo.func(rel, q) if fname not in ("<module>",) else None
            params = {a.arg for a in (fn.args.args + fn.args.kwonlyargs)} if fn is not None else set()
            latent = False
            if expr in params:
                # an optional parameter nobody supplies is always None at this test
                supplied = False
                idx = [a.arg for a in fn.args.args].index(expr) if expr in [a.arg for a in fn.args.args] else None
                for rel2 in repo.py_files:
                    for c in ast.walk(repo.mod(rel2).tree):
                        if isinstance(c, ast.Call) and ((isinstance(c.func, ast.Attribute) and c.func.attr == fname) or (isinstance(c.func, ast.Name) and c.func.id == fname)):
                            if any(k.arg == expr for k in c.keywords) or any(k.arg is None for k in c.keywords):
                                supplied = True
                            if idx is not None and len(c.args) >= (idx if isinstance(c.func, ast.Attribute) else idx + 1) and idx > 0:
                                supplied = True
                latent = not supplied
            check.count("or_default_sites")
            what = f"`{expr}` (int | None) is tested for truthiness ({ctx}): the valid offset 0 is treated as missing"
            check.oblige(rule, construct, f"`{expr}` ({ctx}): latent, no caller supplies {expr}" if latent else what, latent,
                         finding=Finding(rule, construct, f"`{expr}` (int | None) is tested for truthiness: offset 0 is treated as missing", f"{q}: {what}", {"context": ctx}))
            if latent:
                check.notes.append(f"{construct}: truthiness test of `{expr}` would ignore an explicit 0; latent because no caller passes {expr}")
    import textwrap

    seen = set()
    for _label, sk in rep.skeleton_sources:
        if not sk_filter(sk.construct):
            continue
        res = skeleton_sites(textwrap.dedent(sk.source))
        check.count("truthy_skeletons")
        if res is None:
            raise AnalysisError(f"{sk.construct}: emitted skeleton does not parse; truthiness rule cannot be applied")
        key = (sk.construct, tuple(res))
        if key in seen:
            continue
        seen.add(key)
        ok = not res
        names = ", ".join(f"{n} ({c})" for c, n in res)
        check.oblige(rule, sk.construct, "emitted code never tests an Optional[int] local for truthiness" if ok else "emitted code tests an Optional[int] local for truthiness: offset 0 is treated as missing", ok,
                     finding=Finding(rule, sk.construct, "emitted code tests an Optional[int] local for truthiness: offset 0 is treated as missing", f"{sk.construct.split('::')[-1]} emits a truthiness test of {names}, which holds None or an offset", {"names": names}))


