"""C01 GEN-DIFF — Rule.parse against the code generate_rule() emits, on model rule tables.

A model rule table (two to four rules whose bodies are built from the repository's own
expression classes over *oracle leaves*) is handed to both siblings:

  interpreter   Rule.parse of the start rule, evaluated from its syntax tree on a model
                ParserState whose parser.rules is the table;
  generator     generate_rule(name, table) and generate_parse_trivia(table), evaluated
                from their syntax trees with the repository's own Builder, give the
                source text of the rule closures; that source is then evaluated as it
                stands (the names the generated module imports - ParserState, Pair,
                RuleFrame - are the model classes).

The leaves follow scripts of outcomes (sa/opsem.py: succeed consuming one character and
yielding a pair, succeed empty, fail clean, fail dirty; a trivia leaf may also push on
the user stack), the same on both sides; no terminal of the library ever looks at a
character.  Result, position, user stack, the *tree* of pairs (rule name, span, tag,
children), tag stack, rule-stack depth, atomic depth and open checkpoints must agree.
The tables enumerate what the generator decides at generation time and the interpreter
at parse time: the modifier of the rule, the shape of its body (a leaf, a reference, a
group around a reference, a sequence with a reference), the modifier of the referenced
rule and of a rule behind a silent alias, with and without trivia rules.
"""

from __future__ import annotations

import ast
import itertools

from .core import AnalysisError
from .objmodel import ClassModel, model_attr, new_parser_state, counter_value, open_checkpoints, stack_items
from .opsem import INPUT, RELS, Oracle, make_oracle, program
from .ordabs import Ev, ModelRaise, Obj
from .repo import Repo

GEN_RELS = ["src/pest/grammar/codegen/builder.py", "src/pest/grammar/codegen/generate.py"]


def gen_program(repo: Repo, where: str) -> ClassModel:
    import sa.opsem as opsem  # noqa: PLC0415

    saved = list(opsem.RELS)
    try:
        opsem.RELS[:] = saved + [r for r in GEN_RELS if r not in saved]
        cm = program(repo, where)
    finally:
        opsem.RELS[:] = saved
    for need in ("Builder", "Rule", "Identifier", "Sequence", "Group", "Pair", "RuleFrame"):
        if need not in cm.classes:
            raise AnalysisError(f"{where}: anchor vanished: class {need}")
    for need in ("generate_rule", "generate_parse_trivia"):
        if need not in cm.env:
            raise AnalysisError(f"{where}: anchor vanished: function {need}")
    return cm


def pair_shape(p: object) -> object:
    if isinstance(p, Obj) and "Pair" in p.kinds:
        d = p.__dict__
        return (d.get("name"), d.get("start"), d.get("end"), d.get("tag"), tuple(pair_shape(c) for c in d.get("children") or []))
    return str(p)


def _sattr(state: Obj, name: str):  # noqa: ANN202
    cm = state.__dict__.get("_sa_cm")
    return model_attr(cm, state, name) if cm is not None else state.__dict__.get(name)


def observe(state: Obj, pairs: list, result: object) -> dict:
    return {
        "result": bool(result), "pos": state.pos, "stack": stack_items(state, state.user_stack), "pairs": tuple(pair_shape(p) for p in pairs),
        "frames": len(stack_items(state, state.rule_stack)), "atomic": counter_value(state, state.atomic_depth), "negdepth": state.neg_pred_depth,
        "tags": list(state.tag_stack), "open_checkpoints": open_checkpoints(state),
        "hide": bool(state.__dict__.get("hide_pairs", False)),
        # the furthest-failure record: where, and under which rule names (label texts are not compared)
        "furthest": (_sattr(state, "furthest_pos"), tuple(sorted(map(str, _sattr(state, "furthest_expected") or {}))), tuple(sorted(map(str, _sattr(state, "furthest_unexpected") or {})))),
    }


class Table:
    """A model rule table with oracle leaves; built afresh for each side."""

    def __init__(self, cm: ClassModel, spec: dict, scripts: dict, log: list):
        self.cm, self.log = cm, log
        self.oracles: dict[str, Oracle] = {}
        self.scripts = scripts
        self.rules = {name: cm.new("Rule", name, self.build(body), mod) for name, (mod, body) in spec.items()}

    def leaf(self, lid: str) -> Obj:
        o = make_oracle(lid, self.scripts.get(lid, ["S1"]), self.log)
        self.oracles[lid] = o
        node = Obj(("OracleExpr", "Expression"), tag=None)
        node.__dict__["parse"] = o
        node.__dict__["__str__"] = lambda: f"<{lid}>"
        cm = self.cm
        node.__dict__["generate"] = lambda gen, mv, pv: cm.call(gen, "writeln", f"{mv} = LEAF_{lid}(state, {pv})")
        return node

    def build(self, b: object) -> Obj:
        cm = self.cm
        kind = b[0]
        if kind == "leaf":
            return self.leaf(b[1])
        if kind == "ref":
            return cm.new("Identifier", b[1], b[2] if len(b) > 2 else None)
        if kind == "group":
            return cm.new("Group", self.build(b[1]), b[2] if len(b) > 2 else None)
        if kind == "seq":
            return cm.new("Sequence", *[self.build(x) for x in b[1:]])
        if kind == "choice":
            return cm.new("Choice", *[self.build(x) for x in b[1:]])
        if kind == "rep":
            return cm.new("Repeat", self.build(b[1]))
        if kind == "opt":
            return cm.new("Optional", self.build(b[1]))
        if kind == "neg":
            return cm.new("NegativePredicate", self.build(b[1]))
        if kind == "pos":
            return cm.new("PositivePredicate", self.build(b[1]))
        raise AnalysisError(f"gensem: unknown body kind {kind}")


def order(spec: dict) -> list[str]:
    """Rule names, referenced rules first (the model tables are acyclic)."""
    def refs(b: object) -> list[str]:
        if b[0] == "ref":
            return [b[1]]
        return [r for x in b[1:] if isinstance(x, tuple) for r in refs(x)]

    out: list[str] = []

    def visit(n: str) -> None:
        if n in out:
            return
        for r in refs(spec[n][1]):
            if r in spec:
                visit(r)
        out.append(n)

    for n in spec:
        visit(n)
    return out


def run_interpreter(cm: ClassModel, spec: dict, scripts: dict, start: str, entry_stack: tuple) -> dict:
    log: list = []
    t = Table(cm, spec, scripts, log)
    parser = Obj("Parser", rules=t.rules)
    state = new_parser_state(cm, INPUT, 1, parser, "C01 GEN-DIFF")
    for item in entry_stack:
        cm.call(state.user_stack, "push", item)
    pairs: list = []
    try:
        res = cm.call(t.rules[start], "parse", state, pairs)
    except ModelRaise as err:
        return {"raises": str(err).split(":")[0]}
    obs = observe(state, pairs, res)
    obs["log"] = [x[:2] for x in log]
    return obs


def generated_sources(cm: ClassModel, spec: dict) -> dict[str, str]:
    t = Table(cm, spec, {}, [])
    out = {name: cm.env["generate_rule"](name, t.rules) for name in order(spec)}
    out["<trivia>"] = cm.env["generate_parse_trivia"](t.rules)
    return out


def run_generated(cm: ClassModel, spec: dict, sources: dict[str, str], scripts: dict, start: str, entry_stack: tuple, where: str) -> dict:
    log: list = []
    env = dict(cm.env)
    env["Callable"] = Obj("Callable")
    leaves: dict[str, Oracle] = {}

    def leaf_ids(b: object) -> list[str]:
        if b[0] == "leaf":
            return [b[1]]
        return [r for x in b[1:] if isinstance(x, tuple) for r in leaf_ids(x)]

    for _, (_, body) in spec.items():
        for lid in leaf_ids(body):
            leaves[lid] = make_oracle(lid, scripts.get(lid, ["S1"]), log)
            env[f"LEAF_{lid}"] = leaves[lid]

    def late(name: str):  # noqa: ANN202
        def call(*a: object) -> object:
            f = env.get(name)
            if f is call or f is None:
                raise AnalysisError(f"{where}: the generated code calls {name} before it is defined")
            return f(*a)
        return call

    for name in list(spec) + ["SKIP"]:
        env[f"parse_{name}"] = late(f"parse_{name}")
    env["parse_trivia"] = late("parse_trivia")
    env["__closed_world__"] = True  # everything the emitted closures may name is in env: an unbound name is a NameError
    ev = Ev(env, where, cm, 200000)
    try:
        for key in ["<trivia>"] + [n for n in sources if n != "<trivia>"]:
            ev.run(ast.parse(sources[key]).body)
    except SyntaxError as err:
        raise AnalysisError(f"{where}: the generated source does not parse: {err.msg}") from err
    state = new_parser_state(cm, INPUT, 1, None, where)
    for item in entry_stack:
        cm.call(state.user_stack, "push", item)
    pairs: list = []
    try:
        res = env[f"parse_{start}"](state, pairs)
    except ModelRaise as err:
        return {"raises": str(err).split(":")[0]}
    obs = observe(state, pairs, res)
    obs["log"] = [x[:2] for x in log]
    return obs


def scenarios(masks: dict, thorough: bool) -> list[tuple[str, dict, str, list[dict]]]:
    """[(description, spec, start rule, [leaf scripts])]"""
    S, A, C, N = masks["SILENT"], masks["ATOMIC"], masks["COMPOUND"], masks["NONATOMIC"]
    sym = {0: "", S: "_", A: "@", C: "$", N: "!", S | A: "_@", S | C: "_$", S | N: "_!"}
    out = []
    outer_mods = [0, S, A, C, N] + ([S | A, S | C, S | N] if thorough else [])
    inner_mods = [0, S, A, C, N]
    deep_mods = [0, C, N] if thorough else [C]
    shapes = {
        "x": ("ref", "x"),
        "(x)": ("group", ("ref", "x")),
        "a ~ x": ("seq", ("leaf", "a"), ("ref", "x")),
        "#t = x": ("ref", "x", "t"),
    }
    if thorough:
        shapes["x | a"] = ("choice", ("ref", "x"), ("leaf", "a"))
        shapes["x?"] = ("opt", ("ref", "x"))
    trivia = {"no trivia": {}, "WHITESPACE": {"WHITESPACE": (S, ("leaf", "w"))}}
    if thorough:
        trivia["loud WHITESPACE"] = {"WHITESPACE": (0, ("leaf", "w"))}
        trivia["WHITESPACE and COMMENT"] = {"WHITESPACE": (S, ("leaf", "w")), "COMMENT": (0, ("leaf", "k"))}
    for (tname, tspec), m1, (sname, shape), m2 in itertools.product(trivia.items(), outer_mods, shapes.items(), inner_mods):
        # x produces two pairs
        spec = {**tspec, "r": (m1, shape), "x": (m2, ("seq", ("leaf", "b"), ("leaf", "c")))}
        scripts = [{"w": ["S1", "Fc", "Fc", "Fc"], "k": ["Fc", "S1", "Fc", "Fc", "Fc"]}]
        if thorough:
            scripts.append({"w": ["Fc"] * 6, "k": ["Fc"] * 6, "c": ["Fd"]})
        out.append((f"{tname}; r = {sym[m1]}{{ {sname} }}, x = {sym[m2]}{{ b ~ c }}", spec, "r", scripts))
        # x is an alias for a deeper rule
        for m3 in deep_mods:
            if sname not in ("x", "(x)", "#t = x") or tname not in ("no trivia", "WHITESPACE") or (sname == "#t = x" and not thorough):
                continue
            spec = {**tspec, "r": (m1, shape), "x": (m2, ("ref", "y")), "y": (m3, ("seq", ("leaf", "b"), ("leaf", "c")))}
            out.append((f"{tname}; r = {sym[m1]}{{ {sname} }}, x = {sym[m2]}{{ y }}, y = {sym[m3]}{{ b ~ c }}", spec, "r", scripts[:1]))
    # trivia rules are atomic by name, whatever the table contains: a sequence or a rule call inside a trivia body
    # must not match trivia itself - in tables WITHOUT any @ / $ rule too
    for body_name, tbody, extra in (("w1 ~ w2", ("seq", ("leaf", "w"), ("leaf", "v")), {}), ("n", ("ref", "n"), {"n": (0, ("seq", ("leaf", "w"), ("leaf", "v")))})):
        for tname2 in ("WHITESPACE", "COMMENT"):
            for tmod in (S, 0):
                spec = {tname2: (tmod, tbody), **extra, "r": (0, ("seq", ("leaf", "a"), ("leaf", "b")))}
                out.append((f"{tname2} = {sym[tmod]}{{ {body_name} }} in a table without atomic rules; r = {{ a ~ b }}", spec, "r", [{"w": ["S1", "S1", "Fc", "Fc", "Fc"], "v": ["S1", "S1", "Fc", "Fc"]}]))
    # predicates: a negative predicate whose operand matches records an *unexpected* failure under an explicit rule
    # name - the operand's, when the operand is a rule reference - and every name in the record is a rule of the table
    for oname, operand, extra in (("x", ("ref", "x"), {"x": (0, ("leaf", "a"))}), ("x (silent)", ("ref", "x"), {"x": (S, ("leaf", "a"))}), ("(x)", ("group", ("ref", "x")), {"x": (0, ("leaf", "a"))}),
                                  ("a", ("leaf", "a"), {}), ("(a ~ b)", ("group", ("seq", ("leaf", "a"), ("leaf", "b"))), {})):
        for pk, sign in (("neg", "!"), ("pos", "&")):
            for m1 in (0, A):
                for ascript in (["S1"], ["Fc"]):
                    spec = {**extra, "r": (m1, ("seq", (pk, operand), ("leaf", "c")))}
                    out.append((f"predicate; r = {sym[m1]}{{ {sign}{oname} ~ c }}, a: {ascript}", spec, "r", [{"a": list(ascript), "b": ["S1"], "c": ["S1"]}]))
    # a predicate that fails *inside* a trivia rule, after a non-atomic rule of the trivia body has itself matched
    # trivia: failures stay suppressed until the outermost trivia attempt is over (leaves placed by position:
    # c a b q at 1 2 3 4, d at 2 - the trivia attempt after c reaches !q, fails, and is rewound)
    for tname2 in ("WHITESPACE", "COMMENT"):
        for m_n in (N, 0):
            spec = {tname2: (S, ("seq", ("ref", "n"), ("neg", ("leaf", "q")))), "n": (m_n, ("seq", ("leaf", "a"), ("leaf", "b"))), "r": (0, ("seq", ("leaf", "c"), ("leaf", "d")))}
            out.append((f"predicate inside trivia; {tname2} = _{{ n ~ !q }}, n = {sym[m_n]}{{ a ~ b }}; r = {{ c ~ d }}", spec, "r", [{"c": {1}, "a": {2}, "b": {3}, "q": {4}, "d": {2}}]))
    # trivia with a stack effect around repetitions and sequences
    for body_name, body in (("a* ~ b", ("seq", ("rep", ("leaf", "a")), ("leaf", "b"))), ("(a ~ b)*", ("rep", ("seq", ("leaf", "a"), ("leaf", "b")))), ("a? ~ b", ("seq", ("opt", ("leaf", "a")), ("leaf", "b")))):
        for wscript in (["S1p", "Fc", "S1p", "Fc", "S1p", "Fc", "Fc"], ["S1", "Fc", "S1", "Fc", "Fc", "Fc"]):
            for ascript in (["S1", "Fc"], ["S1", "S1", "Fc"], ["Fc"], ["S1", "Fd"]):
                spec = {"WHITESPACE": (S, ("leaf", "w")), "r": (0, body)}
                out.append((f"WHITESPACE {'pushes on the stack' if 'S1p' in wscript else 'is plain'}; r = {{ {body_name} }}, a: {ascript}", spec, "r", [{"w": wscript, "a": ascript, "b": ["S1", "S1", "Fc"]}]))
    return out


def check_gen(repo: Repo, where: str, masks: dict, thorough: bool = False, select=None) -> tuple[int, list[tuple[str, str]]]:  # noqa: ANN001
    """``select``: a predicate on scenario descriptions (C04 takes the tables with trivia rules, C13 the predicates)."""
    cm = gen_program(repo, where)
    bad: list[tuple[str, str]] = []
    n = 0
    for desc, spec, start, script_list in scenarios(masks, thorough):
        if select is not None and not select(desc, spec):
            continue
        try:
            sources = generated_sources(cm, spec)
        except ModelRaise as err:
            bad.append(("the generator raises on a well-formed rule table", f"{desc}: {err}"))
            continue
        for scripts in script_list:
            n += 1
            oi = run_interpreter(cm, spec, scripts, start, ())
            og = run_generated(cm, spec, sources, scripts, start, (), where)
            tail = "" if len(script_list) == 1 else f" (leaf outcomes {scripts})"
            if "raises" in oi or "raises" in og:
                if oi.get("raises") != og.get("raises"):
                    bad.append(("the siblings raise different exceptions" if "raises" in oi and "raises" in og else "one sibling raises where the other does not", f"{desc}{tail}: Rule.parse {oi.get('raises') or 'returns'}, generated code {og.get('raises') or 'returns'}"))
                continue
            if oi["result"] != og["result"]:
                bad.append(("the siblings disagree on success", f"{desc}{tail}: Rule.parse returns {oi['result']}, generated code {og['result']}"))
                continue
            for side, o in (("Rule.parse", oi), ("the generated code", og)):
                if o["open_checkpoints"] or (o["frames"], o["atomic"], o["negdepth"], o["hide"]) != (0, 0, 0, False):
                    bad.append((f"{side} leaves checkpoints open or depth counters / pair visibility changed", f"{desc}{tail}: open {o['open_checkpoints']}, frames {o['frames']}, atomic {o['atomic']}, hide_pairs {o['hide']}"))
            rule_names = set(spec)
            for side, o in (("Rule.parse", oi), ("the generated code", og)):
                strangers = [x for x in o["furthest"][1] + o["furthest"][2] if x not in rule_names]
                if strangers:
                    bad.append((f"{side} records a failure under a name that is not a rule of the grammar", f"{desc}{tail}: {strangers!r} (expected {list(o['furthest'][1])}, unexpected {list(o['furthest'][2])})"))
            if oi["furthest"] != og["furthest"]:
                bad.append(("the siblings record a different furthest failure (position or rule names)", f"{desc}{tail}: Rule.parse {oi['furthest']}, generated code {og['furthest']}"))
            if not oi["result"]:
                continue
            for key, what in (("pairs", "tree of pairs"), ("pos", "position"), ("stack", "user stack"), ("tags", "tag stack"), ("log", "order of attempts")):
                if oi[key] != og[key]:
                    bad.append((f"the siblings succeed with a different {what}", f"{desc}{tail}: Rule.parse {oi[key]}, generated code {og[key]}"))
                    break
    return n, bad
