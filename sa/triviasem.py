"""C04 TRIVIA (semantic) — ParserState.parse_trivia asks the trivia rules, every time.

What implicit trivia matches at a position is decided by the grammar's WHITESPACE /
COMMENT rules (or the fused SKIP rule) and may depend on the user stack (a COMMENT that
starts with PEEK is legal).  parse_trivia itself must therefore be memoryless: outside
atomic context every call consults the rules, in pest's order
WHITESPACE* ~ (COMMENT ~ WHITESPACE*)*, with failure recording suppressed, rewinding
what a failed attempt consumed, and leaving pairs of failed attempts out.

ParserState (with Stack and SnapshottingInt) is instantiated from its syntax tree
(sa/objmodel.py); the trivia rules are oracles that follow a script of outcomes and
record how they were called.  Scripts: every sequence of up to four attempts' outcomes
for each configuration of defined rules; each is run on a fresh state at start
position 0 and at a later one, and a second time on the same state at the same position.
"""

from __future__ import annotations

import ast

import itertools

from .core import AnalysisError
from .objmodel import ClassModel, new_parser_state, open_checkpoints
from .ordabs import Ev, ModelRaise, Obj
from .repo import Repo

RELS = ["src/pest/state.py", "src/pest/stack.py", "src/pest/checkpoint_int.py"]


class Oracle:
    """A trivia rule: each call takes the next outcome of its script (True: consumes one character and yields a pair)."""

    def __init__(self, name: str, script: list[bool], log: list):
        self.name, self.script, self.log = name, list(script), log

    def parse(self, state: Obj, pairs: list) -> bool:
        self.log.append((self.name, state.pos, bool(state.__dict__.get("_suppress_failures")), open_checkpoints(state)))
        ok = self.script.pop(0) if self.script else False
        if self.name == "SKIP":
            # the fused rule is a repetition: it always succeeds, consuming what it matched (possibly nothing)
            if ok:
                state.pos += 1
                pairs.append(f"{self.name}@{state.pos - 1}")
            return True
        if ok:
            state.pos += 1
            pairs.append(f"{self.name}@{state.pos - 1}")
        else:
            # a failed attempt may have moved the cursor and produced pairs: the caller has to undo both
            state.pos += 1
            pairs.append(f"junk-{self.name}")
        return ok


def reference(defined: tuple[str, ...], scripts: dict[str, list[bool]]) -> tuple[list[str], int]:
    """Attempt order and number of successes of WHITESPACE* ~ (COMMENT ~ WHITESPACE*)* (or SKIP alone)."""
    s = {k: list(v) for k, v in scripts.items()}
    order: list[str] = []
    wins = 0

    def attempt(name: str) -> bool:
        nonlocal wins
        order.append(name)
        ok = s[name].pop(0) if s[name] else False
        wins += ok
        return ok

    if defined == ("SKIP",):
        attempt("SKIP")
        return order, wins
    ws, cm_ = "WHITESPACE" in defined, "COMMENT" in defined
    while True:
        if ws:
            while attempt("WHITESPACE"):
                pass
        if cm_ and attempt("COMMENT"):
            continue
        break
    return order, wins


def check_trivia(repo: Repo, where: str) -> tuple[int, list[tuple[str, str]]]:  # noqa: PLR0912
    cm = ClassModel(repo, RELS, where, {"Generic": None}, max_steps=100000)
    for need in ("ParserState", "Stack", "SnapshottingInt"):
        if need not in cm.classes:
            raise AnalysisError(f"anchor vanished: class {need}")
    bad: list[tuple[str, str]] = []
    n = 0
    configs = [("WHITESPACE",), ("COMMENT",), ("WHITESPACE", "COMMENT"), ("SKIP",), ()]
    for defined in configs:
        outcomes = [dict(zip(defined, combo)) for combo in itertools.product([[], [True], [True, True], [True, False, True]], repeat=len(defined))] or [{}]
        for scripts in outcomes:
            for start in (0, 2):
                for atomic in (False, True):
                    n += 1
                    log: list = []
                    rules = {name: Obj("Rule", name=name) for name in defined}
                    oracles = {name: Oracle(name, scripts[name], log) for name in defined}
                    for name, r in rules.items():
                        r.__dict__["parse"] = oracles[name].parse
                    parser = Obj("Parser", rules=rules)
                    try:
                        state = new_parser_state(cm, "x" * 12, start, parser, where)
                        if atomic:
                            # (raised the way a rule raises it: through the counter's own +=, whatever it keeps inside)
                            Ev({**cm.env, "state": state}, where, cm, 2000).run(ast.parse("state.atomic_depth += 1").body)
                        pairs: list = []
                        cm.call(state, "parse_trivia", pairs)
                        first_log = list(log)
                        pos_after = state.pos
                        # the same state is asked again at the position it is at now: the rules must be consulted again
                        again_scripts = {name: [False] for name in defined}
                        for name in defined:
                            oracles[name].script = list(again_scripts[name])
                        log.clear()
                        pairs2: list = []
                        cm.call(state, "parse_trivia", pairs2)
                        second_log = list(log)
                    except ModelRaise as err:
                        bad.append(("parse_trivia raises", f"rules {defined}, outcomes {scripts}, start {start}: {err}"))
                        continue
                    desc = f"rules {list(defined) or 'none'}, outcomes {scripts}, start_pos {start}{', atomic' if atomic else ''}"
                    if atomic or not defined:
                        if first_log or second_log:
                            bad.append(("trivia is attempted in atomic context or without trivia rules", f"{desc}: attempts {[a[0] for a in first_log]}"))
                        if state.pos != start:
                            bad.append(("the position moves although no trivia may be matched", f"{desc}: pos {state.pos}"))
                        continue
                    want_order, wins = reference(defined, scripts)
                    got_order = [a[0] for a in first_log]
                    if got_order != want_order:
                        kind = "the trivia rules are not consulted" if not got_order else "the trivia rules are not tried in pest's order WHITESPACE* ~ (COMMENT ~ WHITESPACE*)*"
                        bad.append((kind, f"{desc}: attempts {got_order}, pest's order is {want_order}"))
                        continue
                    if pos_after != start + wins:
                        bad.append(("what a failed trivia attempt consumed is not given back (or a match is lost)", f"{desc}: ends at {pos_after}, the matches end at {start + wins}"))
                    if any(str(p).startswith("junk") for p in pairs) or len(pairs) != wins:
                        bad.append(("pairs of failed trivia attempts reach the caller (or pairs of matches are lost)", f"{desc}: pairs {pairs}"))
                    if not all(a[2] for a in first_log):
                        bad.append(("a trivia rule is attempted without failure suppression", f"{desc}: {[a[0] for a in first_log if not a[2]]}"))
                    if state.__dict__.get("_suppress_failures"):
                        bad.append(("failure suppression stays on after parse_trivia", desc))
                    if open_checkpoints(state) != 0:
                        bad.append(("a checkpoint taken by parse_trivia is left open", desc))
                    want_second, _ = reference(defined, {k: [False] for k in defined})
                    if [a[0] for a in second_log] != want_second:
                        bad.append(("a second call at the same position does not consult the trivia rules again", f"{desc}: second call attempts {[a[0] for a in second_log]}, expected {want_second} — what trivia matches may depend on the user stack, so nothing may be remembered"))
    return n, bad
