"""C12 / C10 DECODE — `unescape_string` denotes what pest's escapes denote, wherever they stand.

The decoder walks the text with a cursor; each escape form is handled by its own branch
and the cursor arithmetic of a branch does not depend on the characters around it.  Its
behaviour is therefore described by: every escape form x every neighbourhood (nothing,
a plain character, or another escape before and after it).  The function is evaluated
from its syntax tree (sa/ordabs.py) on that family and compared with the values pest
defines; malformed escapes must end in PestGrammarSyntaxError and nothing else.
"""

from __future__ import annotations

import itertools
import re

from .core import AnalysisError
from .objmodel import ClassModel, install_re
from .ordabs import ModelRaise, Obj, Sym
from .repo import Repo

ESCAPES = {
    '\\"': '"', "\\\\": "\\", "\\r": "\r", "\\n": "\n", "\\t": "\t", "\\0": "\x00", "\\'": "'",
    "\\x41": "A", "\\x7f": "\x7f", "\\xFF": "\xff", "\\x0a": "\n",
    "\\u{41}": "A", "\\u{e9}": "\xe9", "\\u{20AC}": "€", "\\u{1F600}": "\U0001f600", "\\u{10FFFF}": "\U0010ffff", "\\u{0041}": "A",
}
MALFORMED = ["\\", "a\\", "\\x", "\\x4", "\\xg1", "\\x4g", "\\u", "\\u{", "\\u{41", "\\u{}", "\\u{4}", "\\u{g1}", "\\u{1234567}", "\\u41", "\\q",
             # the right number of hex digits, but beyond the last code point (chr() would raise ValueError)
             "\\u{110000}", "\\u{FFFFFF}",
             # what int(text, 16) forgives and pest's hex_digit does not
             "\\x 1", "\\x1 ", "\\x+1", "\\x-1", "\\x_1", "\\x1_", "\\x\u06641", "\\u{ 41}", "\\u{41 }", "\\u{+41}", "\\u{-41}", "\\u{4_1}", "\\u{0x41}", "\\u{\u0664\u0661}"]


def program(repo: Repo, where: str) -> ClassModel:
    rels = [r for r in ("src/pest/grammar/unescape.py", "src/pest/grammar/exceptions.py", "src/pest/grammar/tokens.py") if r in repo.py_files]
    restub = Obj("re")
    cm = ClassModel(repo, rels, where, {"re": restub}, max_steps=100000)

    install_re(cm)
    if "unescape_string" not in cm.env:
        raise AnalysisError("anchor vanished: unescape_string")
    return cm


def check_decoder(repo: Repo, where: str, lo: int = 2, hi: int = 6, hexdigits: str = "0123456789abcdefABCDEF") -> tuple[int, list[tuple[str, str]]]:
    """``lo``/``hi``: digits a \\u{...} escape takes, ``hexdigits``: the hex_digit set — both read from meta.pest by the caller."""
    forms_extra: dict[str, str] = {}
    malformed_extra: list[str] = []
    for d in hexdigits:
        forms_extra[f"\\x{d}{d}"] = chr(int(d + d, 16))
        forms_extra["\\u{" + d * lo + "}"] = chr(int(d * lo, 16))
    for k in range(lo, hi + 1):
        forms_extra["\\u{" + "1" * k + "}"] = chr(int("1" * k, 16)) if int("1" * k, 16) <= 0x10FFFF else ""
    forms_extra = {k: v for k, v in forms_extra.items() if v != ""}
    malformed_extra += ["\\u{" + "1" * (lo - 1) + "}", "\\u{" + "1" * (hi + 1) + "}"]
    for c in sorted({chr(ord(x) + dx) for x in hexdigits for dx in (-1, 1)} - set(hexdigits)):
        malformed_extra += [f"\\x{c}1", f"\\x1{c}", "\\u{1" + c + "}"]
    escapes = {**ESCAPES, **forms_extra}
    malformed = MALFORMED + [m_ for m_ in malformed_extra if m_ not in MALFORMED]
    cm = program(repo, where)
    fn = cm.env["unescape_string"]
    token = cm.new("Token", Sym("TokenKind.STRING"), "t", 0, "t") if "Token" in cm.classes else Obj("Token", kind=Sym("TokenKind.STRING"), value="t", start=0, grammar="t")
    bad: list[tuple[str, str]] = []
    n = 0
    around = [("", ""), ("a", ""), ("", "b"), ("a", "b")]
    forms = list(escapes.items())
    seconds = [(e, v) for e, v in ESCAPES.items() if e in ("\\n", "\\\\", "\\x41", "\\u{41}")]
    cases: list[tuple[str, str]] = []
    for (e, v), (p, s_) in itertools.product(forms, around):
        cases.append((p + e + s_, p + v + s_))
    for (e1, v1), (e2, v2) in itertools.product(forms, seconds):
        cases.append((e1 + e2, v1 + v2))
        cases.append(("a" + e1 + e2 + "b", "a" + v1 + v2 + "b"))
    cases.append(("", ""))
    cases.append(("plain", "plain"))
    for quote in ('"', "'"):
        for text, want in (cases if quote == '"' else cases[:: 7]):
            n += 1
            try:
                got = fn(text, token, quote)
            except ModelRaise as err:
                bad.append(("a well-formed escape is refused", f"{text!r}: raises {err}"))
                continue
            if got != want:
                kind = "an escape swallows or duplicates a neighbouring character" if len(str(got)) != len(want) else "an escape denotes another code point than pest defines"
                bad.append((kind, f"{text!r} denotes {want!r}, decoded as {got!r}"))
    for text in malformed:
        n += 1
        try:
            got = fn(text, token, '"')
        except ModelRaise as err:
            name = str(err).split(":")[0].split("(")[0].strip()
            if name not in ("PestGrammarSyntaxError", "PestGrammarError"):
                bad.append(("a malformed escape ends in another exception than a grammar error", f"{text!r}: raises {name}"))
            continue
        bad.append(("a malformed escape is accepted", f"{text!r} is decoded as {got!r}"))
    return n, bad
