"""C12 CLASS-SEMANTICS — the character class built by `_optimize_char_class` denotes
exactly the union of its singles and (non-reversed) ranges.

The function only compares code points, tests adjacency (+1), sorts, and writes each
code point through re.escape; its outcome is therefore a function of the order type of
the end points involved (see sa/ordabs.py).  It is evaluated, from its syntax tree, on
every list of up to N ranges and M singles over a grid of six consecutive code points
chosen to contain the characters that are special inside a class (`[ \\ ] ^`), and the
emitted pattern is read back with the standard library's regex parser.
"""

from __future__ import annotations

import ast
import itertools
import re
import re._parser as sre_parse  # type: ignore[import-not-found]

from .core import AnalysisError
from .ordabs import Ev, ModelRaise, Obj

GRID = [chr(c) for c in range(0x5A, 0x60)]  # Z [ \ ] ^ _
GRID_DASH = [chr(c) for c in range(0x2B, 0x30)]  # + , - . /


def denoted(pattern: str, UNIVERSE: list[str]) -> set[str] | None:  # noqa: N803
    """The set of single characters (within UNIVERSE) a class pattern matches; None if malformed."""
    try:
        tree = sre_parse.parse(pattern)
    except re.error:
        return None
    items = list(tree)
    if len(items) != 1:
        return None
    op, arg = items[0]
    name = str(op)
    if name == "ASSERT_NOT":
        return set()
    if name == "LITERAL":
        return {chr(arg)} & set(UNIVERSE)
    if name == "NOT_LITERAL":
        return None
    if name != "IN":
        return None
    out: set[str] = set()
    for iop, iarg in arg:
        iname = str(iop)
        if iname == "LITERAL":
            out.add(chr(iarg))
        elif iname == "RANGE":
            lo, hi = iarg
            out.update(chr(c) for c in range(lo, hi + 1) if chr(c) in UNIVERSE)
        else:
            return None  # NEGATE, CATEGORY: not a plain union
    return out & set(UNIVERSE)


def model_inputs(n_ranges: int, n_singles: int, grid: list[str]):
    pairs = [(a, b) for a in grid for b in grid]
    for k in range(n_ranges + 1):
        for rs in itertools.product(pairs, repeat=k):
            for j in range(n_singles + 1):
                for ss in itertools.combinations(grid, j):
                    yield list(ss), list(rs)


def check_char_class(fn: ast.FunctionDef, where: str, n_ranges: int, n_singles: int, grid: list[str] = GRID, repo=None, rel: str | None = None) -> tuple[int, list[tuple[str, str, str]]]:  # noqa: ANN001
    """Returns (points evaluated, [(kind, input, detail)]) — kind in MISSING/EXTRA/MALFORMED/RAISES."""
    params = [a.arg for a in fn.args.args]
    if len(params) != 2:
        raise AnalysisError(f"anchor vanished: {where} no longer takes (singles, ranges)")
    methods = {("re", "escape"): lambda _self, x: re.escape(x)}
    bad: list[tuple[str, str, str]] = []
    n = 0
    UNIVERSE = [chr(c) for c in range(ord(grid[0]) - 2, ord(grid[-1]) + 3)]  # noqa: N806
    # the function may lean on helpers and small classes of its own module: evaluated on the program model of that
    # module (sa/objmodel.py) when it calls anything the bare evaluator does not know
    own_calls = {c.func.id for c in ast.walk(fn) if isinstance(c, ast.Call) and isinstance(c.func, ast.Name)}
    cm = None
    if repo is not None and rel is not None:
        m = repo.mod(rel)
        if own_calls & (set(m.functions()) | set(m.classes())) - {fn.name}:
            from .objmodel import ClassModel, maybe_install_re

            cm = ClassModel(repo, [rel], where, {"Generic": None}, max_steps=200000)
            maybe_install_re(cm)
    for singles, ranges in model_inputs(n_ranges, n_singles, grid):
        n += 1
        desc = f"singles={singles!r} ranges={ranges!r}"
        try:
            if cm is not None:
                res = cm.env[fn.name](list(singles), list(ranges))
            else:
                env = {params[0]: list(singles), params[1]: list(ranges), "re": Obj("re")}
                res = Ev(env, where, methods).run_function(fn.body)
        except ModelRaise as err:
            bad.append(("RAISES", desc, str(err)))
            continue
        if not isinstance(res, str):
            bad.append(("MALFORMED", desc, f"returns {res!r}"))
            continue
        got = denoted(res, UNIVERSE)
        if got is None:
            bad.append(("MALFORMED", desc, f"emits `{res}`, not a plain character class"))
            continue
        want = set(singles)
        for a, b in ranges:
            want.update(chr(c) for c in range(ord(a), ord(b) + 1))
        want &= set(UNIVERSE)
        if want - got:
            bad.append(("MISSING", desc, f"emits `{res}`, which does not match {sorted(want - got)!r}"))
        elif got - want:
            bad.append(("EXTRA", desc, f"emits `{res}`, which also matches {sorted(got - want)!r}"))
    return n, bad
