"""C17 JSON-TREE — what the bundled JSON grammar *files* denote, on a family of RFC 8259 documents.

The checker writes documents from structures of its own (so the structure of each document is known without any JSON
library): every scalar form of RFC 8259 (string: empty, plain, every two-character escape, \\uXXXX, structural
characters and non-ASCII inside a string; number: zero, minus zero, integers, fraction, exponent with either letter
and either sign; true, false, null) in every context (array element, member value, first / middle / last of 1, 2 and
3), empty and nested arrays and objects to depth three, rendered with no blanks, with one blank after `,` and `:`, and
with all four RFC 8259 whitespace characters around every token.  Each document is read with the checker's reference
reading of the grammar file (sa/pegref.py over sa/pestlang.py — pest's semantics, nothing of python-pest):

* the document is accepted by the rule `json`;
* the tree of pairs, projected on the rules object / array / pair / string / number / boolean (bool) / null (every
  other pair is spliced), mirrors the structure: same nesting, same member and element order, number and string
  tokens equal to the raw source slices;
* every proper prefix of a rendering without trailing whitespace is rejected.

Completeness is per kind (DESIGN 13): the grammar is a fixed, small object whose every alternative, repetition
(zero, one, two iterations) and trivia position is exercised by some document of the family.  That python-pest's
engines implement pest's semantics on these grammars is decided by C03 / C04 (and C01 / C02 for the other modes);
this rule decides the grammar files.
"""

from __future__ import annotations

import itertools
from typing import Any

from .core import AnalysisError
from .pegref import Node, PegRef
from .pestlang import read_pest
from .repo import Repo

STRINGS = ['""', '"a"', '"a b"', '"\\n"', '"\\""', '"\\\\"', '"\\/"', '"\\b\\f\\r\\t"', '"\\u00e9"', '"\\uD834\\uDd1e"', '"[{,:}]"', '"é中"', '"true"', '"1"', '" "', '"\x7f"', '"\x85\x9f"', '"\u2028\U0001f600"']
NUMBERS = ["0", "-0", "7", "12", "-305", "0.5", "-3.25", "1e5", "1E5", "1e+5", "2E-3", "2.50e-03", "0.0", "0e0", "-0.0E+0"]
WORDS = ["true", "false", "null"]
SCALARS = [("string", s) for s in STRINGS] + [("number", n) for n in NUMBERS] + [("boolean", "true"), ("boolean", "false"), ("null", "null")]
STRUCT = {"object", "array", "pair", "string", "number", "boolean", "bool", "null"}


def structures(tier: str) -> list[Any]:
    """('array', [values]) / ('object', [(key lexeme, value)]) / scalar structures, top level array or object."""
    out: list[Any] = [("array", []), ("object", [])]
    keys = ['"k"', '""', '"a b"', '"\\n"', '"k"']  # a repeated key is legal JSON text
    # every scalar as the only element / only member value
    for sc in SCALARS:
        out.append(("array", [sc]))
        out.append(("object", [('"k"', sc)]))
    # every scalar first, middle, last of two and three
    for n in (2, 3):
        for j in range(0, len(SCALARS), 1 if tier != "quick" else 2):
            vals = [SCALARS[(j + i * 7) % len(SCALARS)] for i in range(n)]
            out.append(("array", vals))
            out.append(("object", [(keys[i], v) for i, v in enumerate(vals)]))
    # nesting: every composite inside every composite position, to depth three
    nums, words = len(STRINGS), len(STRINGS) + len(NUMBERS)
    small = [("array", []), ("object", []), ("array", [SCALARS[nums + 1]]), ("object", [('"k"', SCALARS[1])]), ("array", [SCALARS[words], SCALARS[3]]), ("object", [('"a"', SCALARS[nums + 3]), ('"b"', SCALARS[words + 2])])]
    for a in small:
        out.append(("array", [a]))
        out.append(("object", [('"k"', a)]))
        for b in small:
            out.append(("array", [a, b]))
            out.append(("array", [SCALARS[nums], a, b]))
            out.append(("object", [('"x"', a), ('"y"', b)]))
            out.append(("array", [("array", [a]), ("object", [('"k"', b)])]))
            out.append(("object", [('"p"', ("object", [('"q"', a)])), ('"r"', ("array", [b, SCALARS[words + 1]]))]))
    return out


def render(s: Any, style: int) -> str:
    """style 0: no blanks; 1: one blank after , and :; 2: every RFC whitespace character around every token."""
    ws = " \t\r\n"
    pad = (lambda t: t) if style < 2 else (lambda t: f"{ws}{t}{ws}")
    comma = "," if style == 0 else ", " if style == 1 else pad(",")
    colon = ":" if style == 0 else ": " if style == 1 else pad(":")
    kind = s[0]
    if kind == "array":
        return pad("[") + comma.join(render(v, style) for v in s[1]) + pad("]")
    if kind == "object":
        return pad("{") + comma.join(pad(k) + colon + render(v, style) for k, v in s[1]) + pad("}")
    return pad(s[1])


def expected(s: Any) -> Any:
    kind = s[0]
    if kind == "array":
        return ("array", [expected(v) for v in s[1]])
    if kind == "object":
        return ("object", [("pair", [("string", k), expected(v)]) for k, v in s[1]])
    return (kind, s[1])


def project(nodes: list[Node], text: str) -> list[Any]:
    out: list[Any] = []
    for n in nodes:
        if n.name in ("string", "number", "null"):
            out.append((n.name, text[n.start : n.end]))
        elif n.name in ("boolean", "bool"):
            out.append(("boolean", text[n.start : n.end]))
        elif n.name in ("object", "array", "pair"):
            out.append((n.name, project(n.children, text)))
        else:
            out.extend(project(n.children, text))
    return out


def check(repo: Repo, rel: str, tier: str) -> tuple[dict[str, int], list[tuple[str, str]]]:
    rules = read_pest(repo.read(rel), rel)
    if "json" not in rules:
        raise AnalysisError(f"anchor vanished: {rel}::json")
    ref = PegRef(rules, rel)
    bad: list[tuple[str, str]] = []
    counts = {"documents": 0, "prefixes": 0}
    structs = structures(tier)
    for idx, s in enumerate(structs):
        want = [expected(s)]
        for style in (0, 1, 2):
            text = render(s, style)
            counts["documents"] += 1
            r = ref.parse("json", text)
            if r is None or r[0] != len(text):
                bad.append(("an RFC 8259 document is rejected", f"{text!r}"))
                continue
            got = project(r[1], text)
            if got != want:
                bad.append(("the tree of pairs does not mirror the document (nesting, order, raw number / string tokens)", f"{text!r}: tree {got}, document {want}"))
            if style == 2 or (tier == "quick" and style == 1 and idx % 3):
                continue  # (style 2 ends in whitespace; the property speaks of documents written without it)
            for cut in range(len(text)):
                counts["prefixes"] += 1
                p = ref.parse("json", text[:cut])
                if p is not None and p[0] == cut:
                    bad.append(("a proper prefix of a document is accepted", f"{text[:cut]!r} (of {text!r})"))
                    break
    return counts, bad


_ = itertools
