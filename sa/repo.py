"""E0 — repository model: sources, ASTs, class table, anchors.

Nothing here imports or executes python-pest; it only reads files under the repo
root (``SA_REPO`` or /repo) — optionally through an in-memory overlay used by the
self-test catalogue (variants are never written into /repo).
"""

from __future__ import annotations

import ast
import hashlib
from functools import cached_property
from pathlib import Path

from .core import REPO, AnalysisError

SRC_PKG = "src/pest"


class Module:
    def __init__(self, rel: str, text: str):
        self.rel = rel
        self.text = text
        try:
            self.tree = ast.parse(text)
        except SyntaxError as e:
            raise AnalysisError(f"{rel}: does not parse: {e}") from e
        self._parents: dict[ast.AST, ast.AST] | None = None

    @property
    def modname(self) -> str:
        p = self.rel
        if p.startswith("src/"):
            p = p[4:]
        p = p[:-3]
        if p.endswith("/__init__"):
            p = p[: -len("/__init__")]
        return p.replace("/", ".")

    @property
    def parents(self) -> dict[ast.AST, ast.AST]:
        if self._parents is None:
            self._parents = {}
            for n in ast.walk(self.tree):
                for c in ast.iter_child_nodes(n):
                    self._parents[c] = n
        return self._parents

    def classes(self) -> dict[str, ast.ClassDef]:
        if "_classes" not in self.__dict__:
            self.__dict__["_classes"] = {n.name: n for n in self.tree.body if isinstance(n, ast.ClassDef)}
        return self.__dict__["_classes"]

    def functions(self) -> dict[str, ast.FunctionDef]:
        if "_functions" not in self.__dict__:
            self.__dict__["_functions"] = {n.name: n for n in self.tree.body if isinstance(n, ast.FunctionDef)}
        return self.__dict__["_functions"]

    def constants(self) -> dict[str, object]:
        """Module-level NAME = <literal / simple int expression> bindings."""
        if "_constants" in self.__dict__:
            return self.__dict__["_constants"]
        out: dict[str, object] = {}
        self.__dict__["_constants"] = out
        for n in self.tree.body:
            tgt = val = None
            if isinstance(n, ast.Assign) and len(n.targets) == 1 and isinstance(n.targets[0], ast.Name):
                tgt, val = n.targets[0].id, n.value
            elif isinstance(n, ast.AnnAssign) and isinstance(n.target, ast.Name) and n.value is not None:
                tgt, val = n.target.id, n.value
            if tgt is None:
                continue
            try:
                out[tgt] = const_eval(val, out)
            except ValueError:
                pass
        return out


def const_eval(node: ast.AST, env: dict[str, object]) -> object:
    """Evaluate literal / int-arithmetic expressions over already-known constants."""
    if isinstance(node, ast.Constant):
        return node.value
    if isinstance(node, ast.Name) and node.id in env:
        return env[node.id]
    if isinstance(node, ast.BinOp):
        l, r = const_eval(node.left, env), const_eval(node.right, env)
        if isinstance(l, int) and isinstance(r, int):
            ops = {
                ast.BitOr: lambda a, b: a | b,
                ast.BitAnd: lambda a, b: a & b,
                ast.LShift: lambda a, b: a << b,
                ast.Add: lambda a, b: a + b,
                ast.Sub: lambda a, b: a - b,
                ast.Mult: lambda a, b: a * b,
                ast.Pow: lambda a, b: a**b if 0 <= b <= 64 else (_ for _ in ()).throw(ValueError()),
                ast.FloorDiv: lambda a, b: a // b if b else (_ for _ in ()).throw(ValueError()),
            }
            f = ops.get(type(node.op))
            if f:
                return f(l, r)
        raise ValueError
    if isinstance(node, (ast.Tuple, ast.List)):
        return tuple(const_eval(e, env) for e in node.elts)
    if isinstance(node, ast.Set):
        return frozenset(const_eval(e, env) for e in node.elts)
    if isinstance(node, ast.Call) and isinstance(node.func, ast.Name) and node.func.id in ("frozenset", "set", "tuple") and len(node.args) <= 1 and not node.keywords:
        inner = const_eval(node.args[0], env) if node.args else ()
        if isinstance(inner, (tuple, frozenset)):
            return tuple(inner) if node.func.id == "tuple" else frozenset(inner)
        raise ValueError
    if isinstance(node, ast.UnaryOp) and isinstance(node.op, ast.USub):
        v = const_eval(node.operand, env)
        if isinstance(v, int):
            return -v
    raise ValueError


class Repo:
    def __init__(self, root: Path | None = None, overlay: dict[str, str] | None = None):
        self.root = Path(root or REPO)
        self.overlay = overlay or {}
        self._mods: dict[str, Module] = {}

    # -- files
    def read(self, rel: str) -> str:
        if rel in self.overlay:
            return self.overlay[rel]
        p = self.root / rel
        if not p.exists():
            raise AnalysisError(f"anchor file vanished: {rel}")
        return p.read_text()

    def exists(self, rel: str) -> bool:
        return rel in self.overlay or (self.root / rel).exists()

    def mod(self, rel: str) -> Module:
        if rel not in self._mods:
            self._mods[rel] = Module(rel, self.read(rel))
        return self._mods[rel]

    @cached_property
    def py_files(self) -> list[str]:
        out = []
        for p in sorted((self.root / SRC_PKG).rglob("*.py")):
            out.append(str(p.relative_to(self.root)))
        for rel in self.overlay:
            if rel.startswith(SRC_PKG) and rel.endswith(".py") and rel not in out:
                out.append(rel)
        return sorted(out)

    def all_mods(self) -> list[Module]:
        return [self.mod(r) for r in self.py_files]

    def digest(self, rels: list[str]) -> str:
        h = hashlib.sha256()
        for r in sorted(rels):
            h.update(r.encode())
            h.update(self.read(r).encode())
        return h.hexdigest()[:16]

    # -- anchors
    def cls(self, rel: str, name: str) -> ast.ClassDef:
        c = self.mod(rel).classes().get(name)
        if c is None:
            raise AnalysisError(f"anchor vanished: class {rel}::{name}")
        return c

    def func(self, rel: str, qual: str) -> ast.FunctionDef:
        """``qual`` is ``func`` or ``Class.method``."""
        m = self.mod(rel)
        if "." in qual:
            cname, fname = qual.split(".", 1)
            c = self.cls(rel, cname)
            for n in reversed(c.body):  # the last definition wins (@overload stubs come first)
                if isinstance(n, ast.FunctionDef) and n.name == fname:
                    return n
            raise AnalysisError(f"anchor vanished: {rel}::{qual}")
        f = m.functions().get(qual)
        if f is None:
            raise AnalysisError(f"anchor vanished: {rel}::{qual}")
        return f

    def method_or_none(self, rel: str, cname: str, fname: str) -> ast.FunctionDef | None:
        c = self.mod(rel).classes().get(cname)
        if c is None:
            return None
        for n in reversed(c.body):
            if isinstance(n, ast.FunctionDef) and n.name == fname:
                return n
        return None

    # -- class table over src/pest
    @cached_property
    def class_table(self) -> dict[str, tuple[str, ast.ClassDef]]:
        """class name -> (file, node).  Class names are unique enough under src/pest
        except the two ``Parser`` classes and two ``Token`` classes, which are keyed
        ``<file>::<name>`` as well."""
        out: dict[str, tuple[str, ast.ClassDef]] = {}
        for m in self.all_mods():
            for name, c in m.classes().items():
                out[f"{m.rel}::{name}"] = (m.rel, c)
                if name in out and out[name][0] != m.rel:
                    # ambiguous short name: keep the first, mark
                    out[name + "#ambiguous"] = (m.rel, c)
                else:
                    out[name] = (m.rel, c)
        return out

    def imports(self, rel: str) -> dict[str, tuple[str, str]]:
        """local name -> (module text as written, original name) for ``from X import Y``."""
        memo = self.__dict__.setdefault("_imports_memo", {})
        if rel in memo:
            return memo[rel]
        out: dict[str, tuple[str, str]] = {}
        memo[rel] = out
        for n in ast.walk(self.mod(rel).tree):
            if isinstance(n, ast.ImportFrom):
                modname = "." * n.level + (n.module or "")
                for a in n.names:
                    out[a.asname or a.name] = (modname, a.name)
        return out

    def bases(self, cname: str) -> list[str]:
        memo = self.__dict__.setdefault("_bases_memo", {})
        if cname in memo:
            return memo[cname]
        memo[cname] = self._bases(cname)
        return memo[cname]

    def _bases(self, cname: str) -> list[str]:
        ent = self.class_table.get(cname)
        if not ent:
            return []
        rel = ent[0]
        imps = self.imports(rel)
        local = self.mod(rel).classes()
        out = []
        for b in ent[1].bases:
            t = ast.unparse(b)
            t = t.split("[")[0].split(".")[-1]
            if t not in local and t in imps:
                modname = imps[t][0]
                if not (modname.startswith(".") or modname.startswith("pest")):
                    continue  # external base (collections.abc.Sequence, ABC, Enum ...)
            elif t not in local:
                continue
            out.append(t)
        return out

    def mro(self, cname: str) -> list[str]:
        memo = self.__dict__.setdefault("_mro_memo", {})
        if cname not in memo:
            memo[cname] = self._mro(cname)
        return memo[cname]

    def _mro(self, cname: str) -> list[str]:
        seen: list[str] = []

        def walk(c: str) -> None:
            if c in seen:
                return
            seen.append(c)
            for b in self.bases(c):
                walk(b)

        walk(cname)
        return seen

    def is_subclass(self, cname: str, base: str) -> bool:
        return base in self.mro(cname)

    def subclasses(self, base: str) -> list[str]:
        memo = self.__dict__.setdefault("_sub_memo", {})
        if base not in memo:
            memo[base] = self._subclasses(base)
        return memo[base]

    def _subclasses(self, base: str) -> list[str]:
        return sorted(
            n for n in self.class_table if "::" not in n and "#" not in n and self.is_subclass(n, base)
        )

    def class_const(self, cname: str, attr: str) -> tuple[bool, object]:
        """A class-level ``attr = <literal>`` found through the MRO (the first class that binds the name decides):
        (True, value), or (False, None) when no class binds it or the value is not a literal."""
        for c in self.mro(cname):
            ent = self.class_table.get(c)
            if not ent:
                continue
            for n in ent[1].body:
                tgt = n.targets[0] if isinstance(n, ast.Assign) and len(n.targets) == 1 else n.target if isinstance(n, ast.AnnAssign) and n.value is not None else None
                if isinstance(tgt, ast.Name) and tgt.id == attr:
                    try:
                        return True, const_eval(n.value, self.mod(ent[0]).constants())  # type: ignore[arg-type]
                    except ValueError:
                        return False, None
                if isinstance(n, ast.FunctionDef) and n.name == attr:
                    return False, None
        return False, None

    def resolve_method(self, cname: str, fname: str) -> tuple[str, str, ast.FunctionDef] | None:
        """MRO lookup: returns (file, defining class, node)."""
        for c in self.mro(cname):
            ent = self.class_table.get(c)
            if not ent:
                continue
            for n in reversed(ent[1].body):
                if isinstance(n, ast.FunctionDef) and n.name == fname:
                    return ent[0], c, n
        return None


def qualname_of(mod: Module, node: ast.AST) -> str:
    names = []
    n = node
    while n in mod.parents:
        n = mod.parents[n]
        if isinstance(n, (ast.FunctionDef, ast.AsyncFunctionDef, ast.ClassDef)):
            names.append(n.name)
    if isinstance(node, (ast.FunctionDef, ast.ClassDef)):
        names.insert(0, node.name)
    return ".".join(reversed(names)) or "<module>"


def norm_src(node: ast.AST) -> str:
    """Line-number free normalised text of a node."""
    return ast.unparse(node)
