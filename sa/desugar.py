"""`match` statements rewritten into the if / isinstance / == chains they stand for, so that the analysers
need one vocabulary for both spellings.  Supported: class patterns with keyword sub-patterns, captures,
wildcards, literal and dotted-name values, singletons, or-patterns without captures, sequence patterns
over a tuple-display subject of the same length, guards.  Anything else raises AnalysisError."""

from __future__ import annotations

import ast
import itertools

from .core import AnalysisError

_counter = itertools.count(1)


def _pure(e: ast.expr) -> bool:
    return isinstance(e, ast.Name) or (isinstance(e, ast.Attribute) and _pure(e.value)) or (isinstance(e, ast.Tuple) and all(_pure(x) for x in e.elts))


def _and(conds: list[ast.expr]) -> ast.expr:
    conds = [c for c in conds if not (isinstance(c, ast.Constant) and c.value is True)]
    if not conds:
        return ast.Constant(value=True)
    return conds[0] if len(conds) == 1 else ast.BoolOp(op=ast.And(), values=conds)


def _pattern(p: ast.pattern, subj: ast.expr, where: str) -> tuple[list[ast.expr], list[ast.stmt]]:
    """(conditions, bindings) for pattern p against the (pure) expression subj."""
    if isinstance(p, ast.MatchAs):
        conds: list[ast.expr] = []
        binds: list[ast.stmt] = []
        if p.pattern is not None:
            conds, binds = _pattern(p.pattern, subj, where)
        if p.name is not None:
            binds = binds + [ast.Assign(targets=[ast.Name(id=p.name, ctx=ast.Store())], value=subj)]
        return conds, binds
    if isinstance(p, ast.MatchValue):
        return [ast.Compare(left=subj, ops=[ast.Eq()], comparators=[p.value])], []
    if isinstance(p, ast.MatchSingleton):
        return [ast.Compare(left=subj, ops=[ast.Is()], comparators=[ast.Constant(value=p.value)])], []
    if isinstance(p, ast.MatchClass):
        if p.patterns:
            raise AnalysisError(f"{where}: class pattern with positional sub-patterns ({ast.unparse(p)}) is outside the analyser's vocabulary")
        conds = [ast.Call(func=ast.Name(id="isinstance", ctx=ast.Load()), args=[subj, p.cls], keywords=[])]
        binds = []
        for attr, sub in zip(p.kwd_attrs, p.kwd_patterns):
            c, b = _pattern(sub, ast.Attribute(value=subj, attr=attr, ctx=ast.Load()), where)
            conds += c
            binds += b
        return conds, binds
    if isinstance(p, ast.MatchOr):
        alts = []
        for q in p.patterns:
            c, b = _pattern(q, subj, where)
            if b:
                raise AnalysisError(f"{where}: or-pattern with captures ({ast.unparse(p)}) is outside the analyser's vocabulary")
            alts.append(_and(c))
        return [ast.BoolOp(op=ast.Or(), values=alts) if len(alts) > 1 else alts[0]], []
    if isinstance(p, ast.MatchSequence) and isinstance(subj, ast.Tuple) and len(subj.elts) == len(p.patterns) and not any(isinstance(q, ast.MatchStar) for q in p.patterns):
        conds, binds = [], []
        for q, e in zip(p.patterns, subj.elts):
            c, b = _pattern(q, e, where)
            conds += c
            binds += b
        return conds, binds
    raise AnalysisError(f"{where}: pattern {ast.unparse(p)} is outside the analyser's vocabulary")


def desugar_match(s: ast.Match, where: str) -> list[ast.stmt]:
    pre: list[ast.stmt] = []
    subj = s.subject
    if not _pure(subj):
        name = f"__match_subject_{next(_counter)}"
        pre.append(ast.Assign(targets=[ast.Name(id=name, ctx=ast.Store())], value=subj))
        subj = ast.Name(id=name, ctx=ast.Load())

    def chain(cases: list[ast.match_case]) -> list[ast.stmt]:
        if not cases:
            return []
        c = cases[0]
        conds, binds = _pattern(c.pattern, subj, where)
        rest = chain(cases[1:])
        if c.guard is not None:
            inner: list[ast.stmt] = binds + [ast.If(test=c.guard, body=c.body, orelse=rest)]
        else:
            inner = binds + c.body
        return [ast.If(test=_and(conds), body=inner or [ast.Pass()], orelse=rest)]

    out = pre + chain(s.cases)
    mod = ast.Module(body=out, type_ignores=[])
    ast.fix_missing_locations(mod)
    for n in ast.walk(mod):
        if not hasattr(n, "lineno"):
            continue
        ast.copy_location(n, s) if getattr(n, "lineno", None) is None else None
    return out
