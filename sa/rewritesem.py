"""C08 REWRITE (semantic) — rewrites that cannot change a grammar's meaning do not change the result.

The property names six rewrites of a sub-expression e: (e), re-association of nested
sequences / choices, extraction of e into a new silent rule, (e | e), ((e ~ NEVER) | e)
and ((!e ~ NEVER) | e).  Each of them only adds attempts that are abandoned, frames that
are transparent or parentheses; they are invisible exactly when an abandoned attempt
leaves no trace in *any* component of the parser state and grouping / silent frames hand
everything through.  The path analysis (E2: R1 R2 K2, transparency) decides that per
operator for the components it models; this rule evaluates the claim itself.

Model rule tables (the repository's own Rule / Sequence / Choice / Group / Identifier /
predicates / repetitions over *position-determined* oracle leaves: a leaf matches one
character at fixed positions and fails clean elsewhere, as a terminal does - so a correct
engine gives the rewritten table the same result) are run through Rule.parse and through
the closures generate_rule() emits (sa/gensem.py), once as written and once per rewrite
of the marked site.  Result, end position, the tree of pairs (rule, span, tag, children),
user stack, tag stack and the depth counters must be those of the original.  The
furthest-failure record is not compared (the property compares trees and success).

The family: the site is a reference to a rule of every modifier, a leaf that pushes on
the user stack, or a sequence; it stands in a sequence, under a tag (on itself or on an
enclosing group), under ? and *, inside a normal and an atomic rule, with and without
trivia; leaves are placed so that the site matches, fails, or matches and the rest fails.
"""

from __future__ import annotations

from .core import AnalysisError
from .gensem import gen_program, generated_sources, run_generated, run_interpreter
from .ordabs import ModelRaise
from .repo import Repo

NEVER = ("leaf", "never")


def _subst(body: object, new: object) -> object:
    """The body with its ("site", e) marker replaced by ``new`` (or unwrapped when new is None)."""
    if not isinstance(body, tuple):
        return body
    if body[0] == "site":
        return body[1] if new is None else new
    return tuple(_subst(x, new) if isinstance(x, tuple) else x for x in body)


def _site(body: object) -> object | None:
    if not isinstance(body, tuple):
        return None
    if body[0] == "site":
        return body[1]
    for x in body[1:]:
        s = _site(x)
        if s is not None:
            return s
    return None


def rewrites(spec: dict, silent_mask: int) -> list[tuple[str, dict]]:
    """(name, rewritten table) for every rewrite of the marked site."""
    owner = next((n for n, (_, b) in spec.items() if _site(b) is not None), None)
    if owner is None:
        raise AnalysisError("rewritesem: a model table without a marked site")
    mod, body = spec[owner]
    e = _site(body)
    out = []

    def with_site(new: object, extra: dict | None = None) -> dict:
        t = {n: (m, _subst(b, None)) for n, (m, b) in spec.items()}
        t[owner] = (mod, _subst(body, new))
        t.update(extra or {})
        return t

    out.append(("(e)", with_site(("group", e))))
    out.append(("((e))", with_site(("group", ("group", e)))))
    out.append(("(e | e)", with_site(("group", ("choice", e, e)))))
    out.append(("((e ~ NEVER) | e)", with_site(("group", ("choice", ("seq", e, NEVER), e)))))
    out.append(("((!e ~ NEVER) | e)", with_site(("group", ("choice", ("seq", ("neg", e), NEVER), e)))))
    out.append(("e extracted into a silent rule", with_site(("ref", "extracted"), {"extracted": (silent_mask, e)})))
    out.append(("((e ~ NEVER) | e) of a silent rule", with_site(("group", ("choice", ("seq", ("ref", "extracted"), NEVER), ("ref", "extracted"))), {"extracted": (silent_mask, e)})))
    if isinstance(e, tuple) and e[0] == "seq" and len(e) == 4:  # a ~ b ~ c  ->  (a ~ b) ~ c,  a ~ (b ~ c)
        out.append(("(a ~ b) ~ c", with_site(("seq", ("group", ("seq", e[1], e[2])), e[3]))))
        out.append(("a ~ (b ~ c)", with_site(("seq", e[1], ("group", ("seq", e[2], e[3]))))))
    if isinstance(e, tuple) and e[0] == "choice" and len(e) == 4:
        out.append(("(a | b) | c", with_site(("group", ("choice", ("group", ("choice", e[1], e[2])), e[3])))))
        out.append(("a | (b | c)", with_site(("group", ("choice", e[1], ("group", ("choice", e[2], e[3])))))))
    return out


def scenarios(masks: dict, thorough: bool) -> list[tuple[str, dict, dict]]:
    """[(description, table with one ("site", e) marker, leaf placements)]; the input starts at position 1."""
    S, A, C, N = masks["SILENT"], masks["ATOMIC"], masks["COMPOUND"], masks["NONATOMIC"]
    sym = {0: "", S: "_", A: "@", C: "$", N: "!"}
    out = []
    x_mods = [0, S, A, C, N]
    r_mods = [0, A] + ([C] if thorough else [])
    ws = {"WHITESPACE": (S, ("leaf", "w"))}
    # placements: a b c at 1 2 3 (everything matches); b nowhere (x fails); c nowhere (the rest fails)
    place = {"all match": {"a": {1}, "b": {2}, "c": {3}}, "the site fails": {"a": {1}, "b": set(), "c": {3}}, "the rest fails": {"a": {1}, "b": {2}, "c": set()}}
    for m1 in r_mods:
        for m2 in x_mods:
            for tag in (None, "own", "group"):
                site = ("site", ("ref", "x", "t")) if tag == "own" else ("site", ("ref", "x"))
                holder = ("group", site, "t") if tag == "group" else site
                for pname, at in place.items():
                    if pname != "all match" and (tag == "own" or (m2 in (C, N) and not thorough)):
                        continue
                    spec = {"r": (m1, ("seq", holder, ("leaf", "c"))), "x": (m2, ("seq", ("leaf", "a"), ("leaf", "b")))}
                    tdesc = {None: "", "own": "#t=", "group": "#t=("}[tag]
                    out.append((f"r = {sym[m1]}{{ {tdesc}x{')' if tag == 'group' else ''} ~ c }}, x = {sym[m2]}{{ a ~ b }}; {pname}", spec, {**at, "never": set()}))
    # with trivia between the elements (a w b w c at 1..5)
    for m1 in (0, A):
        for m2 in (0, S, N):
            spec = {**ws, "r": (m1, ("seq", ("site", ("ref", "x")), ("leaf", "c"))), "x": (m2, ("seq", ("leaf", "a"), ("leaf", "b")))}
            if not m1:
                at = {"a": {1}, "w": {2, 4}, "b": {3}, "c": {5}, "never": set()}
            elif m2 == N:  # trivia inside the non-atomic rule only
                at = {"a": {1}, "w": {2}, "b": {3}, "c": {4}, "never": set()}
            else:
                at = {"a": {1}, "b": {2}, "c": {3}, "w": set(), "never": set()}
            out.append((f"WHITESPACE; r = {sym[m1]}{{ x ~ c }}, x = {sym[m2]}{{ a ~ b }}", spec, at))
    # under ? and *, and a tag on the repetition's group
    for wrap, wname in ((lambda s: ("opt", s), "?"), (lambda s: ("rep", s), "*")):
        for tag in (None, "t"):
            holder = ("group", wrap(("site", ("ref", "x"))), tag) if tag else wrap(("site", ("ref", "x")))
            for at in ({"a": {1, 3}, "b": {2, 4}, "c": {5}}, {"a": {1, 3}, "b": {2}, "c": {3}}, {"a": set(), "b": set(), "c": {1}}):
                spec = {"r": (0, ("seq", holder, ("leaf", "c"))), "x": (0, ("seq", ("leaf", "a"), ("leaf", "b")))}
                out.append((f"r = {{ {'#t=(' if tag else ''}x{wname}{')' if tag else ''} ~ c }}, x = {{ a ~ b }}; a at {sorted(at['a'])}, b at {sorted(at['b'])}", spec, {**at, "never": set()}))
    # the site pushes on the user stack; what follows may fail
    for at_c in ({2}, set()):
        spec = {"r": (0, ("seq", ("site", ("leaf", "p")), ("leaf", "c")))}
        out.append((f"r = {{ p ~ c }}, p pushes on the stack; c {'matches' if at_c else 'fails'}", spec, {"p": ("push", {1}), "c": at_c, "never": set()}))
    spec = {"r": (0, ("seq", ("opt", ("seq", ("site", ("leaf", "p")), ("leaf", "q"))), ("leaf", "c")))}
    out.append(("r = { (p ~ q)? ~ c }, p pushes, q fails", spec, {"p": ("push", {1}), "q": set(), "c": {1}, "never": set()}))
    # re-association
    for m1 in (0, A):
        spec = {**(ws if not m1 else {}), "r": (m1, ("site", ("seq", ("leaf", "a"), ("leaf", "b"), ("leaf", "c"))))}
        out.append((f"r = {sym[m1]}{{ a ~ b ~ c }}", spec, {"a": {1}, "w": {2, 4}, "b": {3}, "c": {5}, "never": set()} if not m1 else {"a": {1}, "b": {2}, "c": {3}, "never": set()}))
    spec = {"r": (0, ("seq", ("site", ("choice", ("leaf", "a"), ("leaf", "b"), ("leaf", "c"))), ("leaf", "d")))}
    for at in ({"a": set(), "b": {1}, "c": {1}, "d": {2}}, {"a": set(), "b": set(), "c": {1}, "d": {2}}, {"a": {1}, "b": {1}, "c": {1}, "d": set()}):
        out.append((f"r = {{ (a | b | c) ~ d }}; a at {sorted(at['a'])}, b at {sorted(at['b'])}", spec, {**at, "never": set()}))
    return out


KEYS = (("result", "success"), ("pairs", "tree of pairs"), ("pos", "end position"), ("stack", "user stack"), ("tags", "tag stack"))


def check_rewrites(repo: Repo, where: str, masks: dict, thorough: bool = False) -> tuple[int, list[tuple[str, str]]]:
    cm = gen_program(repo, where)
    bad: list[tuple[str, str]] = []
    n = 0

    def both(spec: dict, at: dict) -> dict:
        out = {}
        try:
            out["Rule.parse"] = run_interpreter(cm, spec, at, "r", ())
        except ModelRaise as err:
            out["Rule.parse"] = {"raises": str(err).split(":")[0]}
        try:
            out["the generated code"] = run_generated(cm, spec, generated_sources(cm, spec), at, "r", (), where)
        except ModelRaise as err:
            out["the generated code"] = {"raises": str(err).split(":")[0]}
        return out

    for desc, marked, at in scenarios(masks, thorough):
        plain = {name: (m, _subst(b, None)) for name, (m, b) in marked.items()}
        base = both(plain, at)
        for rname, rewritten in rewrites(marked, masks["SILENT"]):
            n += 1
            got = both(rewritten, at)
            for side in ("Rule.parse", "the generated code"):
                o0, o1 = base[side], got[side]
                if "raises" in o0 or "raises" in o1:
                    if o0.get("raises") != o1.get("raises"):
                        bad.append((f"the rewrite {rname} makes {side} raise (or stop raising)", f"{desc}: original {o0.get('raises') or 'returns'}, rewritten {o1.get('raises') or 'returns'}"))
                    continue
                for key, what in KEYS:
                    if key != "result" and not o0["result"]:
                        break  # a failed parse is compared by its failing only
                    if o0[key] != o1[key]:
                        bad.append((f"the rewrite {rname} changes the {what}", f"{desc} ({side}): original {o0[key]!r}, rewritten {o1[key]!r}"))
                        break
                if o1.get("result") and (o1["open_checkpoints"] or (o1["frames"], o1["atomic"], o1["negdepth"], o1["hide"]) != (0, 0, 0, False)):
                    bad.append((f"the rewrite {rname} leaves checkpoints open or depth counters changed", f"{desc} ({side}): open {o1['open_checkpoints']}, frames {o1['frames']}, atomic {o1['atomic']}"))
    return n, bad
