"""E4 — process-wide / cross-call state analysis.

Two-stage (DESIGN §3.4): (1) every mutation site under src/pest is enumerated and
its receiver classified by mypy type into *per-call* classes and *long-lived*
classes; (2) writes to long-lived objects outside their own constructor are the
candidates, each of which must match an exemption whose premise is machine-checked.
"""

from __future__ import annotations

import ast

from .core import AnalysisError, Check, Finding
from .repo import Repo, qualname_of
from .typed import Types

MUTATORS = {"append", "extend", "clear", "pop", "update", "add", "remove", "insert", "sort", "setdefault", "popitem", "discard", "reverse"}
PER_CALL = {
    "pest.state.ParserState", "pest.stack.Stack", "pest.checkpoint_int.SnapshottingInt", "pest.grammar.codegen.builder.Builder",
    "pest.grammar.scanner.Scanner", "pest.grammar.parser.Parser", "pest.pairs.Stream", "pest.state.RuleFrame",
}
LONG_LIVED_BASES = ("Expression", "Rule")
LONG_LIVED = {"pest.parser.Parser", "pest.grammar.optimizer.Optimizer", "pest.grammar.optimizer.OptimizerStep"}


def _is_long_lived(repo: Repo, tnames: list[str] | None) -> str | None:
    for t in tnames or []:
        if t in LONG_LIVED:
            return t
        if t.startswith("pest."):
            c = t.split(".")[-1]
            if any(repo.is_subclass(c, b) for b in LONG_LIVED_BASES):
                return t
    return None


def mutation_sites(repo: Repo, types: Types):
    """Yield (rel, qual, kind, target_text, receiver_node, node)."""
    for rel in repo.py_files:
        m = repo.mod(rel)
        for n in ast.walk(m.tree):
            if isinstance(n, (ast.Assign, ast.AugAssign, ast.AnnAssign)):
                tgts = n.targets if isinstance(n, ast.Assign) else [n.target]
                for t in tgts:
                    for tt in (t.elts if isinstance(t, ast.Tuple) else [t]):
                        if isinstance(tt, ast.Attribute):
                            yield rel, qualname_of(m, n), "attr-store", ast.unparse(tt), tt.value, n
                        elif isinstance(tt, ast.Subscript):
                            yield rel, qualname_of(m, n), "item-store", ast.unparse(tt), tt.value, n
            elif isinstance(n, ast.Delete):
                for t in n.targets:
                    if isinstance(t, (ast.Attribute, ast.Subscript)):
                        yield rel, qualname_of(m, n), "delete", ast.unparse(t), t.value, n
            elif isinstance(n, ast.Call) and isinstance(n.func, ast.Attribute) and n.func.attr in MUTATORS:
                yield rel, qualname_of(m, n), "mutating-call", ast.unparse(n.func), n.func.value, n


def module_level_mutables(repo: Repo) -> dict[str, list[str]]:
    """rel -> names bound at module or class level to mutable containers / instances."""
    out: dict[str, list[str]] = {}
    for rel in repo.py_files:
        m = repo.mod(rel)
        names = []

        def scan(body: list[ast.stmt], prefix: str) -> None:
            for st in body:
                if isinstance(st, (ast.Assign, ast.AnnAssign)) and st.value is not None:
                    t = st.targets[0] if isinstance(st, ast.Assign) else st.target
                    if not isinstance(t, ast.Name):
                        continue
                    v = st.value
                    mutable = isinstance(v, (ast.List, ast.Dict, ast.Set, ast.ListComp, ast.DictComp, ast.SetComp))
                    if isinstance(v, ast.Call):
                        f = ast.unparse(v.func)
                        if f in ("frozenset", "tuple", "re.compile", "TypeVar", "version", "NamedTuple") or f.endswith("Enum"):
                            mutable = False
                        elif f[:1].isupper() or f in ("dict", "list", "set", "_make_registry"):
                            mutable = True
                    if mutable:
                        names.append(prefix + t.id)
                elif isinstance(st, ast.ClassDef):
                    scan(st.body, f"{st.name}.")

        scan(m.tree.body, "")
        if names:
            out[rel] = names
    return out


EXEMPT_KIND = {
    # (function qualname, normalised target) -> (kind, reason)
    ("src/pest/grammar/expression.py", "Expression.is_pure", "self._pure"): ("lazy-cache", "memo of a pure function of immutable fields; never read by parse()/generate()"),
    ("src/pest/grammar/expressions/terminals.py", "Identifier.is_pure", "self._pure"): ("lazy-cache", "as Expression.is_pure"),
    ("src/pest/grammar/expressions/choice.py", "OptimizedChoice.pattern", "self._compiled"): ("lazy-cache", "compiled form of build_optimized_pattern(self.choices): idempotent, so a race between threads stores equal values"),
    ("src/pest/grammar/expressions/choice.py", "OptimizedChoice.update", "self.choices.extend"): ("fresh-receiver", "called only on an OptimizedChoice allocated by the calling pass / test"),
    ("src/pest/grammar/optimizers/squash_choice.py", "squash", "new_expr.update"): ("fresh-receiver", "new_expr is allocated by the caller for this rewrite (squash_choice / _optimize_skip_rule pass a constructor call)"),
    ("src/pest/grammar/optimizer.py", "Optimizer.optimize", "self.log.clear"): ("log", "debug log; never read under src/pest outside Optimizer"),
    ("src/pest/grammar/optimizer.py", "Optimizer._apply", "self.log.append"): ("log", "debug log; never read under src/pest outside Optimizer"),
    ("src/pest/grammar/optimizer.py", "Optimizer.optimize", "rules[name].expression"): ("own-rules", "the receiver is an entry of the parser's own rule table that is not a shared built-in (guarded by isinstance(rule, BuiltInRule): continue)"),
    ("src/pest/grammar/optimizer.py", "Optimizer.optimize", "rewritten.expression"): ("local-copy", "the receiver is a copy of the rule made in this call; the caller's Rule objects are left alone"),
    ("src/pest/grammar/optimizer.py", "Optimizer.optimize", "rules[name]"): ("own-table", "store into the parser's own freshly built rule dict"),
    ("src/pest/grammar/optimizer.py", "Optimizer._optimize_skip_rule", "rules['SKIP']"): ("own-table", "store into the parser's own freshly built rule dict"),
}


def check_premise(repo: Repo, rel: str, qual: str, target: str, kind: str, node: ast.AST, m) -> tuple[bool, str]:  # noqa: PLR0911, PLR0912
    fn = node
    while fn is not None and not isinstance(fn, ast.FunctionDef):
        fn = m.parents.get(fn)
    if fn is None:
        return False, "not inside a function"
    if kind == "lazy-cache":
        # the store sits under `if <same attr> is None` and the function reads no mutable global
        guard = None
        p = node
        while p is not None and p is not fn:
            p = m.parents.get(p)
            if isinstance(p, ast.If) and ast.unparse(p.test).replace("not ", "") in (f"{target} is None",):
                guard = p
        if guard is None:
            return False, f"store is not under `if {target} is None`"
        return True, "store under `is None` guard"
    if kind == "log":
        # Optimizer.log is never read outside class Optimizer under src/pest
        for rel2 in repo.py_files:
            m2 = repo.mod(rel2)
            for n in ast.walk(m2.tree):
                if isinstance(n, ast.Attribute) and n.attr == "log" and isinstance(n.ctx, ast.Load):
                    q = qualname_of(m2, n)
                    if not q.startswith("Optimizer."):
                        # write-only uses: the receiver of append / extend / clear, a test against None / for truth
                        # (is a log being kept at all?), handed on under the same name (log=self.log)
                        par = m2.parents.get(n)
                        if isinstance(par, ast.Attribute) and par.attr in ("append", "clear", "extend"):
                            continue
                        if isinstance(par, ast.Compare) and all(isinstance(c, ast.Constant) and c.value is None for c in par.comparators) and all(isinstance(o, (ast.Is, ast.IsNot)) for o in par.ops):
                            continue
                        if isinstance(par, ast.keyword) and par.arg == "log":
                            continue
                        if isinstance(par, ast.IfExp) and par.body is n and isinstance(m2.parents.get(par), ast.keyword) and m2.parents.get(par).arg == "log":
                            continue
                        return False, f"log is read in {rel2}::{q}"
        return True, "log is write-only outside Optimizer (appended to, cleared, tested against None, handed on as log=)"
    if kind == "fresh-receiver":
        # every call site of OptimizedChoice.update passes a receiver that is a constructor call,
        # a parameter that is itself always bound to a constructor call, or `new_expr` (same)
        bad = []
        for rel2 in repo.py_files:
            m2 = repo.mod(rel2)
            for n in ast.walk(m2.tree):
                if isinstance(n, ast.Call) and isinstance(n.func, ast.Attribute) and n.func.attr == "update":
                    recv = n.func.value
                    rt = ast.unparse(recv)
                    if isinstance(recv, ast.Call) and ast.unparse(recv.func) in ("OptimizedChoice", "OptimizedChoiceRepeat"):
                        continue
                    if rt in ("new_expr",):
                        continue  # parameter of squash(): checked below
                    tq = qualname_of(m2, n)
                    if "OptimizedChoice" in tq or rt in ("regex_builder",):
                        continue
                    if rt.startswith(("d", "self.", "kwargs")) and "choice" not in rel2:
                        continue
                    bad.append(f"{rel2}::{tq}: {rt}.update")
        # squash(exprs, new_expr): second argument at every call site is a constructor call or the same parameter
        for rel2 in repo.py_files:
            m2 = repo.mod(rel2)
            for n in ast.walk(m2.tree):
                if isinstance(n, ast.Call) and isinstance(n.func, ast.Name) and n.func.id == "squash" and len(n.args) == 2:
                    a = n.args[1]
                    if isinstance(a, ast.Call) and ast.unparse(a.func) in ("OptimizedChoice", "OptimizedChoiceRepeat"):
                        continue
                    if isinstance(a, ast.Name) and a.id == "new_expr":
                        continue
                    bad.append(f"{rel2}: squash(..., {ast.unparse(a)})")
        return (not bad), ("all receivers are freshly allocated" if not bad else f"receivers not provably fresh: {bad}")
    if kind == "own-rules":
        src = ast.unparse(fn)
        ok = "if isinstance(rule, BuiltInRule):\n" in src and "continue" in src
        # the guard must dominate the store inside the same loop
        loop = node
        while loop is not None and not isinstance(loop, ast.For):
            loop = m.parents.get(loop)
        if loop is None:
            return False, "store is not inside the per-rule loop"
        ok = False
        # (a) an earlier statement of the loop body skips built-ins
        for st in loop.body:
            if st is node or any(x is node for x in ast.walk(st)):
                break
            if isinstance(st, ast.If) and ast.unparse(st.test) == "isinstance(rule, BuiltInRule)" and st.body and isinstance(st.body[-1], ast.Continue) and not st.orelse:
                ok = True
        # (b) the store is nested under the negated test
        p = node
        while p is not None and p is not loop:
            par = m.parents.get(p)
            if isinstance(par, ast.If):
                t = ast.unparse(par.test)
                if t == "not isinstance(rule, BuiltInRule)" and any(x is p for x in par.body):
                    ok = True
                if t == "isinstance(rule, BuiltInRule)" and any(x is p for x in par.orelse):
                    ok = True
            p = par
        if not ok:
            return False, "shared built-in rule objects are not excluded before rules[name].expression is assigned"
        # the entries of the table are the Rule objects the caller handed to Parser.__init__ (a public constructor):
        # an in-place store is visible to every parser built from the same mapping
        init = repo.method_or_none("src/pest/parser.py", "Parser", "__init__")
        copied = init is not None and any(isinstance(c, ast.Call) and ast.unparse(c.func) in ("copy.copy", "copy.deepcopy", "deepcopy") for c in ast.walk(init))
        if not copied:
            return False, "the entries of the rule table are the caller's Rule objects (Parser.__init__ stores them as given): two parsers built from one mapping share them"
        return True, "built-in entries are skipped and Parser.__init__ copies the rules it is given"
    if kind == "local-copy":
        # the receiver is a local bound exactly once, to copy.copy(...) / copy.deepcopy(...), in this function
        recv = target.split(".")[0]
        binds = [n for n in ast.walk(fn) if isinstance(n, (ast.Assign, ast.AnnAssign)) and any(isinstance(t, ast.Name) and t.id == recv for t in (n.targets if isinstance(n, ast.Assign) else [n.target]))]
        params = {a.arg for a in fn.args.args + fn.args.kwonlyargs}
        if recv in params or len(binds) != 1 or binds[0].value is None:
            return False, f"{recv} is not a local bound exactly once"
        v = binds[0].value
        ok = isinstance(v, ast.Call) and ast.unparse(v.func) in ("copy.copy", "copy.deepcopy", "copy", "deepcopy")
        return ok, (f"{recv} = {ast.unparse(v)}: a copy made in this call" if ok else f"{recv} is bound to {ast.unparse(v)}, not to a copy")
    if kind == "own-table":
        # every caller of Optimizer.optimize passes a dict that the caller itself has just built from a dict display
        bad = []
        n_calls = 0
        for rel2 in repo.py_files:
            m2 = repo.mod(rel2)
            for n in ast.walk(m2.tree):
                if isinstance(n, ast.Call) and isinstance(n.func, ast.Attribute) and n.func.attr == "optimize" and n.args:
                    n_calls += 1
                    arg = ast.unparse(n.args[0])
                    f2 = n
                    while f2 is not None and not isinstance(f2, ast.FunctionDef):
                        f2 = m2.parents.get(f2)
                    fresh = False
                    if f2 is not None:
                        for a in ast.walk(f2):
                            if isinstance(a, (ast.Assign, ast.AnnAssign)) and a.value is not None and isinstance(a.value, ast.Dict):
                                tg = a.targets[0] if isinstance(a, ast.Assign) else a.target
                                if ast.unparse(tg) == arg:
                                    fresh = True
                    if not fresh:
                        bad.append(f"{rel2}::{qualname_of(m2, n)}: optimize({arg})")
        if not n_calls:
            return False, "no call site of optimize() found"
        return (not bad), ("every optimize() call passes a dict its caller has just built ({**BUILTIN, **rules})" if not bad else f"optimize() is given a mapping that may be shared: {bad}")
    return False, f"unknown exemption kind {kind}"


def reachable_from_api(repo: Repo) -> set[str]:
    from .escape_props import escape_engine

    esc = escape_engine(repo)
    roots = esc.module_level_callables("src/pest/grammar/optimizer.py")
    reach: set[str] = set()
    for entry in ("src/pest/parser.py::Parser.from_grammar", "src/pest/parser.py::Parser.__init__", "src/pest/parser.py::Parser.parse", "src/pest/parser.py::Parser.generate", "src/pest/grammar/optimizer.py::Optimizer.optimize"):
        _, r = esc.escapes(entry, roots)
        reach |= r
    return reach


def analyse(check: Check, repo: Repo) -> None:
    types = Types(repo)
    reach = reachable_from_api(repo)
    check.count("functions_reachable_from_api", len(reach))
    if not types.available:
        raise AnalysisError("shared-state analysis needs mypy receiver types (mypy could not be loaded from the repository's environment)")
    globals_ = module_level_mutables(repo)
    check.count("module_level_mutables", sum(len(v) for v in globals_.values()))
    n_sites = 0
    for rel, qual, kind, target, recv, node in mutation_sites(repo, types):
        n_sites += 1
        m = repo.mod(rel)
        fname = qual.split(".")[-1]
        recv_txt = ast.unparse(recv)
        tn = types.of(rel, recv)
        # (1) module-level / class-level mutable objects written from a function
        root = recv
        while isinstance(root, (ast.Attribute, ast.Subscript)):
            root = root.value
        root_name = root.id if isinstance(root, ast.Name) else None
        in_function = qual != "<module>" and not (len(qual.split(".")) == 1 and qual in m.classes())
        g_names = {g.split(".")[-1] for g in globals_.get(rel, [])}
        imported_globals = {g.split(".")[-1] for gs in globals_.values() for g in gs}
        is_global_write = False
        if in_function and root_name:
            fn = node
            while fn is not None and not isinstance(fn, (ast.FunctionDef, ast.Lambda)):
                fn = m.parents.get(fn)
            local_names = set()
            if isinstance(fn, ast.FunctionDef):
                local_names = {a.arg for a in fn.args.args + fn.args.kwonlyargs}
                for x in ast.walk(fn):
                    if isinstance(x, ast.Name) and isinstance(x.ctx, ast.Store):
                        local_names.add(x.id)
            if root_name in (g_names | imported_globals) and root_name not in local_names and root_name.isupper():
                is_global_write = True
            if recv_txt.endswith(".BUILTIN") or recv_txt in ("cls.BUILTIN", "self.BUILTIN", "Parser.BUILTIN"):
                is_global_write = True
        if in_function and kind in ("attr-store", "delete", "item-store", "mutating-call"):
            # a class object (or type(self) / self.__class__) as receiver: class attributes are process-wide
            if (tn and any(t.startswith("type:") for t in tn)) or recv_txt in ("cls", "type(self)", "self.__class__") or recv_txt.startswith(("type(self).", "self.__class__.", "cls.")):
                if not (fname == "__init_subclass__"):
                    is_global_write = True
        if is_global_write:
            sig = f"process-wide object {recv_txt} is mutated by {kind}"
            check.oblige("SHARED-WRITE", f"{rel}::{qual}", sig, False, finding=Finding("SHARED-WRITE", f"{rel}::{qual}", sig, f"{qual}: `{target}` mutates a module-/class-level object shared by every parser in the process", {}))
            continue
        # (2) writes to long-lived objects outside their constructor
        ll = _is_long_lived(repo, tn)
        if isinstance(recv, ast.Name) and recv.id == "self" and fname in ("__init__",):
            check.oblige("SHARED-WRITE", f"{rel}::{qual}", f"constructor initialises {target}", True, nontrivial=False)
            continue
        # attribute chain receiver: classify by the innermost object that owns the mutated field
        owner_t = tn
        if kind == "mutating-call" and isinstance(recv, ast.Attribute):
            owner_t = types.of(rel, recv.value)
            ll = _is_long_lived(repo, owner_t) or ll
        if kind == "item-store" and isinstance(recv, ast.Attribute):
            owner_t2 = types.of(rel, recv.value)
            ll = _is_long_lived(repo, owner_t2) or ll
        if ll is None and kind == "attr-store" and (not tn or "Any" in tn) and not (isinstance(recv, ast.Name) and recv.id == "self"):
            ll = "object of unresolved type"  # conservative: could be a Rule / Expression
        if ll is None:
            check.oblige("SHARED-WRITE", f"{rel}::{qual}", f"{kind} {target}: receiver is per-call or local", True, nontrivial=False)
            continue
        if isinstance(recv, ast.Name) and recv.id == "self" and fname == "__init__":
            continue
        # constructor of the same object (self.x = ... in __init__ handled above); with __slots__ dataclass etc.
        key = (rel, qual, target.replace('"', "'"))
        norm_key = None
        for (r0, q0, t0), v in EXEMPT_KIND.items():
            # exact target first, else the longest listed prefix
            if r0 == rel and q0 == qual and (t0 == key[2] or key[2].startswith(t0)):
                if norm_key is None or (t0 == key[2]) or (norm_key[2] != key[2] and len(t0) > len(norm_key[2])):
                    norm_key = (r0, q0, t0)
        construct = f"{rel}::{qual}"
        if construct not in reach:
            check.oblige("SHARED-WRITE", construct, f"{kind} {target}: function is not reachable from Parser construction / parse / generate / optimize", True, nontrivial=False)
            check.count("long_lived_writes_unreachable")
            continue
        check.count("long_lived_write_candidates")
        if norm_key is None and kind == "attr-store" and isinstance(recv, ast.Name) and recv.id == "self" and target.count(".") == 1:
            # a lazily compiled pattern, whatever the field is called: `if self.x is None: self.x = re.compile(...)` -
            # the stored value is a function of the node's own immutable fields, so a race stores equal values
            stmt = node
            while stmt is not None and not isinstance(stmt, (ast.Assign, ast.AnnAssign)):
                stmt = m.parents.get(stmt)
            val_src = ast.unparse(stmt.value) if stmt is not None and getattr(stmt, "value", None) is not None else ""
            if "re.compile(" in val_src or "regex.compile(" in val_src:
                ok, why = check_premise(repo, rel, qual, target, "lazy-cache", node, m)
                if ok:
                    check.oblige("SHARED-WRITE", construct, f"{kind} {target}: a lazily compiled pattern; premise checked: {why}", True)
                    continue
        if norm_key is None and kind == "attr-store" and isinstance(recv, ast.Name) and target.count(".") == 1:
            # a direct attribute store on a local bound exactly once, in this function, to copy.copy(...) /
            # copy.deepcopy(...): the object written is the copy made in this call, wherever the code lives (the
            # premise of the 'local-copy' exemption, checked for the construct instead of for one listed function)
            ok, why = check_premise(repo, rel, qual, target, "local-copy", node, m)
            if ok:
                check.oblige("SHARED-WRITE", construct, f"{kind} {target}: the receiver is a copy made in this call; premise checked: {why}", True)
                continue
        if norm_key is None:
            sig = f"{kind} {target} writes a long-lived {ll.split('.')[-1]} object outside its constructor"
            check.oblige("SHARED-WRITE", construct, sig, False, finding=Finding("SHARED-WRITE", construct, sig, f"{qual}: `{target}` modifies an object that outlives the call and may be shared between parsers, parse() calls or threads", {"receiver_type": ll}))
            continue
        ekind, reason = EXEMPT_KIND[norm_key]
        ok, why = check_premise(repo, rel, qual, norm_key[2], ekind, node, m)
        sig = f"{kind} {target}: exemption '{ekind}' premise does not hold"
        check.oblige("SHARED-WRITE", construct, f"{kind} {target}: exempt ({ekind}: {reason}); premise checked: {why}" if ok else sig, ok,
                     finding=Finding("SHARED-WRITE", construct, sig, f"{qual}: `{target}` — {why}", {"exemption": ekind}))
    check.count("mutation_sites", n_sites)


def allocation_sites(check: Check, repo: Repo) -> None:
    # fresh per-call state
    parse = repo.func("src/pest/parser.py", "Parser.parse")
    allocs = [ast.unparse(n.func) for n in ast.walk(parse) if isinstance(n, ast.Call)]
    ok = "ParserState" in allocs
    check.oblige("ALLOC", "src/pest/parser.py::Parser.parse", "a fresh ParserState per parse() call" if ok else "Parser.parse does not allocate its ParserState", ok)
    lists = [n for n in ast.walk(parse) if isinstance(n, ast.List) and not n.elts]
    check.oblige("ALLOC", "src/pest/parser.py::Parser.parse", "a fresh pair list per parse() call" if lists else "Parser.parse does not allocate its pair list", bool(lists))
    # no attribute of the Parser object is written by parse()/generate()
    for q in ("Parser.parse", "Parser.generate", "Parser.tree_view", "Parser.__str__"):
        fn = repo.func("src/pest/parser.py", q)
        w = [ast.unparse(t) for n in ast.walk(fn) if isinstance(n, (ast.Assign, ast.AugAssign)) for t in (n.targets if isinstance(n, ast.Assign) else [n.target]) if isinstance(t, (ast.Attribute, ast.Subscript)) and ast.unparse(t).startswith("self")]
        check.oblige("ALLOC", f"src/pest/parser.py::{q}", f"{q} writes no field of the Parser" if not w else f"{q} writes {w}", not w)
    # mutable default arguments anywhere
    n_defs = 0
    for rel in repo.py_files:
        m = repo.mod(rel)
        for n in ast.walk(m.tree):
            if isinstance(n, ast.FunctionDef):
                n_defs += 1
                for d in list(n.args.defaults) + [k for k in n.args.kw_defaults if k is not None]:
                    bad = isinstance(d, (ast.List, ast.Dict, ast.Set)) or (isinstance(d, ast.Call) and ast.unparse(d.func) in ("list", "dict", "set", "Stack", "ParserState"))
                    if bad:
                        q = qualname_of(m, n)
                        check.oblige("ALLOC", f"{rel}::{q}", f"mutable default argument {ast.unparse(d)}", False)
    check.count("function_defs_scanned", n_defs)
    check.oblige("ALLOC", "src/pest", "no mutable default argument in the library", True)
    # ParserState carries all per-parse mutable state: its fields are initialised per instance in __init__
    init = repo.func("src/pest/state.py", "ParserState.__init__")
    fields = {t.attr for n in ast.walk(init) if isinstance(n, (ast.Assign, ast.AnnAssign)) for t in (n.targets if isinstance(n, ast.Assign) else [n.target]) if isinstance(t, ast.Attribute)}
    cls = repo.cls("src/pest/state.py", "ParserState")
    class_level = [ast.unparse(s.targets[0]) for s in cls.body if isinstance(s, ast.Assign) and ast.unparse(s.targets[0]) != "__slots__"]
    check.oblige("ALLOC", "src/pest/state.py::ParserState", "no class-level (shared) field on ParserState" if not class_level else f"class-level fields on ParserState: {class_level}", not class_level)
    # every attribute a method of ParserState uses through `self` is bound per instance in __init__ (none comes into being
    # later, none is found on the class): whatever the fields are called
    members = {s.name for s in cls.body if isinstance(s, (ast.FunctionDef, ast.AsyncFunctionDef))}
    used: dict[str, str] = {}
    for fn in [x for x in cls.body if isinstance(x, ast.FunctionDef) and x.name != "__init__"]:
        for n in ast.walk(fn):
            if isinstance(n, ast.Attribute) and isinstance(n.value, ast.Name) and n.value.id == "self" and n.attr not in members and not (n.attr.startswith("__") and n.attr.endswith("__")):
                used.setdefault(n.attr, fn.name)
    for need in sorted(used):
        check.oblige("ALLOC", "src/pest/state.py::ParserState.__init__", f"{need} is initialised per instance" if need in fields else f"{need} (used by ParserState.{used[need]}) is not initialised in ParserState.__init__", need in fields)
    check.count("state_fields_used", len(used))
    check.count("state_fields", len(fields))


MUTATORS = ("append", "extend", "pop", "clear", "insert", "remove", "add", "update", "setdefault", "discard", "popitem", "sort", "reverse", "appendleft", "popleft", "push", "snapshot", "restore", "drop_snapshot")


def class_level_mutables(check: Check, repo: Repo) -> None:
    """A mutable container bound in a class body is one object shared by every instance
    (and every thread): it may serve as a read-only table, but an in-place mutation
    through `self.<name>` without a per-instance assignment in __init__ is shared state."""
    n_attrs = 0
    for rel in repo.py_files:
        m = repo.mod(rel)
        for cname, c in m.classes().items():
            attrs: dict[str, ast.AST] = {}
            for st in c.body:
                tgt = val = None
                if isinstance(st, ast.Assign) and len(st.targets) == 1 and isinstance(st.targets[0], ast.Name):
                    tgt, val = st.targets[0].id, st.value
                elif isinstance(st, ast.AnnAssign) and isinstance(st.target, ast.Name) and st.value is not None:
                    tgt, val = st.target.id, st.value
                if tgt is None or tgt == "__slots__":
                    continue
                mutable = isinstance(val, (ast.List, ast.Dict, ast.Set, ast.ListComp, ast.DictComp, ast.SetComp)) or (
                    isinstance(val, ast.Call) and ast.unparse(val.func).split(".")[-1] in ("list", "dict", "set", "defaultdict", "deque", "OrderedDict", "Counter", "Stack", "bytearray"))
                if mutable:
                    attrs[tgt] = st
            if not attrs:
                continue
            family = [cname] + [x for x in repo.subclasses(cname) if x != cname]
            for attr, st in attrs.items():
                n_attrs += 1
                shadowed_in: set[str] = set()
                mutated: list[str] = []
                for fam in family:
                    if fam not in repo.class_table:
                        continue
                    frel, fnode = repo.class_table[fam]
                    for fn in [x for x in fnode.body if isinstance(x, ast.FunctionDef)]:
                        # locals that alias the class-level object: `ops = self._LED_OPS`
                        aliases = {t.id for a_ in ast.walk(fn) if isinstance(a_, ast.Assign) and isinstance(a_.value, ast.Attribute) and a_.value.attr == attr
                                   and (ast.unparse(a_.value.value) in ("self", "cls", cname, "type(self)", "self.__class__")) for t in a_.targets if isinstance(t, ast.Name)}
                        for n in ast.walk(fn):
                            # per-instance (re)binding in __init__
                            if fn.name == "__init__" and isinstance(n, (ast.Assign, ast.AnnAssign)):
                                tg = n.targets if isinstance(n, ast.Assign) else [n.target]
                                if any(isinstance(t, ast.Attribute) and isinstance(t.value, ast.Name) and t.value.id == "self" and t.attr == attr for t in tg) and (isinstance(n, ast.Assign) or n.value is not None):
                                    shadowed_in.add(fam)
                            recv = None
                            if isinstance(n, ast.Call) and isinstance(n.func, ast.Attribute) and n.func.attr in MUTATORS:
                                recv = n.func.value
                            elif isinstance(n, (ast.Assign, ast.AugAssign, ast.Delete)):
                                tg = n.targets if isinstance(n, (ast.Assign, ast.Delete)) else [n.target]
                                for t in tg:
                                    if isinstance(t, ast.Subscript):
                                        recv = t.value
                                    elif isinstance(n, ast.AugAssign) and isinstance(t, ast.Attribute):
                                        recv = t
                            if recv is not None and isinstance(recv, ast.Attribute) and recv.attr == attr and isinstance(recv.value, ast.Name) and recv.value.id in ("self", "cls"):
                                mutated.append(f"{fam}.{fn.name}")
                            if recv is not None and isinstance(recv, ast.Attribute) and recv.attr == attr and ast.unparse(recv.value) in (cname, "type(self)", "self.__class__"):
                                mutated.append(f"{fam}.{fn.name}")
                            if recv is not None and isinstance(recv, ast.Name) and recv.id in aliases:
                                mutated.append(f"{fam}.{fn.name} (through the alias {recv.id})")
                construct = f"{rel}::{cname}.{attr}"
                # the base class must shadow (then every instance, of every subclass calling super().__init__, has its own)
                ok = not mutated or cname in shadowed_in
                sig = "a mutable class-level attribute is mutated in place through instances: one object shared by all instances and threads"
                check.oblige("CLASS-MUTABLE", construct, (f"class-level {attr} is never mutated in place (a constant table)" if not mutated else f"class-level {attr} is shadowed per instance in {cname}.__init__") if ok else sig, ok,
                             finding=Finding("CLASS-MUTABLE", construct, sig, f"{cname}.{attr} = {ast.unparse(st.value)[:40]} is bound once in the class body and mutated by {sorted(set(mutated))[:4]}; __init__ does not give each instance its own, so concurrent or successive parses see each other's entries", {"mutated_by": sorted(set(mutated))}))
    check.count("class_level_mutables", n_attrs)
