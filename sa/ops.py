"""Operator driver: runs E2 over both siblings (parse / generate skeleton) of every
grammar operator for a family of parameter bindings and entry configurations, and
normalises each abstract path into a :class:`PathRec`."""

from __future__ import annotations

import ast
from dataclasses import dataclass, field

from . import tmpl
from .core import AnalysisError
from .flow import AList, ChildRef, Exit, Flow, LRef, PairVal, PathRef, St, Sym, V
from .repo import Repo

EXPR_DIR = "src/pest/grammar/expressions"

# modifier masks are read from rule.py at run time (see modifier_masks)


@dataclass
class PathRec:
    side: str  # 'parse' | 'generate'
    construct: str
    variant: str
    entry: dict
    result: object  # True / False / None (unknown) / 'raise:X'
    attempts: list  # [(k, ok)]
    live: list  # canonical live trace from entry to exit: ('C',k) / ('T',) / ('A', how)
    out: list  # items that reached the output list
    out_matches_live: bool
    events: tuple
    notes: tuple
    open_ckpts: int
    dirty: bool
    moved: bool  # position differs from entry
    stack_in: tuple | None
    stack_out: tuple | None
    frames_out: tuple
    tags_in: tuple
    tags_out: tuple
    atomic_out: tuple
    atomic_saves: int
    neg_out: int
    suppress_out: int
    hide_in: object = False
    hide_out: object = False
    hide_saves: int = 0
    nodes: list = field(default_factory=list, repr=False)
    path: list = field(default_factory=list, repr=False)

    def trace_str(self) -> str:
        out = []
        for e in self.events:
            if e[0] == "C":
                out.append(f"C{e[2]}:{'ok' if e[3] else 'fail'}")
            elif e[0] in ("T", "CKPT", "OK", "RESTORE", "PAIR", "CLR"):
                out.append(e[0])
            elif e[0] == "EXT":
                out.append("EXT")
            elif e[0] == "MATCH":
                out.append(f"MATCH({e[1]}):{'ok' if e[2] else 'fail'}")
            else:
                out.append(e[0] + (":" + str(e[1]) if len(e) > 1 else ""))
        return " ".join(out)


def modifier_masks(repo: Repo) -> dict[str, int]:
    c = repo.mod("src/pest/grammar/rule.py").constants()
    for need in ("SILENT", "ATOMIC", "COMPOUND", "NONATOMIC"):
        if not isinstance(c.get(need), int):
            raise AnalysisError(f"anchor vanished: rule.py::{need}")
    return {k: c[k] for k in ("SILENT", "ATOMIC", "COMPOUND", "NONATOMIC")}  # type: ignore[misc]


def self_attrs_for(params: dict) -> dict:
    """Parameter binding -> abstract attribute values for the interpreter side."""
    out: dict = {}
    for k, v in params.items():
        if k == "_delegate":
            out[v] = ChildRef(f"self.{v}", 0)
        elif k == "expression":
            out[k] = ChildRef("self.expression", 0)
        elif k == "expressions":
            out[k] = AList(tuple(ChildRef(f"self.expressions[{i}]", i) for i in range(len(v))))
        elif isinstance(v, list):
            out[k] = AList(tuple(v))
        else:
            out[k] = v
    return out


def entry_state(flow: Flow, entry: dict, args: dict) -> tuple[St, LRef]:
    st = St()
    st.stack = entry.get("stack", ())
    st.tags = entry.get("tags", ())
    st.hide = bool(entry.get("hide", False))
    st.frames = ()
    out = flow.newlist(st)
    for name, kind in args.items():
        if kind == "state":
            st.env[name] = PathRef("state")
        elif kind == "self":
            st.env[name] = PathRef("self")
        elif kind == "pairs":
            st.env[name] = out
        else:
            st.env[name] = kind
    return st, out


def summarise(flow: Flow, e: Exit, out: LRef, side: str, construct: str, variant: str, entry: dict) -> PathRec:
    st = e.st
    attempts = [(ev[2], ev[3]) for ev in st.trace if ev[0] == "C"]
    path = flow.path_to(st.cur)
    live: list = []
    live_nodes: list = []
    for n in path[1:]:
        _, kind, info = flow.nodes[n]
        if kind == "child":
            live.append(("C", info.k))
            live_nodes.append(n)
        elif kind == "trivia":
            live.append(("T",))
            live_nodes.append(n)
        elif kind == "term":
            live.append(("A", info))
        elif kind == "dirty":
            live.append(("DIRTY", info.k))
    items = list(st.lists.get(out.lid, ()))
    out_nodes = []
    flat_ok = True
    for it in items:
        if it[0] in ("C", "T"):
            out_nodes.append(it[1])
        else:
            flat_ok = False
    matches = flat_ok and out_nodes == live_nodes
    if e.kind == "raise":
        result: object = f"raise:{e.value}"
    elif isinstance(e.value, bool):
        result = e.value
    else:
        result = None
    return PathRec(
        side=side, construct=construct, variant=variant, entry=entry, result=result, attempts=attempts, live=live,
        out=items, out_matches_live=matches, events=st.trace, notes=st.notes, open_ckpts=len(st.ckpts),
        dirty=flow.dirty(st), moved=st.cur != 0, stack_in=entry.get("stack", ()), stack_out=st.stack,
        frames_out=st.frames, tags_in=entry.get("tags", ()), tags_out=st.tags, atomic_out=st.atomic,
        atomic_saves=len(st.atomic_saves), neg_out=st.neg, suppress_out=st.suppress, nodes=flow.nodes, path=path,
        hide_in=bool(entry.get("hide", False)), hide_out=st.hide, hide_saves=len(st.hide_saves),
    )


def run_parse(repo: Repo, rel: str, cls: str, params: dict, entry: dict, unroll: int, method: str = "parse") -> tuple[list[PathRec], Flow]:
    r = repo.resolve_method(cls, method)
    if r is None:
        raise AnalysisError(f"anchor vanished: {rel}::{cls}.{method}")
    frel, fcls, fn = r
    construct = f"{frel}::{fcls}.{method}"
    flow = Flow(
        repo, construct=construct, self_attrs=self_attrs_for(params), modconst=repo.mod(frel).constants(),
        unroll=unroll, self_cls=cls,
    )
    names = [a.arg for a in fn.args.args]
    if len(names) != 3:
        raise AnalysisError(f"{construct}: expected (self, state, pairs) parameters, found {names}")
    st, out = entry_state(flow, entry, {names[0]: "self", names[1]: "state", names[2]: "pairs"})
    from .flow import local_names

    st.env["__locals__"] = local_names(fn)
    exits = flow.run(fn.body, st)
    variant = _variant(params, entry)
    return [summarise(flow, e, out, "parse", construct, variant, entry) for e in exits], flow


def run_skeleton(repo: Repo, sk: tmpl.Skeleton, params: dict, entry: dict, unroll: int, *, body: list[ast.stmt] | None = None, result_var: str | None = "MATCHED", out_name: str = "PAIRS", helpers: dict | None = None) -> tuple[list[PathRec], Flow]:
    try:
        tree = ast.parse(sk.source)
    except SyntaxError as e:
        raise _SkeletonSyntax(sk, e) from e
    stmts = body if body is not None else tree.body
    flow = Flow(repo, construct=sk.construct, self_attrs={}, modconst={}, unroll=unroll, template=True)
    flow.free_ok = {n for n, _ in sk.constants} | set(helpers or {})
    flow.template_helpers = dict(helpers or {})  # type: ignore[attr-defined]
    # names the emitted code binds at its top level, next to the function under analysis
    top = [n for n in tree.body if isinstance(n, (ast.Assign, ast.AnnAssign))]
    flow.module_lists = {t.id for n in top for t in ([n.target] if isinstance(n, ast.AnnAssign) else n.targets) if isinstance(t, ast.Name) and isinstance(n.value, (ast.List, ast.Dict, ast.Set))}  # type: ignore[attr-defined]
    flow.free_ok |= {t.id for n in top for t in ([n.target] if isinstance(n, ast.AnnAssign) else n.targets) if isinstance(t, ast.Name)}
    st, out = entry_state(flow, entry, {"state": "state", out_name: "pairs"})
    exits = flow.run(stmts, st, result_var=result_var)
    variant = _variant(params, entry) + ("{" + ",".join(f"{c}={'T' if d else 'F'}" for c, d in sk.decisions) + "}" if sk.decisions else "")
    return [summarise(flow, e, out, "generate", sk.construct, variant, entry) for e in exits], flow


class _SkeletonSyntax(Exception):
    def __init__(self, sk: tmpl.Skeleton, err: SyntaxError):
        self.sk = sk
        self.err = err


def _variant(params: dict, entry: dict) -> str:
    ps = []
    for k, v in params.items():
        if k in ("expression", "_delegate"):
            continue
        if k == "expressions":
            ps.append(f"n={len(v)}")
        else:
            ps.append(f"{k}={v!r}")
    if entry.get("stack"):
        ps.append(f"stack={len(entry['stack'])}")
    elif "stack" in entry:
        ps.append("stack=0")
    if entry.get("tags"):
        ps.append("tag_on_stack")
    if entry.get("hide"):
        ps.append("inside_atomic")
    return ",".join(ps)


STACK_ENTRIES = [(), (Sym("s0"),), (Sym("s0"), Sym("s1"))]
