"""C01 extras: template hygiene, generated-name injectivity, compiled-constant parity
between siblings, determinism of generation, Builder contract."""

from __future__ import annotations

import ast
import re

from . import tmpl
from .core import AnalysisError, Check, Finding
from .repo import Repo

GEN_REL = "src/pest/grammar/codegen/generate.py"
BUILDER_REL = "src/pest/grammar/codegen/builder.py"

HYGIENE_EXEMPT = {
    "VERSION": "package version from importlib.metadata, spliced into the module docstring only; a PEP 440 version cannot contain a quote or backslash",
}


def hygiene(check: Check, holes: list) -> None:
    seen = set()
    for h in holes:
        check.count("template_holes")
        key = (h.where, h.expr, h.kind)
        if key in seen:
            continue
        seen.add(key)
        bad = h.kind in ("raw-str", "raw-unknown") and h.expr not in HYGIENE_EXEMPT
        what = f"hole {{{h.expr}}} is spliced as {h.kind}"
        check.oblige(
            "HYGIENE", h.where, what if not bad else f"grammar-derived string {{{h.expr}}} is spliced into code without repr()", not bad,
            finding=Finding("HYGIENE", h.where, f"grammar-derived string {{{h.expr}}} is spliced into code without repr()",
                            f"{h.where.split('::')[-1]}: {{{h.expr}}} reaches the emitted code raw (only identifiers, repr() literals and ints may): {h.line.strip()[:80]}", {"line": h.line}),
        )


def naming(check: Check, repo: Repo, module_sks: list) -> None:
    """Generated identifier families must be injective and disjoint from the fixed names."""
    label, sk, ents = module_sks[-1]
    tree = ast.parse(sk.source)
    rule_names = {str(e.attrs["name"]) for e in ents}
    defs = set()
    for n in tree.body:
        if isinstance(n, (ast.FunctionDef, ast.ClassDef)):
            defs.add(n.name)
        elif isinstance(n, (ast.Assign, ast.AnnAssign)):
            for t in (n.targets if isinstance(n, ast.Assign) else [n.target]):
                if isinstance(t, ast.Name):
                    defs.add(t.id)
    derived = {f"parse_{r}" for r in rule_names} | {f"_parse_{r}" for r in rule_names}
    fixed = defs - derived
    construct = f"{GEN_REL}::generate_module"
    collisions = sorted({f[len(p):] for f in fixed for p in ("parse_", "_parse_") if f.startswith(p) and f[len(p):].isidentifier()})
    check.count("fixed_module_names", len(fixed))
    for n in collisions:
        sig = f"a rule named '{n}' collides with the generated module-level name of the same spelling"
        check.oblige("NAME-COLLISION", construct, sig, False, finding=Finding("NAME-COLLISION", construct, sig, f"rule name '{n}' is a valid pest identifier but parse_{n}/_parse_{n} is a fixed name of the generated module", {"fixed": sorted(fixed)}))
    if not collisions:
        check.oblige("NAME-COLLISION", construct, "no user rule name can collide with a fixed generated name", True)
    # enum member names
    fn = repo.func(GEN_REL, "generate_rule_enum")
    members = []  # (leading literal prefix, hole expression)
    for n in ast.walk(fn):
        if isinstance(n, ast.JoinedStr) and any(isinstance(v, ast.Constant) and " = " in str(v.value) for v in n.values):
            prefix = ""
            hole = None
            for v in n.values:
                if isinstance(v, ast.Constant):
                    txt = str(v.value)
                    if " = " in txt:
                        break
                    if hole is None:
                        prefix += txt
                elif hole is None:
                    hole = ast.unparse(v.value)
            if hole is not None:
                members.append((prefix, hole))
    if not members:
        raise AnalysisError(f"{GEN_REL}::generate_rule_enum: enum member template not found")
    construct = f"{GEN_REL}::generate_rule_enum"
    for prefix, ex in sorted(set(members)):
        inj = ex in ("name", "rule.name")
        sig = f"enum member names are {ex}: not injective on rule names"
        check.oblige("ENUM-NAMES", construct, f"enum member names are {ex} (injective)" if inj else sig, inj,
                     finding=Finding("ENUM-NAMES", construct, sig, f"Rule enum members are named {ex}; rule names that differ only by that mapping (e.g. 'a' and 'A') produce a duplicate member and the module fails to import", {}))
        keeps = prefix == "" and ex in ("name", "rule.name", "name.upper()", "name.lower()", "rule.name.upper()")
        sig2 = "enum member names keep leading/trailing underscores: _x_ and __x__ names are reserved by Enum"
        check.oblige("ENUM-NAMES", construct, "enum member names cannot be reserved sunder/dunder names" if not keeps else sig2, not keeps,
                     finding=Finding("ENUM-NAMES", construct, sig2, "a rule named like _x_ yields an Enum member with a reserved sunder/dunder name: class creation raises ValueError", {}))


def skip_namespace(check: Check, repo: Repo) -> None:
    """The fused trivia rule is looked up under a name users can define."""
    hits = []
    for rel in ("src/pest/state.py", GEN_REL, "src/pest/grammar/optimizer.py"):
        for n in ast.walk(repo.mod(rel).tree):
            if isinstance(n, ast.Constant) and n.value == "SKIP":
                hits.append(rel)
                break
    check.count("skip_lookup_sites", len(hits))
    if len(hits) < 2:
        raise AnalysisError("anchor vanished: the fused SKIP rule lookup (state.py / generate.py / optimizer.py)")
    construct = "src/pest/grammar/optimizer.py::Optimizer._optimize_skip_rule"
    sig = "the internal fused trivia rule is stored and looked up under 'SKIP', a valid user rule name"
    check.oblige("NAME-COLLISION", construct, sig, False, finding=Finding("NAME-COLLISION", construct, sig, "a user rule named SKIP is used as the implicit trivia rule by parse_trivia (interpreter and generated) and is overwritten by the optimizer's fused rule", {"sites": hits}))


# ----------------------------------------------------------------------------- constant parity
def _compile_calls(fn: ast.AST) -> list[ast.Call]:
    return [n for n in ast.walk(fn) if isinstance(n, ast.Call) and ast.unparse(n.func) == "re.compile"]


def _flags(call_args: list[ast.expr], keywords: list[ast.keyword]) -> set[str]:
    flags: set[str] = set()
    nodes = list(call_args[1:]) + [k.value for k in keywords if k.arg == "flags"]
    for n in nodes:
        for t in ast.walk(n):
            if isinstance(t, ast.Attribute) and isinstance(t.value, ast.Name) and t.value.id == "re":
                flags.add(_FLAG_ALIASES.get(t.attr, t.attr))
    return flags


_FLAG_ALIASES = {"I": "IGNORECASE", "M": "MULTILINE", "S": "DOTALL", "X": "VERBOSE", "A": "ASCII", "U": "UNICODE", "V1": "VERSION1", "V0": "VERSION0", "F": "FULLCASE"}
VERSION_FLAGS = {"VERSION0", "VERSION1"}


def _norm_pat(node: ast.AST, local: dict[str, ast.AST]) -> str:
    class R(ast.NodeTransformer):
        def visit_Name(self, n: ast.Name):  # noqa: N802
            if n.id in local:
                return self.visit(local[n.id])
            if n.id in ("pattern", "value", "start", "stop"):
                return ast.Attribute(ast.Name("self", ast.Load()), n.id, ast.Load())
            return n

    return ast.unparse(R().visit(ast.parse(ast.unparse(node), mode="eval").body))


def constant_parity(check: Check, repo: Repo) -> None:
    """Patterns compiled for parse() and emitted by generate() must agree in pattern
    expression and behaviour-relevant flags."""
    for cname in repo.subclasses("Expression"):
        rel, cnode = repo.class_table[cname]
        gen = next((n for n in cnode.body if isinstance(n, ast.FunctionDef) and n.name == "generate"), None)
        if gen is None:
            continue
        # generator side: gen.constant(prefix, f"re.compile({hole!r}, FLAGS)")
        gen_side = []
        local: dict[str, ast.AST] = {}
        for n in ast.walk(gen):
            if isinstance(n, ast.Assign) and len(n.targets) == 1 and isinstance(n.targets[0], ast.Name):
                local[n.targets[0].id] = n.value
        for n in ast.walk(gen):
            if isinstance(n, ast.Call) and ast.unparse(n.func) == "gen.constant" and len(n.args) >= 2 and isinstance(n.args[1], ast.JoinedStr):
                js = n.args[1]
                text = ""
                holes: dict[str, ast.AST] = {}
                for v in js.values:
                    if isinstance(v, ast.Constant):
                        text += str(v.value)
                    else:
                        nm = f"__hole{len(holes)}__"
                        holes[nm] = v.value
                        text += nm
                try:
                    call = ast.parse(text, mode="eval").body
                except SyntaxError as e:
                    raise AnalysisError(f"{rel}::{cname}.generate: constant template is not an expression: {text}") from e
                if isinstance(call, ast.Call) and ast.unparse(call.func) == "re.compile" and call.args and isinstance(call.args[0], ast.Name) and call.args[0].id in holes:
                    gen_side.append((_norm_pat(holes[call.args[0].id], local), _flags(call.args, call.keywords)))
        if not gen_side:
            continue
        # interpreter side: re.compile in __init__ or in a property of the class (MRO)
        int_side = []
        for c in repo.mro(cname):
            ent = repo.class_table.get(c)
            if not ent:
                continue
            for fn in ent[1].body:
                if isinstance(fn, ast.FunctionDef) and fn.name != "generate":
                    for call in _compile_calls(fn):
                        if call.args:
                            int_side.append((_norm_pat(call.args[0], {}), _flags(call.args, call.keywords)))
            if int_side:
                break
        construct = f"{rel}::{cname}"
        check.count("compiled_constant_pairs")
        if not int_side:
            # nothing to compare text against; the semantic rules (C12 TERM-SEM, C01 DIFF) still decide what they
            # cover, so this is reported at the end and does not hide their findings
            check.defer_error(f"{construct}: generate() emits a compiled pattern but no re.compile is found on the interpreter side (CONST-PARITY cannot compare)")
            continue
        gp, gf = gen_side[0]
        ok_pat = any(gp == ip for ip, _ in int_side)
        check.oblige("CONST-PARITY", construct, "same pattern expression on both sides" if ok_pat else "pattern expression differs between parse() and generate()", ok_pat,
                     finding=Finding("CONST-PARITY", construct, "pattern expression differs between parse() and generate()", f"{cname}: generate() compiles {gp} but the interpreter compiles {[ip for ip, _ in int_side]}", {}))
        ifl = next((f for ip, f in int_side if ip == gp), int_side[0][1])
        ok_fl = (gf - VERSION_FLAGS) == (ifl - VERSION_FLAGS)
        sig = "regex flags differ between parse() and generate()"
        check.oblige("CONST-PARITY", construct, "same behaviour-relevant regex flags on both sides" if ok_fl else sig, ok_fl,
                     finding=Finding("CONST-PARITY", construct, sig, f"{cname}: generate() compiles with flags {sorted(gf)} but the interpreter with {sorted(ifl)}", {"generate": sorted(gf), "parse": sorted(ifl)}))
        if cname == "Range":
            okr = "IGNORECASE" not in gf and "IGNORECASE" not in ifl
            check.oblige("CONST-PARITY", construct, "character ranges are compiled case-sensitively" if okr else "a character range is compiled with IGNORECASE", okr)


# ----------------------------------------------------------------------------- determinism
NONDET_CALLS = {"id", "hash", "set", "frozenset", "vars", "globals", "locals", "dir"}
NONDET_MODULES = {"random", "time", "datetime", "uuid", "os", "secrets", "socket", "threading"}


def determinism(check: Check, repo: Repo) -> None:
    """No nondeterministic source may flow into emitted text: scanned in every
    generate() method and every function of codegen/."""
    targets: list[tuple[str, str, ast.FunctionDef]] = []
    for cname in repo.subclasses("Expression"):
        rel, cnode = repo.class_table[cname]
        for fn in cnode.body:
            if isinstance(fn, ast.FunctionDef) and fn.name == "generate":
                targets.append((rel, f"{cname}.generate", fn))
    for rel in (GEN_REL, BUILDER_REL):
        m = repo.mod(rel)
        for fn in m.functions().values():
            targets.append((rel, fn.name, fn))
        for cn, c in m.classes().items():
            for fn in c.body:
                if isinstance(fn, ast.FunctionDef):
                    targets.append((rel, f"{cn}.{fn.name}", fn))
    for rel, qual, fn in targets:
        check.count("generator_functions")
        bad = []
        for n in ast.walk(fn):
            if isinstance(n, ast.Call) and isinstance(n.func, ast.Name) and n.func.id in NONDET_CALLS:
                bad.append(ast.unparse(n)[:40])
            if isinstance(n, ast.Attribute) and isinstance(n.value, ast.Name) and n.value.id in NONDET_MODULES:
                bad.append(ast.unparse(n)[:40])
            if isinstance(n, (ast.Set, ast.SetComp)):
                bad.append(ast.unparse(n)[:40])
            if isinstance(n, (ast.Global, ast.Nonlocal)):
                bad.append(ast.unparse(n)[:40])
        construct = f"{rel}::{qual}"
        check.oblige("DETERMINISM", construct, "no nondeterministic or cross-call source in the generator" if not bad else "nondeterministic or cross-call source in a generator function", not bad,
                     finding=Finding("DETERMINISM", construct, "nondeterministic or cross-call source in a generator function", f"{qual} uses {bad}: emitted text may differ between two generate() calls", {"uses": bad}))
    # the counter that names temporaries lives in a Builder created per generated rule
    gr = repo.func(GEN_REL, "generate_rule")
    fresh = [n for n in ast.walk(gr) if isinstance(n, ast.Call) and ast.unparse(n.func) == "Builder"]
    check.oblige("DETERMINISM", f"{GEN_REL}::generate_rule", "a fresh Builder (counter) per generated rule" if fresh else "generate_rule does not allocate its own Builder: temporary numbering outlives one rule", bool(fresh))
    # module-level mutable state in codegen
    for rel in (GEN_REL, BUILDER_REL):
        for n in repo.mod(rel).tree.body:
            if isinstance(n, (ast.Assign, ast.AnnAssign)) and n.value is not None and isinstance(n.value, (ast.List, ast.Dict, ast.Set, ast.ListComp, ast.DictComp)):
                t = n.targets[0] if isinstance(n, ast.Assign) else n.target
                check.oblige("DETERMINISM", f"{rel}::{ast.unparse(t)}", "module-level mutable container in the code generator", False)


def builder_contract(check: Check, repo: Repo) -> None:
    c = repo.cls(BUILDER_REL, "Builder")
    meths = {n.name: n for n in c.body if isinstance(n, ast.FunctionDef)}
    for need in ("writeln", "block", "new_temp", "constant", "render", "__init__"):
        if need not in meths:
            raise AnalysisError(f"anchor vanished: {BUILDER_REL}::Builder.{need}")

    def srcs(fn: ast.FunctionDef) -> list[str]:
        return [ast.unparse(s) for s in fn.body if not (isinstance(s, ast.Expr) and isinstance(s.value, ast.Constant))]

    # semantic part: unique names per Builder (violations)
    for name in ("new_temp", "constant"):
        body = srcs(meths[name])
        first_inc = bool(body) and body[0] == "self.counter += 1"
        conditional = any(isinstance(s, (ast.If, ast.For, ast.While, ast.Try)) and "self.counter" in ast.unparse(s) for s in meths[name].body)
        embeds = "{prefix}{self.counter}" in " ".join(body)
        ok = first_inc and embeds and not conditional
        sig = f"Builder.{name} does not return a fresh name on every call"
        check.oblige("BUILDER", f"{BUILDER_REL}::Builder.{name}", f"{name}() increments the counter unconditionally and embeds it in the returned name" if ok else sig, ok,
                     finding=Finding("BUILDER", f"{BUILDER_REL}::Builder.{name}", sig, f"Builder.{name}: the counter must be incremented on every call and be part of the name, otherwise generated temporaries/constants clobber each other", {"body": body}))
    # modelling part: our concrete Builder model must match (else we cannot analyse)
    w = srcs(meths["writeln"])
    if w != ["self.lines.append('    ' * self.indent + line)"]:
        raise AnalysisError(f"{BUILDER_REL}::Builder.writeln no longer matches the analyser's Builder model: {w}")
    b = srcs(meths["block"])
    if b != ["self.indent += 1", "yield self", "self.indent -= 1"]:
        raise AnalysisError(f"{BUILDER_REL}::Builder.block no longer matches the analyser's Builder model: {b}")
    r = srcs(meths["render"])
    if r != ["return '\\n'.join(self.lines)"]:
        raise AnalysisError(f"{BUILDER_REL}::Builder.render no longer matches the analyser's Builder model: {r}")
    init = " ".join(srcs(meths["__init__"]))
    for need in ("self.indent = 0", "self.counter = 0", "self.lines: list[str] = []"):
        if need not in init:
            raise AnalysisError(f"{BUILDER_REL}::Builder.__init__ no longer matches the analyser's Builder model (missing {need})")
    check.count("builder_model_checks", 4)
