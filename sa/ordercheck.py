"""C02 O2-SEMANTICS — `is_order_independent` never approves a regrouping that can change a match.

`build_optimized_pattern` emits the alternatives of a squashed choice in four groups
(multi-character sensitive literals, insensitive literals, Unicode classes, one
character class).  An ordered choice and its regrouped regex disagree on some input
iff two alternatives whose relative order is swapped can both match at the same place
with different lengths, i.e. iff they have distinct, prefix-comparable matches.  The
guard only compares characters, case-maps them, takes a first character and tests
prefixes, so its outcome depends on the order/case type of the few characters involved;
it is evaluated (sa/ordabs.py, from the syntax tree) on every ordered pair of model
alternatives over a small alphabet with cased and uncased characters, and compared with
the reference computed from the finite model languages.
"""

from __future__ import annotations

import ast
import itertools

from .core import AnalysisError
from .ordabs import Ev, ModelRaise, Obj, Sym

SENS = Sym("ChoiceCase.SENSITIVE")
INSENS = Sym("ChoiceCase.INSENSITIVE")


def model_choices(alphabet: list[str], max_len: int) -> list[Obj]:
    out: list[Obj] = []
    order = sorted(alphabet)
    for i, a in enumerate(order):
        for b in order[i:]:
            out.append(Obj(("ChoiceRange", "tuple"), start=a, end=b))
    values = [""]
    for k in range(1, max_len + 1):
        values.extend("".join(p) for p in itertools.product(alphabet, repeat=k))
    for v in values:
        out.append(Obj("ChoiceLiteral", value=v, case=SENS))
        out.append(Obj("ChoiceLiteral", value=v, case=INSENS))
    out.append(Obj("UnicodePropertyRule", name="LETTER"))
    return out


def language(c: Obj, alphabet: list[str]) -> set[str] | None:
    if "ChoiceRange" in c.kinds:
        return {x for x in alphabet if c.start <= x <= c.end}
    if "ChoiceLiteral" in c.kinds:
        if c.case == SENS:
            return {c.value}
        opts = [sorted({ch.lower(), ch.upper()}) for ch in c.value]
        return {"".join(p) for p in itertools.product(*opts)}
    return None  # Unicode class: unknown single characters


def ref_rank(c: Obj) -> int:
    """Emission group of build_optimized_pattern (cross-checked against its match arms by rule O2)."""
    if "ChoiceLiteral" in c.kinds and len(c.value) != 1:
        return 0 if c.case == SENS else 1
    if "UnicodePropertyRule" in c.kinds:
        return 2
    return 3


def order_dependent(a: Obj, b: Obj, alphabet: list[str]) -> bool:
    """a precedes b in the grammar; does moving b in front of a change some match?"""
    if ref_rank(a) <= ref_rank(b):
        return False
    la, lb = language(a, alphabet), language(b, alphabet)
    if la is None or lb is None:
        # a Unicode class matches one unknown character: any literal that is not exactly one
        # character long may be prefix-comparable with it
        other = lb if la is None else la
        return any(len(y) != 1 for y in (other or set()))
    return any(x != y and (x.startswith(y) or y.startswith(x)) for x in la for y in lb)


def describe(c: Obj) -> str:
    if "ChoiceRange" in c.kinds:
        return f"'{c.start}'..'{c.end}'"
    if "ChoiceLiteral" in c.kinds:
        return ("^" if c.case == INSENS else "") + '"' + c.value + '"'
    return "LETTER"


def check_order_independence(fn: ast.FunctionDef, where: str, alphabet: list[str], max_len: int) -> tuple[int, list[tuple[str, str]]]:
    params = [a.arg for a in fn.args.args]
    if len(params) != 1:
        raise AnalysisError(f"anchor vanished: {where} no longer takes the list of choices")
    choices = model_choices(alphabet, max_len)
    bad: list[tuple[str, str]] = []
    n = 0
    for a in choices:
        for b in choices:
            if a is b:
                continue
            if not order_dependent(a, b, alphabet):
                continue  # only soundness is required: dependent => rejected
            n += 1
            env = {params[0]: [a, b], "ChoiceCase": Sym("ChoiceCase")}
            ev = Ev(env, where)
            pair = f"{describe(a)} | {describe(b)}"
            try:
                res = ev.run_function(fn.body)
            except ModelRaise as err:
                bad.append(("RAISES", f"{pair}: {err}"))
                continue
            if res is not False:
                bad.append(("UNSOUND", pair))
    return n, bad
